#!/venv/bin/python
"""Confirms an independently written breaking change and files it under seeded/.

  tools/confirm_seeded.py <name> <property> <source_dir> [--checks C01,C09] [--full-suite]

<source_dir> holds patch.diff, demo.py, NOTES.md (written by a sub-agent that saw
only the property text).  Steps, all in a fresh scratch worktree of /repo HEAD
outside /repo and /verif (removed afterwards):
  1. demo.py on the unmodified library must exit 0;
  2. `git apply patch.diff`, demo.py must exit 1;
  3. the stable tests (BASELINE.json) of the test files related to the touched
     modules (or the whole pinned suite with --full-suite) must still pass;
  4. the listed quick checks are run against the patched copy (VERIF_REPO) and
     their verdicts recorded (caught = exit 1 with a VIOLATION line).
Writes seeded/<name>/{patch.diff, demo.py, NOTES.md, meta.json}.
"""
import argparse
import json
import os
import re
import shutil
import subprocess
import sys
import tempfile
import time
import xml.etree.ElementTree as ET

HERE = os.path.dirname(os.path.dirname(os.path.abspath(__file__)))
PY = "/venv/bin/python"


def run(cmd, cwd, env=None, timeout=3600):
  e = dict(os.environ)
  e.update(env or {})
  p = subprocess.run(cmd, cwd=cwd, env=e, stdout=subprocess.PIPE,
                     stderr=subprocess.STDOUT, text=True, timeout=timeout)
  return p.returncode, p.stdout


def related_tests(touched, wt):
  files = set()
  for f in touched:
    base = os.path.basename(f)[:-3]
    stems = {base, base.replace("_lib", "_layer"), base.replace("_layer", "_lib"),
             base.replace("_lib", ""), base.replace("_layer", "")}
    for s in stems:
      t = os.path.join("tensorflow_lattice/python", s + "_test.py")
      if os.path.exists(os.path.join(wt, t)):
        files.add(t)
    if base in ("premade_lib", "configs", "premade"):
      files.add("tensorflow_lattice/python/premade_test.py")
  return sorted(files)


def stable_results(wt, test_files):
  base = json.load(open("/root/.vp/BASELINE.json"))
  stable = set(base["stable_pass"])
  fd, xml = tempfile.mkstemp(suffix=".xml")
  os.close(fd)
  cmd = [PY, "-m", "pytest", "-q", "-p", "no:cacheprovider", "--timeout=900",
         "--continue-on-collection-errors", "--junitxml=" + xml] + test_files
  rc, out = run(cmd, wt, {"PYTHONPATH": wt}, timeout=7200)
  passed, seen = set(), set()
  try:
    for tc in ET.parse(xml).getroot().iter("testcase"):
      tid = "%s::%s" % (tc.get("classname"), tc.get("name"))
      seen.add(tid)
      if not any(c.tag in ("failure", "error", "skipped") for c in tc):
        passed.add(tid)
  finally:
    os.unlink(xml)
  mods = set(os.path.basename(f)[:-3] for f in test_files)
  relevant = set(t for t in stable if t.split(".")[2] in mods) if test_files \
      else stable
  broken = sorted(relevant - passed)
  return {"test_files": test_files or ["<whole pinned suite>"],
          "stable_relevant": len(relevant), "stable_passing": len(
              relevant & passed), "broken": broken[:20]}


def main():
  ap = argparse.ArgumentParser()
  ap.add_argument("name")
  ap.add_argument("prop")
  ap.add_argument("src")
  ap.add_argument("--checks", default=None)
  ap.add_argument("--full-suite", action="store_true")
  ap.add_argument("--skip-tests", action="store_true")
  ap.add_argument("--needs", default="", help="what the change needs in order "
                  "to manifest (one sentence, from the author's notes)")
  args = ap.parse_args()
  prop = args.prop.upper()
  checks = (args.checks or prop).upper().split(",")
  patch = os.path.join(args.src, "patch.diff")
  demo = os.path.join(args.src, "demo.py")
  wt = tempfile.mkdtemp(prefix="confirm-seeded-")
  os.rmdir(wt)
  meta = {"name": args.name, "property": prop, "breaks": prop,
          "needs_to_manifest": args.needs,
          "author": "independent sub-agent given only the property text and a "
                    "scratch worktree", "confirmed_at": time.strftime(
      "%Y-%m-%d %H:%M"), "repo_head": subprocess.check_output(
          ["git", "-C", "/repo", "rev-parse", "--short", "HEAD"], text=True
      ).strip()}
  try:
    subprocess.check_call(["git", "-C", "/repo", "worktree", "add", "-q",
                           "--detach", wt, "HEAD"])
    shutil.copy(demo, os.path.join(wt, "demo.py"))
    env = {"PYTHONPATH": wt, "TF_CPP_MIN_LOG_LEVEL": "3",
           "CUDA_VISIBLE_DEVICES": ""}
    rc0, out0 = run([PY, "demo.py"], wt, env)
    meta["demo_unmodified"] = {"exit": rc0, "tail": out0[-600:]}
    rc, out = run(["git", "apply", "--whitespace=nowarn", os.path.abspath(patch)],
                  wt)
    if rc != 0:
      meta["error"] = "patch does not apply: " + out[-400:]
      print(json.dumps(meta, indent=1))
      return 2
    touched = [l[6:].strip() for l in open(patch) if l.startswith("+++ b/")]
    meta["touched"] = touched
    rc1, out1 = run([PY, "demo.py"], wt, env)
    meta["demo_with_change"] = {"exit": rc1, "tail": out1[-600:]}
    if not args.skip_tests:
      tf = [] if args.full_suite else related_tests(touched, wt)
      meta["tests"] = stable_results(wt, tf)
    meta["checks"] = {}
    for c in checks:
      t0 = time.time()
      rcc, outc = run([os.path.join(HERE, "check"), c, "--no-evidence",
                       "--no-shrink"], HERE,
                      {"VERIF_REPO": wt, "VERIF_FOUND_DIR": os.path.join(
                          wt, "found")}, timeout=7200)
      lines = [l for l in outc.splitlines() if l.startswith(
          ("VIOLATION", "violation:", "HARNESS"))]
      meta["checks"][c] = {"exit": rcc, "caught": rcc == 1,
                           "wall_s": round(time.time() - t0),
                           "evidence": lines[:4]}
    ok = (rc0 == 0 and rc1 == 1 and not meta.get("tests", {}).get("broken"))
    meta["confirmed"] = bool(ok)
    dst = os.path.join(HERE, "seeded", args.name)
    os.makedirs(dst, exist_ok=True)
    same = os.path.realpath(dst) == os.path.realpath(args.src)
    old_meta = os.path.join(dst, "meta.json")
    if "tests" not in meta and os.path.exists(old_meta):
      prev = json.load(open(old_meta))          # keep the earlier test verdict
      if "tests" in prev:
        meta["tests"] = prev["tests"]
        meta["tests"]["from_earlier_confirmation"] = prev.get("confirmed_at")
        ok = ok and not prev["tests"].get("broken")
        meta["confirmed"] = bool(ok)
    notes = os.path.join(args.src, "NOTES.md")
    if not same:
      shutil.copy(patch, os.path.join(dst, "patch.diff"))
      shutil.copy(demo, os.path.join(dst, "demo.py"))
      if os.path.exists(notes):
        shutil.copy(notes, os.path.join(dst, "NOTES.md"))
    with open(os.path.join(dst, "meta.json"), "w") as f:
      json.dump(meta, f, indent=1)
      f.write("\n")
    print(json.dumps(meta, indent=1))
    return 0 if ok else 1
  finally:
    subprocess.call(["git", "-C", "/repo", "worktree", "remove", "--force", wt])
    shutil.rmtree(wt, ignore_errors=True)


if __name__ == "__main__":
  sys.exit(main())
