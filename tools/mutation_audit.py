#!/venv/bin/python
"""Sensitivity audit: runs quick checks against hand-written mutants.

  tools/mutation_audit.py [--prop C01] [--id M-C01-1] [--scale 1.0] [--jobs 1]

Each mutant (audit/mutants_<prop>.json) is {"id", "property", "file", "old", "new",
"count" (default 1), "note", "expect": "kill" | "survive"}.  A scratch copy of
/repo/tensorflow_lattice is made under $TMPDIR, the textual replacement is
applied, the property's quick check runs with VERIF_REPO pointing at the copy,
and the copy is removed.  "survive" mutants are negative controls (behaviour-
preserving or still-correct changes that a sound check must NOT flag).
Results: audit/mutation_audit.json.  Not a registered check.
"""
import argparse
import json
import os
import shutil
import subprocess
import sys
import tempfile
import time

HERE = os.path.dirname(os.path.dirname(os.path.abspath(__file__)))
REPO = "/repo"


def run_mutant(m, scale, tier="quick"):
  tmp = tempfile.mkdtemp(prefix="verif-mut-")
  try:
    shutil.copytree(os.path.join(REPO, "tensorflow_lattice"),
                    os.path.join(tmp, "tensorflow_lattice"),
                    ignore=shutil.ignore_patterns("__pycache__", "*_test.py"))
    path = os.path.join(tmp, m["file"])
    src = open(path).read()
    cnt = src.count(m["old"])
    if cnt != m.get("count", 1):
      return {"id": m["id"], "property": m["property"], "status": "stale",
              "expect": m.get("expect", "kill"), "wall_s": 0,
              "detail": ["old text occurs %d times" % cnt]}
    src = src.replace(m["old"], m["new"])
    with open(path, "w") as f:
      f.write(src)
    env = dict(os.environ, VERIF_REPO=tmp,
               VERIF_FOUND_DIR=os.path.join(tmp, "found"))
    t0 = time.time()
    p = subprocess.run([os.path.join(HERE, "check"), m["property"], "--tier",
                        tier, "--no-evidence", "--no-shrink", "--scale",
                        str(scale)], cwd=HERE, env=env, stdout=subprocess.PIPE,
                       stderr=subprocess.STDOUT, text=True)
    lines = [l for l in p.stdout.splitlines() if l.startswith(
        ("VIOLATION", "violation:", "HARNESS-ERROR", "  sig="))]
    status = {0: "survived", 1: "killed"}.get(p.returncode, "harness-error")
    res = {"id": m["id"], "property": m["property"], "status": status,
           "expect": m.get("expect", "kill"), "wall_s": round(time.time() - t0),
           "detail": lines[:6]}
    if status == "harness-error":
      res["tail"] = p.stdout[-1500:]
    return res
  finally:
    shutil.rmtree(tmp, ignore_errors=True)


def main():
  ap = argparse.ArgumentParser()
  ap.add_argument("--prop", default=None)
  ap.add_argument("--id", default=None)
  ap.add_argument("--scale", type=float, default=1.0)
  ap.add_argument("--tier", default="quick")
  ap.add_argument("--no-write", action="store_true")
  args = ap.parse_args()
  import glob
  mutants = []
  for path in sorted(glob.glob(os.path.join(HERE, "audit", "mutants_*.json"))):
    with open(path) as f:
      mutants += json.load(f)
  sel = [m for m in mutants
         if (not args.prop or m["property"] == args.prop.upper()) and
         (not args.id or m["id"] == args.id)]
  out_path = os.path.join(HERE, "audit", "mutation_audit.json")
  results = {}
  if os.path.exists(out_path):
    with open(out_path) as f:
      results = {r["id"]: r for r in json.load(f)["results"]}
  bad = 0
  for m in sel:
    r = run_mutant(m, args.scale, args.tier)
    r["note"] = m.get("note", "")
    results[r["id"]] = r
    ok = (r["status"] == "killed") == (r["expect"] == "kill") and r[
        "status"] in ("killed", "survived")
    bad += 0 if ok else 1
    print("%-12s %-4s %-14s expect=%-8s %4ss %s" % (
        r["id"], r["property"], r["status"], r["expect"], r["wall_s"],
        (r["detail"][:1] or [""])[0][:110]))
    sys.stdout.flush()
    if not args.no_write:
      with open(out_path, "w") as f:
        json.dump({"results": [results[k] for k in sorted(results)]}, f,
                  indent=1)
        f.write("\n")
  return 1 if bad else 0


if __name__ == "__main__":
  sys.exit(main())
