#!/venv/bin/python
"""Prints the markdown table of seeded changes from seeded/*/meta.json."""
import glob, json, os
HERE = os.path.dirname(os.path.dirname(os.path.abspath(__file__)))
print("| change | property | touched | needs, in order to manifest | confirmed (demo 0/1, stable tests) | caught by (quick tier) | not caught by |")
print("|---|---|---|---|---|---|---|")
for p in sorted(glob.glob(os.path.join(HERE, "seeded", "*", "meta.json"))):
  m = json.load(open(p))
  t = m.get("tests", {})
  caught = [c for c, v in m["checks"].items() if v["caught"]]
  missed = [c for c, v in m["checks"].items() if not v["caught"]]
  print("| %s | %s | %s | %s | %s (%s/%s; %s/%s stable) | %s | %s |" % (
      m["name"], m["property"], ", ".join(os.path.basename(x) for x in m.get("touched", [])),
      m.get("needs_to_manifest", ""), "yes" if m.get("confirmed") else "NO",
      m["demo_unmodified"]["exit"], m["demo_with_change"]["exit"],
      t.get("stable_passing", "-"), t.get("stable_relevant", "-"),
      ", ".join(caught) or "-", ", ".join(missed) or "-"))
