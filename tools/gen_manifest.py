#!/venv/bin/python
"""Regenerates MANIFEST.json from the property modules present under props/.

Properties without a module are listed under not_applicable with the reason
given in tools/not_claimed.json (or "check not built yet")."""
import importlib, json, os, sys
HERE = os.path.dirname(os.path.dirname(os.path.abspath(__file__)))
sys.path.insert(0, HERE)
ids = [json.loads(l)["id"] for l in open(os.path.join(HERE, "properties.jsonl"))]
reasons = {}
p = os.path.join(HERE, "tools", "not_claimed.json")
if os.path.exists(p):
  reasons = json.load(open(p))
checks, na = [], []
ready = set(json.load(open(os.path.join(HERE, "tools", "ready.json"))))
for pid in ids:
  mp = os.path.join(HERE, "props", pid.lower() + ".py")
  if not os.path.exists(mp) or pid in reasons or pid not in ready:
    na.append({"property_id": pid, "reason": reasons.get(pid, "check not built yet (work in progress)")})
    continue
  src = open(mp).read()
  meta = {}
  # metadata is read textually so that this tool needs no TensorFlow import
  ns = {}
  import ast
  for node in ast.parse(src).body:
    if isinstance(node, ast.Assign) and len(node.targets) == 1 and isinstance(node.targets[0], ast.Name):
      name = node.targets[0].id
      if name in ("LEVEL_TEXT", "LEVEL_NOTE", "TECHNIQUE", "DESIGN_REF"):
        meta[name] = ast.literal_eval(node.value)
  checks.append({
      "property_id": pid,
      "quick_cmd": "./check %s --tier quick" % pid,
      "thorough_cmd": "./check %s --tier thorough" % pid,
      "evidence_file": "/verif/evidence/%s.json" % pid,
      "replay_cmd_template": "./check %s --replay {path}" % pid,
      "engine": "hypothesis-sharded",
      "level_claimed": {"category": "exploration", "text": meta["LEVEL_TEXT"],
                        "design_ref": meta.get("DESIGN_REF", "DESIGN.md section 5, " + pid)},
      "level_note": meta["LEVEL_NOTE"],
      "technique": meta["TECHNIQUE"],
  })
manifest = {
    "version": 1,
    "setup_cmd": "./setup.sh",
    "hooks": {
        "guard": "TENSORFLOW_LATTICE_VERIF",
        "enable": "no source hooks are needed: every property is observed through public eager-mode call sites; checks import tensorflow_lattice from /repo's working tree on every run",
        "baseline_off_cmd": "cd /repo && /venv/bin/python -m pytest -ra -q -p no:cacheprovider --timeout=900 --continue-on-collection-errors",
        "source_commits": [],
        "add_only": True,
    },
    "engines": [{
        "name": "hypothesis-sharded", "path": "/verif/vlib",
        "serves_properties": [c["property_id"] for c in checks],
        "kind_free_text": "property-based testing: Hypothesis strategies / rule-based state machines (and atheris byte decoders for the same case objects) drive the real library in fresh eager processes, one per shard, against float64 numpy reference models; collect-then-shrink; known findings matched by signature",
    }],
    "checks": checks,
    "not_applicable": na,
    "notes": "Exit codes: 0 held, 1 VIOLATION, 2 harness error (inconclusive). VERIF_SEED selects the Hypothesis seed of every shard. Known findings: /verif/known_findings.json. Sensitivity audit: /verif/audit/.",
}
with open(os.path.join(HERE, "MANIFEST.json"), "w") as f:
  json.dump(manifest, f, indent=1)
  f.write("\n")
sys.path.append("/opt/veriftools/pyvenv/lib/python3.11/site-packages")
try:
  import jsonschema
except Exception:
  jsonschema = None
if jsonschema: jsonschema.validate(manifest, json.load(open("/root/.vp/MANIFEST.schema.json")))
print("MANIFEST.json: %d checks, %d not claimed; valid" % (len(checks), len(na)))
