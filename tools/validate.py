#!/opt/veriftools/pyvenv/bin/python
"""Validates MANIFEST.json and every evidence file against the task schemas."""
import glob, json, sys, jsonschema
ok = True
def v(path, schema):
  global ok
  try:
    jsonschema.validate(json.load(open(path)), json.load(open(schema)))
    print("valid  ", path)
  except Exception as e:
    ok = False
    print("INVALID", path, str(e)[:300])
v("/verif/MANIFEST.json", "/root/.vp/MANIFEST.schema.json")
for p in sorted(glob.glob("/verif/evidence/*.json")):
  v(p, "/root/.vp/EVIDENCE.schema.json")
sys.exit(0 if ok else 1)
