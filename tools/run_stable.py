#!/venv/bin/python
"""Runs the pinned stable tests of the given test files against /repo.

  tools/run_stable.py tensorflow_lattice/python/premade_test.py [...]

Prints how many of the stable tests (BASELINE.json) of those files pass and
lists the ones that do not; exit 0 iff none is broken.  Used after every
`fix:` commit (the whole suite is tools/baseline.py).
"""
import json
import os
import sys
sys.path.insert(0, os.path.dirname(os.path.abspath(__file__)))
import confirm_seeded  # pylint: disable=g-import-not-at-top

res = confirm_seeded.stable_results("/repo", sys.argv[1:])
print(json.dumps(res, indent=1))
sys.exit(1 if res["broken"] else 0)
