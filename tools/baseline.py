#!/venv/bin/python
"""Runs the pinned suite (command from /root/.vp/BASELINE.json) on a tree and
reports which of the stable-pass tests do not pass.  usage: baseline.py [repo_dir]"""
import json, os, subprocess, sys, tempfile
import xml.etree.ElementTree as ET
repo = sys.argv[1] if len(sys.argv) > 1 else "/repo"
base = json.load(open("/root/.vp/BASELINE.json"))
fd, xml = tempfile.mkstemp(suffix=".xml"); os.close(fd)
env = dict(os.environ); env.pop("TENSORFLOW_LATTICE_VERIF", None)
cmd = ["/venv/bin/python", "-m", "pytest", "-ra", "-q", "-p", "no:cacheprovider",
       "--timeout=900", "--continue-on-collection-errors", "--junitxml=" + xml]
if repo != "/repo":
  env["PYTHONPATH"] = repo
p = subprocess.run(cmd, cwd=repo, env=env, stdout=subprocess.PIPE, stderr=subprocess.STDOUT, text=True)
passed = set()
for tc in ET.parse(xml).getroot().iter("testcase"):
  if not any(c.tag in ("failure", "error", "skipped") for c in tc):
    passed.add("%s::%s" % (tc.get("classname"), tc.get("name")))
os.unlink(xml)
missing = [t for t in base["stable_pass"] if t not in passed]
print("stable_pass: %d, passing now: %d, missing: %d" % (len(base["stable_pass"]), len(base["stable_pass"]) - len(missing), len(missing)))
for t in missing[:40]:
  print("  NOT PASSING:", t)
sys.exit(1 if missing else 0)
