"""C01 - strict Lattice weight constraint meets every strict shape constraint."""
import numpy as np
from hypothesis import strategies as st

from vlib import oracles as R
from vlib import strategies as S
from vlib.harness import Outcome, TOL_W, scale_of

ID = "C01"
TITLE = "Lattice weight constraint returns kernels meeting every strict shape constraint"
RULE = ("Hypothesis draws a lattice shape (rank 1-4 with rank >= 2 in three "
        "quarters of the draws, sizes 2-4 and in one case of five one "
        "dimension of size 5-6, <= 256 vertices; thorough rank <= 5, sizes <= "
        "5 resp. 5-8, <= 1024), a valid constraint configuration "
        "(monotonicities, Edgeworth/trapezoid trusts of both directions with "
        "monotone or free conditional feature, matching or not, approximately "
        "enforced families alongside in about half of the cases and in half "
        "of the cases with trusts, a constructed rank-4 class with two "
        "trapezoid trusts sharing a conditional feature plus one that does "
        "not, one/two-sided bounds, iterations in {0,1,2,5,10,20}), units "
        "1-3, an entry point (LatticeConstraints strict, Lattice layer "
        "constraint, Lattice.finalize_constraints() in strict and non-strict "
        "mode, lattice_lib.finalize_constraints), eager or inside tf.function "
        "(one case in twelve, lattices of <= 64 vertices), a documented "
        "spelling of the hyper-parameters (int/string monotonicities, "
        "unimodalities and trust directions, monotonicities=None when no "
        "dimension is monotone, list/tuple containers, a single trust tuple "
        "for the layer), float32 or (one case in eight) float64 layer and "
        "kernel, and a kernel (random "
        "mixture, certified-feasible, feasible plus one injected violation of "
        "a strict inequality, feasible plus one vertex / one whole unit "
        "pushed beyond ONE bound). The returned kernel is measured per unit "
        "by the float64 constraint rows. Non-trivial: some strict family is "
        "configured and the input violates one of them by > 10x tolerance, "
        "or the case is a non-constant feasible kernel (unchanged clause); "
        "distinct by SHA-1 of the case.")
NT_FLOOR = 0.5
BUDGET = {"quick": 400, "thorough": 5000}
TECHNIQUE = ("property-based testing (Hypothesis): generated configurations and "
             "kernels against float64 constraint-row oracle; certified "
             "NNLS-feasible kernels for the unchanged clause")
LEVEL_TEXT = ("Generated-input exploration of the strict weight constraint over "
              "random valid configurations x kernels x entry points; every "
              "monotonicity, Edgeworth, trapezoid and bound inequality of the "
              "result is evaluated per unit in float64; feasible kernels "
              "(certified by KKT) must come back unchanged. Catches ordering, "
              "direction, axis and clipping mistakes in finalize_constraints "
              "and in the wiring of the layer; cannot show absence.")
LEVEL_NOTE = ("Tolerance 2e-5*S with S=max(1,|result|,|bounds|) for "
              "inequalities, S incl. input for the unchanged clause. Shapes "
              "bounded as stated in the rule. Documented exemption: with "
              "Edgeworth trusts present, the trapezoid inequalities of the "
              "trusts whose conditional feature is shared by >= 2 trapezoid "
              "trusts are not judged (all other trapezoid trusts of the same "
              "configuration are). float32 kernels, float64 layer and kernel "
              "in one case of eight. Known finding "
              "F-C01-1 is matched by signature.")

ENTRIES = ["constraint", "constraint", "layer_constraint", "layer_finalize",
           "layer_finalize_nonstrict", "lib_finalize"]
STRICT = ("mono", "ew", "tz")
KMODES = ["raw"] * 4 + ["feasible"] * 2 + ["feasible+viol"] * 2 + [
    "feasible+bound", "feasible+shift"]
BOUND_KMODES = ("feasible+bound", "feasible+shift")
APPROX = ("mdom", "rdom", "jmono", "junimod")


def _prod(sizes):
  return int(np.prod(sizes))


@st.composite
def _sizes(draw, tier):
  """Shape: rank >= 2 in 3 of 4 draws, one dimension of size >= 5 in 1 of 5."""
  big = tier == "thorough"
  maxw = 1024 if big else 256
  min_rank = draw(st.sampled_from([1, 2, 2, 2]))
  sizes = draw(S.lattice_sizes(max_rank=5 if big else 4,
                               max_size=5 if big else 4,
                               max_weights=maxw, min_rank=min_rank))
  if draw(st.sampled_from([False] * 4 + [True])):
    i = draw(st.integers(0, len(sizes) - 1))
    sizes[i] = draw(st.sampled_from([5, 6, 7, 8] if big else [5, 5, 6]))
    while _prod(sizes) > maxw:
      rest = [j for j in range(len(sizes)) if j != i]
      j = max(rest, key=lambda q: sizes[q])
      if sizes[j] > 2:
        sizes[j] -= 1
      else:
        sizes.pop(j)
        i -= 1 if j < i else 0
  return sizes


@st.composite
def _bounds(draw, cfg, modes=("none", "min", "max", "both", "both")):
  bm = draw(st.sampled_from(list(modes)))
  lo = S.f32(draw(st.sampled_from([-10.0, -1.0, 0.0, 0.5, 100.0])))
  width = S.f32(draw(st.sampled_from([0.5, 1.0, 3.0, 1000.0])))
  cfg["omin"] = lo if bm in ("min", "both") else None
  cfg["omax"] = S.f32(lo + width) if bm in ("max", "both") else None


@st.composite
def _tzshare_cfg(draw):
  """Rank-4 configuration with Edgeworth trusts, two trapezoid trusts sharing a
  conditional feature (documented exemption) and a third trapezoid trust whose
  conditional feature is not shared (still claimed by the statement)."""
  m1, m2, c, c2 = draw(st.permutations([0, 1, 2, 3]))
  sizes = [draw(st.sampled_from([2, 2, 3])) for _ in range(4)]
  cfg = {"sizes": sizes, "mono": [0] * 4, "unimod": [0] * 4, "ew": [],
         "tz": [], "mdom": [], "rdom": [], "jmono": [], "junimod": [],
         "omin": None, "omax": None}
  cfg["mono"][m1] = cfg["mono"][m2] = 1
  for d in (c, c2):
    cfg["mono"][d] = draw(st.sampled_from([0, 0, 0, 1]))
  dirs = {(m, cc): draw(st.sampled_from([-1, 1]))
          for m in (m1, m2) for cc in (c, c2)}
  m3 = draw(st.sampled_from([m1, m2]))
  cfg["tz"] = [[m1, c, dirs[(m1, c)]], [m2, c, dirs[(m2, c)]],
               [m3, c2, dirs[(m3, c2)]]]
  pairs = sorted(dirs)
  picks = draw(st.lists(st.sampled_from(pairs), min_size=1, max_size=2,
                        unique=True))
  cfg["ew"] = [[m, cc, dirs[(m, cc)]] for m, cc in picks]
  draw(_bounds(cfg))
  return cfg


@st.composite
def _add_approx(draw, cfg):
  """Adds one approximately enforced family next to configured trusts."""
  n = len(cfg["sizes"])
  mono_dims = [d for d in range(n) if cfg["mono"][d] == 1]
  free3 = [d for d in range(n) if cfg["mono"][d] == 0 and
           cfg["unimod"][d] == 0 and cfg["sizes"][d] >= 3]
  fams = ["jmono"]
  if len(mono_dims) >= 2:
    fams += ["mdom", "rdom", "rdom"]
  if free3:
    fams += ["junimod", "junimod"]
  fam = draw(st.sampled_from(fams))
  if fam in ("mdom", "rdom"):
    a, b = draw(st.permutations(mono_dims))[:2]
    if [a, b] not in cfg[fam] and [b, a] not in cfg[fam]:
      cfg[fam].append([a, b])
  elif fam == "jmono":
    a, b = draw(st.permutations(list(range(n))))[:2]
    if [a, b] not in cfg["jmono"]:
      cfg["jmono"].append([a, b])
  elif not cfg["junimod"]:
    k = draw(st.integers(1, min(2, len(free3))))
    cfg["junimod"].append([list(draw(st.permutations(free3))[:k]),
                           draw(st.sampled_from(["valley", "peak"]))])


@st.composite
def _spell(draw, cfg):
  """One of the documented spellings of the hyper-parameters."""
  sp = {"sizes": draw(st.sampled_from(["list", "list", "tuple"])),
        "mono": draw(st.sampled_from(["int", "int", "str", "tuple"])),
        "unimod": draw(st.sampled_from(["int", "str"])),
        "trust_dir": draw(st.sampled_from(["int", "int", "str"])),
        "trust_inner": draw(st.sampled_from(["tuple", "tuple", "list"])),
        "trust_outer": draw(st.sampled_from(["list", "list", "tuple"])),
        "trust_single": draw(st.booleans())}
  if not any(cfg["mono"]) and draw(st.booleans()):
    sp["mono"] = "none"
  if not any(cfg["unimod"]) and draw(st.sampled_from([False] * 3 + [True])):
    sp["unimod"] = "zeros"
  return sp


@st.composite
def _case(draw, tier):
  if draw(st.sampled_from([False] * 24 + [True])):
    cfg = draw(_tzshare_cfg())
  else:
    sizes = draw(_sizes(tier))
    approx = draw(st.booleans())
    cfg = draw(S.lattice_config(sizes, approx=approx))
    if (cfg["ew"] or cfg["tz"]) and draw(st.booleans()):
      draw(_add_approx(cfg))
  units = draw(st.sampled_from([1, 1, 2, 3]))
  n = _prod(cfg["sizes"])
  kmode = draw(st.sampled_from(KMODES))
  if kmode in BOUND_KMODES and cfg["omin"] is None and cfg["omax"] is None:
    draw(_bounds(cfg, modes=("min", "max", "both", "both")))
  return {
      "cfg": cfg, "units": units,
      "iters": draw(st.sampled_from([0, 1, 2, 5, 10, 20])),
      "entry": draw(st.sampled_from(ENTRIES)),
      "kmode": kmode,
      "kernel": draw(S.array_desc(shape=(n, units))),
      "aux": draw(S.seeds),
      "spell": draw(_spell(cfg)),
      # a traced case costs ~10x an eager one (the Dykstra body is unrolled
      # in python over all constraint groups), so the traced variant is drawn
      # for one case in twelve and for lattices of <= 64 vertices only.
      "graph": n <= 64 and draw(st.sampled_from([False] * 11 + [True])),
      "f64": draw(st.sampled_from([False] * 7 + [True])),
  }


def strategy(tier):
  return _case(tier)


def tz_shared_conds(cfg):
  """Conditional features used by >= 2 distinct trapezoid trusts while Edgeworth
  trusts are present: the documented exemption covers the trapezoid trusts on
  these conditional features (and only them)."""
  if not cfg["ew"]:
    return set()
  conds = [t[1] for t in set(tuple(t) for t in cfg["tz"])]
  return set(c for c in conds if conds.count(c) > 1)


def tz_violation(cfg, w, skip_conds):
  """Largest trapezoid violation over the trusts whose conditional feature is
  not in skip_conds; None when no such trust exists."""
  worst = None
  for _, tag, r in R.constraint_rows(cfg, ("tz",)):
    if tag[1] in skip_conds:
      continue
    v = -sum(c * w[k] for k, c in r.items())
    worst = max(worst or 0.0, v, 0.0)
  return worst


def feasible_kernel(cfg, raw, aux, families=None):
  """Certified feasible float32 kernel derived from `raw` (n, units).

  The raw kernel (optionally plus a monotone trend) is mapped affinely into the
  configured bounds and then projected onto {configured cone} x {bounds} by the
  KKT-certified reference projection (feasibility error <= 1e-8 * S).
  """
  rs = np.random.RandomState(aux)
  n, units = raw.shape
  sizes = cfg["sizes"]
  grid = np.indices(sizes).reshape(len(sizes), -1).astype(np.float64)
  lo, hi = cfg.get("omin"), cfg.get("omax")
  out = np.zeros((n, units), np.float64)
  for u in range(units):
    sc = max(1e-30, float(np.max(np.abs(raw[:, u]))))
    trend = sum(cfg["mono"][d] * rs.uniform(0, 1.5) * grid[d]
                for d in range(len(sizes)))
    w0 = raw[:, u].astype(np.float64) + sc * trend * rs.choice([0.0, 1.0])
    mn, mx = float(w0.min()), float(w0.max())
    if lo is not None and hi is not None:
      a, b = sorted(rs.uniform(-0.2, 1.2, size=2))
      if mx > mn:
        w0 = (w0 - mn) / (mx - mn) * (b - a) * (hi - lo) + lo + a * (hi - lo)
      else:
        w0 = np.full_like(w0, lo + min(1.0, max(0.0, a)) * (hi - lo))
    elif lo is not None:
      w0 = w0 + (lo - mn) + rs.uniform(-0.3, 1.0) * max(mx - mn, 1.0)
    elif hi is not None:
      w0 = w0 - (mx - hi) - rs.uniform(-0.3, 1.0) * max(mx - mn, 1.0)
    w, info = R.lattice_nearest(cfg, w0, families, with_bounds=True)
    if not info["certified"]:
      return None
    out[:, u] = w
  k32 = out.astype(np.float32)
  # casting may push an extreme value over a bound by one ulp: clip in float32.
  if lo is not None:
    k32 = np.maximum(k32, np.float32(lo))
  if hi is not None:
    k32 = np.minimum(k32, np.float32(hi))
  return k32


def inject_violation(cfg, k32, aux):
  """Breaks one randomly chosen strict inequality in one unit."""
  rs = np.random.RandomState(aux + 1)
  rows = R.constraint_rows(cfg, STRICT)
  if not rows:
    return k32
  fam, _, r = rows[rs.randint(len(rows))]
  u = rs.randint(k32.shape[1])
  k = k32.astype(np.float64).copy()
  sc = max(1.0, float(np.max(np.abs(k))))
  idx = max(r, key=lambda i: r[i])       # a vertex with positive coefficient
  val = sum(c * k[i, u] for i, c in r.items())
  k[idx, u] -= (val + sc * rs.uniform(0.05, 1.0)) / r[idx]
  return k.astype(np.float32)


def inject_bound(cfg, k32, aux, whole_unit):
  """Pushes one vertex (or one whole unit) of a feasible kernel beyond ONE of
  the configured bounds by 1e-3..50 x S; everything else stays feasible."""
  rs = np.random.RandomState(aux + 2)
  k = k32.astype(np.float64).copy()
  sides = [sd for sd, b in (("min", cfg["omin"]), ("max", cfg["omax"]))
           if b is not None]
  side = sides[rs.randint(len(sides))]
  u = rs.randint(k.shape[1])
  sc = scale_of(k, cfg["omin"], cfg["omax"])
  amount = sc * 10.0 ** rs.uniform(-3.0, 1.7)
  if whole_unit:
    # the whole unit lies beyond the bound (its shape constraints stay intact)
    if side == "max":
      k[:, u] += cfg["omax"] - k[:, u].min() + amount
    else:
      k[:, u] -= k[:, u].max() - cfg["omin"] + amount
  else:
    idx = rs.randint(k.shape[0])
    k[idx, u] = cfg["omax"] + amount if side == "max" else cfg["omin"] - amount
  return k.astype(np.float32), side


_MONO_STR = {0: "none", 1: "increasing"}
_UNIMOD_STR = {0: "none", 1: "valley", -1: "peak"}
_DIR_STR = {1: "positive", -1: "negative"}
_DEFAULT_SPELL = {"sizes": "list", "mono": "int", "unimod": "int",
                  "trust_dir": "int", "trust_inner": "tuple",
                  "trust_outer": "list", "trust_single": False}


def spelled_kwargs(cfg, spell, layer):
  """kwargs for Lattice / LatticeConstraints in the drawn (documented) spelling.

  `layer` says whether the receiver is tfl.layers.Lattice (the only place that
  documents a single trust tuple instead of a list of tuples).
  """
  sp = dict(_DEFAULT_SPELL)
  sp.update(spell or {})
  kw = {"lattice_sizes": (tuple if sp["sizes"] == "tuple" else list)(
      cfg["sizes"])}
  mono = list(cfg["mono"])
  if sp["mono"] == "none" and not any(mono):
    kw["monotonicities"] = None
  elif sp["mono"] == "str":
    kw["monotonicities"] = [_MONO_STR[m] for m in mono]
  elif sp["mono"] == "tuple":
    kw["monotonicities"] = tuple(mono)
  else:
    kw["monotonicities"] = mono
  unimod = list(cfg.get("unimod") or [0] * len(mono))
  if any(unimod) or sp["unimod"] == "zeros":
    kw["unimodalities"] = ([_UNIMOD_STR[v] for v in unimod]
                           if sp["unimod"] == "str" else unimod)
  for key, name in (("ew", "edgeworth_trusts"), ("tz", "trapezoid_trusts")):
    if not cfg.get(key):
      continue
    inner = list if sp["trust_inner"] == "list" else tuple
    trusts = [inner([m, c, _DIR_STR[d] if sp["trust_dir"] == "str" else d])
              for m, c, d in cfg[key]]
    if layer and sp["trust_single"] and len(trusts) == 1:
      kw[name] = tuple(trusts[0])
    elif sp["trust_outer"] == "tuple":
      kw[name] = tuple(trusts)         # "iterable of three-element tuples"
    else:
      kw[name] = trusts
  for key, name in (("mdom", "monotonic_dominances"),
                    ("rdom", "range_dominances"),
                    ("jmono", "joint_monotonicities")):
    if cfg.get(key):
      kw[name] = [tuple(t) for t in cfg[key]]
  if cfg.get("junimod"):
    kw["joint_unimodalities"] = [(tuple(d), s) for d, s in cfg["junimod"]]
  kw["output_min"] = cfg.get("omin")
  kw["output_max"] = cfg.get("omax")
  return kw


def spell_labels(cfg, spell, entry):
  sp = dict(_DEFAULT_SPELL)
  sp.update(spell or {})
  labels = []
  lib = entry == "lib_finalize"
  layer = entry.startswith("layer")
  if sp["sizes"] == "tuple":
    labels.append("spell:sizes=tuple")
  if sp["mono"] == "none" and not any(cfg["mono"]):
    labels.append("spell:monotonicities=None")
  elif sp["mono"] == "tuple":
    labels.append("spell:monotonicities=tuple")
  elif sp["mono"] == "str" and not lib:
    labels.append("spell:monotonicities=strings")
  if not lib:
    if any(cfg["unimod"]) and sp["unimod"] == "str":
      labels.append("spell:unimodalities=strings")
    if not any(cfg["unimod"]) and sp["unimod"] == "zeros":
      labels.append("spell:unimodalities=all-zero-list")
    if cfg["ew"] or cfg["tz"]:
      if sp["trust_dir"] == "str":
        labels.append("spell:trust-direction=strings")
      if sp["trust_inner"] == "list":
        labels.append("spell:trust=inner-lists")
      if sp["trust_outer"] == "tuple":
        labels.append("spell:trusts=tuple-of-trusts")
      if layer and sp["trust_single"] and (
          len(cfg["ew"]) == 1 or len(cfg["tz"]) == 1):
        labels.append("spell:single-trust-tuple")
  return labels


class LibraryFailure(Exception):
  """A tensorflow_lattice error raised while tracing with AutoGraph.

  AutoGraph re-raises errors of converted library code from generated files,
  so the harness cannot attribute them by traceback; the error text still
  names the library file ("in user code: File .../tensorflow_lattice/...").
  """


def _traced(fn, *args):
  try:
    return fn(*args)
  except Exception as e:  # pylint: disable=broad-except
    if "/tensorflow_lattice/" in str(e):
      raise LibraryFailure("%s: %s" % (type(e).__name__, str(e)[:400]))
    raise


def apply_entry(case, k32):
  import tensorflow as tf
  import tensorflow_lattice as tfl
  cfg, units = case["cfg"], case["units"]
  entry = case["entry"]
  spell = case.get("spell")
  graph = bool(case.get("graph"))
  n = k32.shape[0]
  # float64 layer / kernel: the same (float32-representable) values.
  dt = tf.float64 if case.get("f64") else tf.float32
  k32 = k32.astype(dt.as_numpy_dtype)
  spec = [tf.TensorSpec([n, units], dt)]
  if entry == "constraint":
    c = tfl.lattice_layer.LatticeConstraints(
        num_projection_iterations=case["iters"],
        enforce_strict_monotonicity=True,
        **spelled_kwargs(cfg, spell, layer=False))
    # Keras applies a weight constraint inside the traced train function.
    if graph:
      return _traced(tf.function(c.__call__, input_signature=spec),
                     tf.constant(k32)).numpy()
    return c(tf.constant(k32)).numpy()
  if entry == "lib_finalize":
    # lattice_lib documents canonical values only ({0, 1}, tuples with +-1);
    # the containers (list / tuple, None for "no monotonicity") still vary.
    sp = spell or {}
    kw = spelled_kwargs(
        cfg, {"sizes": sp.get("sizes", "list"),
              "mono": "int" if sp.get("mono") == "str" else sp.get(
                  "mono", "int")}, layer=False)

    def lib(w):
      return tfl.lattice_lib.finalize_constraints(
          w, lattice_sizes=kw["lattice_sizes"],
          monotonicities=kw["monotonicities"],
          edgeworth_trusts=kw.get("edgeworth_trusts"),
          trapezoid_trusts=kw.get("trapezoid_trusts"),
          output_min=cfg["omin"], output_max=cfg["omax"])
    if graph:
      return _traced(tf.function(lib, input_signature=spec),
                     tf.constant(k32)).numpy()
    return lib(tf.constant(k32)).numpy()
  layer = tfl.layers.Lattice(
      units=units, num_projection_iterations=case["iters"],
      monotonic_at_every_step=(entry != "layer_finalize_nonstrict"),
      dtype=dt.name, **spelled_kwargs(cfg, spell, layer=True))
  d = len(cfg["sizes"])
  layer.build((None, d) if units == 1 else (None, units, d))
  layer.kernel.assign(k32)
  if entry == "layer_constraint":
    if graph:
      return _traced(tf.function(
          lambda: layer.kernel.constraint(layer.kernel))).numpy()
    return layer.kernel.constraint(layer.kernel).numpy()
  if graph:
    # graph mode: finalize_constraints() returns the assign_add op.
    _traced(tf.function(lambda: layer.finalize_constraints()))
  else:
    layer.finalize_constraints()
  return layer.kernel.numpy()


def signature(cfg, fam):
  cond_mono = any(cfg["mono"][t[1]] == 1 for t in cfg["ew"] + cfg["tz"])
  tz_cond_mono = any(cfg["mono"][t[1]] == 1 for t in cfg["tz"])
  return dict(kind=fam, ew=bool(cfg["ew"]), tz=bool(cfg["tz"]),
              mono_cond=bool(cond_mono), tz_mono_cond=bool(tz_cond_mono))


def _only_along_tz_cond(cfg, w, tol):
  """True iff every violated monotonicity inequality lies along a dimension that
  is the (monotone) conditional feature of a trapezoid trust - the mechanism of
  finding F-C01-1."""
  conds = set(t[1] for t in cfg["tz"] if cfg["mono"][t[1]] == 1)
  dims = set()
  for fam, tag, r in R.constraint_rows(cfg, ("mono",)):
    if -sum(c * w[k] for k, c in r.items()) > tol:
      dims.add(tag[0])
  return bool(dims) and dims <= conds


def run_case(case):
  out = Outcome()
  cfg, units = case["cfg"], case["units"]
  n = int(np.prod(cfg["sizes"]))
  raw = S.materialize(case["kernel"], (n, units))
  kmode = case["kmode"]
  strict_fams = any(cfg["mono"]) or bool(cfg["ew"]) or bool(cfg["tz"])
  has_bounds = cfg["omin"] is not None or cfg["omax"] is not None
  k32 = raw
  feasible = False
  bound_side = None
  if kmode != "raw":
    fk = feasible_kernel(cfg, raw, case["aux"])
    if fk is None:
      out.discard = "uncertified-feasible-kernel"
      return out
    k32 = fk
    feasible = True
    if kmode == "feasible+viol":
      k32 = inject_violation(cfg, fk, case["aux"])
      feasible = bool(np.array_equal(k32, fk))
    elif kmode in BOUND_KMODES:
      k32, bound_side = inject_bound(cfg, fk, case["aux"],
                                     whole_unit=kmode == "feasible+shift")
      feasible = bool(np.array_equal(k32, fk))
  out.label("entry:" + case["entry"], "kernel:" + kmode,
            "units:%d" % units, "rank:%d" % len(cfg["sizes"]),
            "iters:%d" % case["iters"])
  trusts = bool(cfg["ew"] or cfg["tz"])
  if cfg["ew"] and cfg["tz"]:
    out.label("trust:both")
  elif trusts:
    out.label("trust:one-kind")
  if any(cfg[f] for f in APPROX) or any(cfg["unimod"]):
    out.label("approx-families-alongside")
  if trusts:
    for f in APPROX:
      if cfg[f]:
        out.label("approx:%s+trust" % f)
  if has_bounds:
    out.label("bounded")
  if max(cfg["sizes"]) >= 5:
    out.label("size>=5")
  if case.get("graph"):
    out.label("graph:tf.function")
  if case.get("f64"):
    out.label("dtype:float64")
  out.label(*spell_labels(cfg, case.get("spell"), case["entry"]))
  if bound_side is not None and not feasible:
    two = cfg["omin"] is not None and cfg["omax"] is not None
    out.label("inject:%s beyond output_%s only" % (
        "whole unit" if kmode == "feasible+shift" else "one vertex",
        bound_side))
    if trusts and two:
      out.label("inject:one-sided bound violation + trusts + two-sided bounds")

  k64 = k32.astype(np.float64)
  s_in = scale_of(k64, cfg["omin"], cfg["omax"])
  in_viol = 0.0
  for u in range(units):
    v = R.violation_by_family(cfg, k64[:, u], STRICT)
    in_viol = max([in_viol] + [v.get(f, 0.0) for f in STRICT + ("bounds",)])

  try:
    res = apply_entry(case, k32).astype(np.float64)
  except LibraryFailure as e:
    # same verdict as the harness gives to an eager library exception
    out.nontrivial = True
    out.label("exception")
    out.violate(str(e), kind="exception", exc=str(e).split(":")[0],
                where="traced with tf.function")
    return out
  out.checks += 1
  if res.shape != (n, units) or not np.all(np.isfinite(res)):
    out.violate("result has shape %s / non-finite values" % (res.shape,),
                **signature(cfg, "finite"))
    return out
  s_out = scale_of(res, cfg["omin"], cfg["omax"])
  if case["entry"].startswith("layer_finalize"):
    # Lattice.finalize_constraints() computes kernel + (projected - kernel) in
    # float32, so its rounding error scales with the kernel it started from.
    s_out = max(s_out, s_in)
  tol = TOL_W * s_out
  lib_entry = case["entry"] == "lib_finalize"
  judged = list(STRICT)
  shared = tz_shared_conds(cfg)
  if shared:
    out.label("exempt:shared-cond-trapezoid")
    if any(t[1] not in shared for t in cfg["tz"]):
      out.label("tz:unshared trust judged next to exempt ones")
  worst = 0.0
  for u in range(units):
    v = R.violation_by_family(cfg, res[:, u], STRICT)
    if "tz" in v and shared:
      # documented exemption: only the trusts on a shared conditional feature.
      rest = tz_violation(cfg, res[:, u], shared)
      if rest is None:
        del v["tz"]
      else:
        v["tz"] = rest
    for fam in judged:
      if fam not in v:
        continue
      out.checks += 1
      worst = max(worst, v[fam] / s_out)
      if v[fam] > tol:
        sg = signature(cfg, fam)
        if fam == "mono":
          sg["along_tz_mono_cond"] = _only_along_tz_cond(cfg, res[:, u], tol)
        out.violate("%s violated by %.3g (tolerance %.3g) in unit %d via %s" %
                    (fam, v[fam], tol, u, case["entry"]), **sg)
    if "bounds" in v and not (lib_entry and not (cfg["ew"] or cfg["tz"])) and (
        not lib_entry or any(cfg["mono"])):
      out.checks += 1
      worst = max(worst, v["bounds"] / s_out)
      if v["bounds"] > tol:
        out.violate("bounds violated by %.3g (tolerance %.3g) in unit %d via %s"
                    % (v["bounds"], tol, u, case["entry"]),
                    **signature(cfg, "bounds"))
  out.info["worst_violation_over_S"] = worst
  if feasible:
    moved = float(np.max(np.abs(res - k64)))
    out.checks += 1
    out.info["moved_over_S"] = moved / s_in
    if moved > TOL_W * s_in:
      out.violate("feasible kernel moved by %.3g (tolerance %.3g) via %s" %
                  (moved, TOL_W * s_in, case["entry"]),
                  **signature(cfg, "unchanged"))
    out.nontrivial = bool(np.ptp(k64) > 0)
  else:
    out.nontrivial = bool((strict_fams or has_bounds) and
                          in_viol > 10 * TOL_W * s_in)
  return out
