"""C01 - strict Lattice weight constraint meets every strict shape constraint."""
import numpy as np
from hypothesis import strategies as st

from vlib import oracles as R
from vlib import strategies as S
from vlib.harness import Outcome, TOL_W, scale_of

ID = "C01"
TITLE = "Lattice weight constraint returns kernels meeting every strict shape constraint"
RULE = ("Hypothesis draws a lattice shape (rank 1-4, sizes 2-4, <= 256 "
        "vertices; thorough rank <= 5, sizes <= 5, <= 1024), a valid constraint "
        "configuration (monotonicities, Edgeworth/trapezoid trusts of both "
        "directions with monotone or free conditional feature, matching or "
        "not, approximately enforced families alongside in about half of the "
        "cases, one/two-sided bounds, iterations in {0,1,2,5,10,20}), units "
        "1-3, an entry point (LatticeConstraints strict, Lattice layer "
        "constraint, Lattice.finalize_constraints() in strict and non-strict "
        "mode, lattice_lib.finalize_constraints) and a kernel (random mixture, "
        "certified-feasible, feasible plus one injected violation). The "
        "returned kernel is measured per unit by the float64 constraint rows. "
        "Non-trivial: some strict family is configured and the input violates "
        "one of them by > 10x tolerance, or the case is a non-constant "
        "feasible kernel (unchanged clause); distinct by SHA-1 of the case.")
NT_FLOOR = 0.5
BUDGET = {"quick": 450, "thorough": 5000}
TECHNIQUE = ("property-based testing (Hypothesis): generated configurations and "
             "kernels against float64 constraint-row oracle; certified "
             "NNLS-feasible kernels for the unchanged clause")
LEVEL_TEXT = ("Generated-input exploration of the strict weight constraint over "
              "random valid configurations x kernels x entry points; every "
              "monotonicity, Edgeworth, trapezoid and bound inequality of the "
              "result is evaluated per unit in float64; feasible kernels "
              "(certified by KKT) must come back unchanged. Catches ordering, "
              "direction, axis and clipping mistakes in finalize_constraints "
              "and in the wiring of the layer; cannot show absence.")
LEVEL_NOTE = ("Tolerance 2e-5*S with S=max(1,|result|,|bounds|) for "
              "inequalities, S incl. input for the unchanged clause. Shapes "
              "bounded as stated in the rule. Documented exemption (several "
              "trapezoid trusts sharing a conditional feature with Edgeworth "
              "present) is not judged. Known finding F-C01-1 is matched by "
              "signature.")

ENTRIES = ["constraint", "constraint", "layer_constraint", "layer_finalize",
           "layer_finalize_nonstrict", "lib_finalize"]
STRICT = ("mono", "ew", "tz")


@st.composite
def _case(draw, tier):
  big = tier == "thorough"
  sizes = draw(S.lattice_sizes(max_rank=5 if big else 4,
                               max_size=5 if big else 4,
                               max_weights=1024 if big else 256))
  approx = draw(st.booleans())
  cfg = draw(S.lattice_config(sizes, approx=approx))
  units = draw(st.sampled_from([1, 1, 2, 3]))
  n = int(np.prod(sizes))
  return {
      "cfg": cfg, "units": units,
      "iters": draw(st.sampled_from([0, 1, 2, 5, 10, 20])),
      "entry": draw(st.sampled_from(ENTRIES)),
      "kmode": draw(st.sampled_from(["raw", "raw", "feasible",
                                     "feasible+viol"])),
      "kernel": draw(S.array_desc(shape=(n, units))),
      "aux": draw(S.seeds),
  }


def strategy(tier):
  return _case(tier)


def exempt_tz(cfg):
  """Documented exemption: >= 2 trapezoid trusts share a conditional feature
  while Edgeworth trusts are present."""
  if not cfg["ew"]:
    return False
  conds = [tuple(t)[1] for t in set(tuple(t) for t in cfg["tz"])]
  return len(conds) != len(set(conds))


def feasible_kernel(cfg, raw, aux, families=None):
  """Certified feasible float32 kernel derived from `raw` (n, units).

  The raw kernel (optionally plus a monotone trend) is mapped affinely into the
  configured bounds and then projected onto {configured cone} x {bounds} by the
  KKT-certified reference projection (feasibility error <= 1e-8 * S).
  """
  rs = np.random.RandomState(aux)
  n, units = raw.shape
  sizes = cfg["sizes"]
  grid = np.indices(sizes).reshape(len(sizes), -1).astype(np.float64)
  lo, hi = cfg.get("omin"), cfg.get("omax")
  out = np.zeros((n, units), np.float64)
  for u in range(units):
    sc = max(1e-30, float(np.max(np.abs(raw[:, u]))))
    trend = sum(cfg["mono"][d] * rs.uniform(0, 1.5) * grid[d]
                for d in range(len(sizes)))
    w0 = raw[:, u].astype(np.float64) + sc * trend * rs.choice([0.0, 1.0])
    mn, mx = float(w0.min()), float(w0.max())
    if lo is not None and hi is not None:
      a, b = sorted(rs.uniform(-0.2, 1.2, size=2))
      if mx > mn:
        w0 = (w0 - mn) / (mx - mn) * (b - a) * (hi - lo) + lo + a * (hi - lo)
      else:
        w0 = np.full_like(w0, lo + min(1.0, max(0.0, a)) * (hi - lo))
    elif lo is not None:
      w0 = w0 + (lo - mn) + rs.uniform(-0.3, 1.0) * max(mx - mn, 1.0)
    elif hi is not None:
      w0 = w0 - (mx - hi) - rs.uniform(-0.3, 1.0) * max(mx - mn, 1.0)
    w, info = R.lattice_nearest(cfg, w0, families, with_bounds=True)
    if not info["certified"]:
      return None
    out[:, u] = w
  k32 = out.astype(np.float32)
  # casting may push an extreme value over a bound by one ulp: clip in float32.
  if lo is not None:
    k32 = np.maximum(k32, np.float32(lo))
  if hi is not None:
    k32 = np.minimum(k32, np.float32(hi))
  return k32


def inject_violation(cfg, k32, aux):
  """Breaks one randomly chosen strict inequality in one unit."""
  rs = np.random.RandomState(aux + 1)
  rows = R.constraint_rows(cfg, STRICT)
  if not rows:
    return k32
  fam, _, r = rows[rs.randint(len(rows))]
  u = rs.randint(k32.shape[1])
  k = k32.astype(np.float64).copy()
  sc = max(1.0, float(np.max(np.abs(k))))
  idx = max(r, key=lambda i: r[i])       # a vertex with positive coefficient
  val = sum(c * k[i, u] for i, c in r.items())
  k[idx, u] -= (val + sc * rs.uniform(0.05, 1.0)) / r[idx]
  return k.astype(np.float32)


def apply_entry(case, k32):
  import tensorflow as tf
  import tensorflow_lattice as tfl
  cfg, units = case["cfg"], case["units"]
  kw = S.lattice_kwargs(cfg)
  entry = case["entry"]
  if entry == "constraint":
    c = tfl.lattice_layer.LatticeConstraints(
        num_projection_iterations=case["iters"],
        enforce_strict_monotonicity=True, **kw)
    return c(tf.constant(k32)).numpy()
  if entry == "lib_finalize":
    return tfl.lattice_lib.finalize_constraints(
        tf.constant(k32), lattice_sizes=list(cfg["sizes"]),
        monotonicities=list(cfg["mono"]),
        edgeworth_trusts=[tuple(t) for t in cfg["ew"]] or None,
        trapezoid_trusts=[tuple(t) for t in cfg["tz"]] or None,
        output_min=cfg["omin"], output_max=cfg["omax"]).numpy()
  layer = tfl.layers.Lattice(
      units=units, num_projection_iterations=case["iters"],
      monotonic_at_every_step=(entry != "layer_finalize_nonstrict"), **kw)
  d = len(cfg["sizes"])
  layer.build((None, d) if units == 1 else (None, units, d))
  layer.kernel.assign(k32)
  if entry == "layer_constraint":
    return layer.kernel.constraint(layer.kernel).numpy()
  layer.finalize_constraints()
  return layer.kernel.numpy()


def signature(cfg, fam):
  cond_mono = any(cfg["mono"][t[1]] == 1 for t in cfg["ew"] + cfg["tz"])
  tz_cond_mono = any(cfg["mono"][t[1]] == 1 for t in cfg["tz"])
  return dict(kind=fam, ew=bool(cfg["ew"]), tz=bool(cfg["tz"]),
              mono_cond=bool(cond_mono), tz_mono_cond=bool(tz_cond_mono))


def _only_along_tz_cond(cfg, w, tol):
  """True iff every violated monotonicity inequality lies along a dimension that
  is the (monotone) conditional feature of a trapezoid trust - the mechanism of
  finding F-C01-1."""
  conds = set(t[1] for t in cfg["tz"] if cfg["mono"][t[1]] == 1)
  dims = set()
  for fam, tag, r in R.constraint_rows(cfg, ("mono",)):
    if -sum(c * w[k] for k, c in r.items()) > tol:
      dims.add(tag[0])
  return bool(dims) and dims <= conds


def run_case(case):
  out = Outcome()
  cfg, units = case["cfg"], case["units"]
  n = int(np.prod(cfg["sizes"]))
  raw = S.materialize(case["kernel"], (n, units))
  kmode = case["kmode"]
  strict_fams = any(cfg["mono"]) or bool(cfg["ew"]) or bool(cfg["tz"])
  has_bounds = cfg["omin"] is not None or cfg["omax"] is not None
  k32 = raw
  feasible = False
  if kmode != "raw":
    fk = feasible_kernel(cfg, raw, case["aux"])
    if fk is None:
      out.discard = "uncertified-feasible-kernel"
      return out
    k32 = fk
    feasible = True
    if kmode == "feasible+viol":
      k32 = inject_violation(cfg, fk, case["aux"])
      feasible = bool(np.array_equal(k32, fk))
  out.label("entry:" + case["entry"], "kernel:" + kmode,
            "units:%d" % units, "rank:%d" % len(cfg["sizes"]),
            "iters:%d" % case["iters"])
  if cfg["ew"] and cfg["tz"]:
    out.label("trust:both")
  elif cfg["ew"] or cfg["tz"]:
    out.label("trust:one-kind")
  if any(cfg[f] for f in ("mdom", "rdom", "jmono", "junimod")) or any(
      cfg["unimod"]):
    out.label("approx-families-alongside")
  if has_bounds:
    out.label("bounded")

  k64 = k32.astype(np.float64)
  s_in = scale_of(k64, cfg["omin"], cfg["omax"])
  in_viol = 0.0
  for u in range(units):
    v = R.violation_by_family(cfg, k64[:, u], STRICT)
    in_viol = max([in_viol] + [v.get(f, 0.0) for f in STRICT + ("bounds",)])

  res = apply_entry(case, k32).astype(np.float64)
  out.checks += 1
  if res.shape != (n, units) or not np.all(np.isfinite(res)):
    out.violate("result has shape %s / non-finite values" % (res.shape,),
                **signature(cfg, "finite"))
    return out
  s_out = scale_of(res, cfg["omin"], cfg["omax"])
  if case["entry"].startswith("layer_finalize"):
    # Lattice.finalize_constraints() computes kernel + (projected - kernel) in
    # float32, so its rounding error scales with the kernel it started from.
    s_out = max(s_out, s_in)
  tol = TOL_W * s_out
  lib_entry = case["entry"] == "lib_finalize"
  judged = list(STRICT)
  skip_tz = exempt_tz(cfg)
  worst = 0.0
  for u in range(units):
    v = R.violation_by_family(cfg, res[:, u], STRICT)
    for fam in judged:
      if fam not in v:
        continue
      if fam == "tz" and skip_tz:
        out.label("exempt:shared-cond-trapezoid")
        continue
      out.checks += 1
      worst = max(worst, v[fam] / s_out)
      if v[fam] > tol:
        sg = signature(cfg, fam)
        if fam == "mono":
          sg["along_tz_mono_cond"] = _only_along_tz_cond(cfg, res[:, u], tol)
        out.violate("%s violated by %.3g (tolerance %.3g) in unit %d via %s" %
                    (fam, v[fam], tol, u, case["entry"]), **sg)
    if "bounds" in v and not (lib_entry and not (cfg["ew"] or cfg["tz"])) and (
        not lib_entry or any(cfg["mono"])):
      out.checks += 1
      worst = max(worst, v["bounds"] / s_out)
      if v["bounds"] > tol:
        out.violate("bounds violated by %.3g (tolerance %.3g) in unit %d via %s"
                    % (v["bounds"], tol, u, case["entry"]),
                    **signature(cfg, "bounds"))
  out.info["worst_violation_over_S"] = worst
  if feasible:
    moved = float(np.max(np.abs(res - k64)))
    out.checks += 1
    out.info["moved_over_S"] = moved / s_in
    if moved > TOL_W * s_in:
      out.violate("feasible kernel moved by %.3g (tolerance %.3g) via %s" %
                  (moved, TOL_W * s_in, case["entry"]),
                  **signature(cfg, "unchanged"))
    out.nontrivial = bool(np.ptp(k64) > 0)
  else:
    out.nontrivial = bool((strict_fams or has_bounds) and
                          in_viol > 10 * TOL_W * s_in)
  return out
