"""C19 - gradients delivered to training equal the true derivatives."""
import itertools

import numpy as np
from hypothesis import strategies as st

from vlib import oracles as R
from vlib import strategies as S
from vlib.harness import HarnessError, Outcome, TOL_F, _lattice_frame

ID = "C19"
TITLE = ("Gradients delivered to training equal the true derivatives of layer "
         "functions")
RULE = ("Hypothesis draws one of five case kinds. prod: a tensor of rank 1-4 "
        "(axis lengths 1-4, thorough 1-6), a reduction axis (positive or "
        "negative spelling), non-zero values from five magnitude families "
        "(incl. 'tiny': 1e-6..1e-4 entries - small but not zero - among "
        "entries of 10..1000) and "
        "a deliberate pattern of exact zeros (none / exactly one / exactly two "
        "/ several / all per reduced slice, a different count per slice, or an "
        "explicit Hypothesis-drawn mask for tensors of <= 24 entries; +0.0 or "
        "-0.0) and an upstream gradient; the gradient of "
        "custom_reduce_prod is compared with the float64 product of the other "
        "entries and with autodiff of tf.reduce_prod. kfl: a "
        "KroneckerFactoredLattice (size 2-4, units 1-3, terms 1-3, dims 1-4, "
        "clip on/off, tensor or list input, 0-2 extra axes) with exact "
        "zeros in the kernel and inputs on vertices / interior / mixed / "
        "clipped outside, so that interpolated factors contain 0, 1 or >= 2 "
        "exact zeros; gradients w.r.t. kernel, scale and (at differentiable "
        "coordinates) inputs are compared with a float64 analytic reference "
        "that is itself cross-checked against autodiff of a plain-ops float64 "
        "expression. lattice / pwl / cat: a layer, two unrelated kernels and a "
        "batch of points; the per-example Jacobian d out / d kernel is "
        "compared with float64 interpolation weights (hypercube and simplex, "
        "rank 1-4 plus rank 8-9 for the matmul branch, clipped out-of-range "
        "points on unequal-size and on all-size-2 single-tensor lattices; "
        "PWL incl. cyclic, learned keypoints, split outputs and missing "
        "values given by missing_input_value (below the keypoints / on a "
        "keypoint / inside a segment / exactly 0.0), by an is_missing tensor, "
        "by both (consistent with each other) or with the input wrapped in a "
        "one-element list; one-hot for categorical with int32 / int64 / uint8 "
        "/ float inputs and defaults that are negative, in range, the last "
        "bucket, above the range or large), must be >= 0 and sum to one for "
        "Lattice, and must be bit-identical at both kernels; for PWL the "
        "gradient w.r.t. a trained missing_output must equal the is_missing "
        "indicator. Every kind runs a share of its cases (prod 1/4, cat 1/5, "
        "pwl 1/6, kfl / lattice 1/8) through a tf.function whose batch size "
        "is unknown, and a "
        "share (prod / kfl 1/17, others 1/6) with float64 tensors / layers. "
        "Non-trivial: prod with reduced length "
        ">= 2; kfl with a non-zero reference gradient; every Jacobian case; "
        "distinct by SHA-1 of the case.")
NT_FLOOR = 0.6
BUDGET = {"quick": 300, "thorough": 4500}
ASSUMPTIONS = [
    "magnitudes are moderate (every partial product is far from float32 "
    "overflow/underflow); the product-divided-by-element shortcut is not "
    "judged on tensors whose product over- or underflows",
    "input gradients are judged only at coordinates where the layer function "
    "is differentiable (strictly inside a lattice cell, or strictly outside "
    "the clipped range)",
    "Lattice inputs outside the lattice range are generated only with "
    "clip_inputs=True (weights are documented to decay otherwise)",
    "when missing_input_value and an is_missing tensor are both supplied they "
    "agree (the documentation does not say which one wins)",
    "only the batch dimension is unknown at trace time in the tf.function "
    "cases; no Keras functional model / fit loop is built"]

# float64 tensors / layers (dtype="float64") for every kind.  The hand-written
# gradient used to hard-code float32 (F-C19-1, fixed).  One switch so the lead
# can decide.
GEN_FLOAT64 = True

KINDS = (["prod"] * 7 + ["kfl"] * 7 + ["lattice"] * 4 + ["pwl"] * 4 +
         ["cat"] * 3)
# one case in GRAPH_ONE_IN[kind] runs the forward pass inside a tf.function
# whose batch size is unknown (None) at trace time, as Keras fit does (tracing
# the forward and backward graphs costs 0.1-0.5 s, hence the modest shares).
GRAPH_ONE_IN = {"prod": 4, "kfl": 8, "lattice": 8, "pwl": 6, "cat": 5}
# gradient of the PWL output w.r.t. the trained missing_output weight (must be
# the is_missing indicator); a true derivative of the layer function, although
# the statement names the kernel only.
JUDGE_MISSING_OUTPUT = True
ZERO_MODES = ["none", "one", "one", "two", "many", "all", "mixed", "mixed",
              "mask", "mask"]


# --------------------------------------------------------------------------
# strategies
@st.composite
def _prod_case(draw, tier):
  big = tier == "thorough"
  rank = draw(st.integers(1, 4))
  shape = [draw(st.integers(1, 6 if big else 4)) for _ in range(rank)]
  axis = draw(st.integers(-rank, rank - 1))
  # favour a reduced length >= 2 (length 1 stays as a rare corner case)
  if shape[axis] == 1 and draw(st.integers(0, 4)) > 0:
    shape[axis] = draw(st.integers(2, 6 if big else 4))
  zero_mode = draw(st.sampled_from(ZERO_MODES))
  size = int(np.prod(shape))
  mask = None
  if zero_mode == "mask":
    if size <= 24:
      mask = draw(st.lists(st.booleans(), min_size=size, max_size=size))
    else:
      zero_mode = "mixed"
  return {"kind": "prod", "shape": shape, "axis": axis,
          "vals": draw(st.sampled_from(["unit", "ints", "wide", "ones",
                                        "tiny"])),
          "zero_mode": zero_mode, "mask": mask,
          "negzero": draw(st.integers(0, 3)) == 0,
          "dy": draw(st.sampled_from(["ones", "normal", "ints"])),
          "dtype": _dtype(draw), "graph": _graph(draw, "prod"),
          "aux": draw(S.seeds)}


def _graph(draw, kind):
  return draw(st.integers(0, GRAPH_ONE_IN[kind] - 1)) == 0


def _dtype(draw, one_in=17):
  if not GEN_FLOAT64:
    return "float32"
  if one_in != 17:
    return "float64" if draw(st.integers(0, one_in - 1)) == 0 else "float32"
  return draw(st.sampled_from(["float32"] * 8 + ["float64"] + ["float32"] * 8))


@st.composite
def _kfl_case(draw, tier):
  big = tier == "thorough"
  clip = draw(st.booleans())
  xmodes = ["vertices", "vertices", "interior", "mixed", "mixed"]
  if clip:
    xmodes.append("outside")
  return {"kind": "kfl", "size": draw(st.sampled_from([2, 2, 3, 4])),
          "units": draw(st.sampled_from([1, 1, 2, 3])),
          "terms": draw(st.integers(1, 3)),
          "dims": draw(st.integers(1, 6 if big else 4)),
          "clip": clip,
          "rows": draw(st.sampled_from([None, None, None, None, 1, 2, [2, 1],
                                        [1, 2]])),
          "as_list": draw(st.integers(0, 3)) == 0,
          "batch": draw(st.integers(1, 6 if big else 4)),
          "kzero": draw(st.sampled_from([0.0, 0.25, 0.5, 0.75])),
          "kmode": draw(st.sampled_from(["normal", "ints", "pos"])),
          "smode": draw(st.sampled_from(["normal", "normal", "ints", "ones"])),
          "xmode": draw(st.sampled_from(xmodes)),
          "dy": draw(st.sampled_from(["ones", "normal", "ints"])),
          "dtype": _dtype(draw), "graph": _graph(draw, "kfl"),
          "aux": draw(S.seeds)}


@st.composite
def _lattice_case(draw, tier):
  big = tier == "thorough"
  sizes = draw(S.lattice_sizes(max_rank=5 if big else 4,
                               max_size=5 if big else 4,
                               max_weights=1024 if big else 144))
  units = draw(st.sampled_from([1, 1, 2, 3]))
  clip = draw(st.booleans())
  xmodes = ["interior", "vertices", "faces", "ties"]
  if clip:
    # out-of-range points are the only ones the clipping code acts on (per
    # dimension, differently for tensor and list inputs): half of the clipped
    # cases use them (seeded change S-C19-3 was missed with a 1-in-5 share).
    xmodes += ["outside"] * 4
  as_list = draw(st.integers(0, 2)) == 0
  xmode = draw(st.sampled_from(xmodes))
  rows = draw(st.sampled_from([None, None, 1, 2]))
  batch = draw(st.integers(1, 2))
  focus = draw(st.sampled_from(["none"] * 8 + ["unequal"] * 4 + ["all2"] * 4 +
                               ["rank8"] * 4))
  if focus in ("unequal", "all2"):
    # clipping focus: clipped out-of-range points.  "unequal": a lattice whose
    # sizes are not all equal, tensor and list inputs alike - the per-dimension
    # clip bounds are the only place where sizes, input format and
    # out-of-range points interact.  "all2": the all-size-2 single-tensor
    # branches (hypercube: clips the weights, not the inputs; simplex: no
    # lower-corner offset), which otherwise hardly see out-of-range points.
    clip, xmode, as_list = True, "outside", draw(st.booleans())
    sizes = list(sizes)
    if focus == "all2":
      sizes, as_list = [2] * max(2, len(sizes)), False
    elif len(sizes) > 1 and len(set(sizes)) == 1:
      j = draw(st.integers(0, len(sizes) - 1))
      sizes[j] += 1
  if focus == "rank8":
    # rank 8-9: the tf.matmul branch of batch_outer_operation (one example,
    # one unit; 256-512 weights, 384 with one size-3 dimension).
    sizes = [2] * draw(st.sampled_from([8, 8, 9]))
    if len(sizes) == 8 and draw(st.integers(0, 2)) == 0:
      sizes[draw(st.integers(0, 7))] = 3
    units, rows, batch = 1, None, 1
  n = int(np.prod(sizes))
  return {"kind": "lattice", "sizes": sizes, "units": units,
          # the matmul branch belongs to hypercube interpolation only
          "interp": draw(st.sampled_from(
              ["hypercube", "hypercube", "hypercube", "simplex"]
              if focus == "rank8" else ["hypercube", "simplex"])),
          "clip": clip, "rows": rows,
          "as_list": as_list,
          "batch": batch,
          "dtype": _dtype(draw, 6), "graph": _graph(draw, "lattice"),
          "xmode": xmode,
          "kernel": draw(S.array_desc(shape=(n, units))),
          "kernel2": draw(S.array_desc(shape=(n, units))),
          "aux": draw(S.seeds)}


@st.composite
def _pwl_case(draw, tier):
  big = tier == "thorough"
  n = draw(st.integers(2, 12 if big else 8))
  learned = draw(st.integers(0, 3)) == 0
  start = draw(st.sampled_from([0.0, 0.0, -1.0, 1.0, -1000.0, 250.0, 0.125]))
  if learned:
    gaps = [draw(st.sampled_from([0.5, 1.0, 2.0])) for _ in range(n - 1)]
  else:
    gaps = [draw(st.sampled_from([0.01, 0.25, 1.0, 1.0, 3.0, 100.0]))
            for _ in range(n - 1)]
  kp = S.f32(np.cumsum([start] + gaps))
  units = draw(st.sampled_from([1, 1, 2, 3]))
  missing = draw(st.sampled_from([None, None, None, "both", "value", "value",
                                  "tensor", "tensor", "both"]))
  return {"kind": "pwl", "kp": kp, "units": units,
          # where missing_input_value lies: below the keypoints, on a keypoint,
          # strictly inside a segment, or exactly 0.0
          "miss_at": draw(st.sampled_from(["below", "keypoint", "keypoint",
                                           "interior", "zero", "zero"])),
          "miss_idx": draw(st.integers(0, n - 2)),
          # [x] instead of x (accepted when impute_missing is on)
          "list1": missing == "value" and draw(st.booleans()),
          "dtype": _dtype(draw, 6), "graph": _graph(draw, "pwl"),
          "wide_input": draw(st.booleans()),
          # a cyclic calibrator needs >= 3 keypoints (>= 2 stored weights)
          "cyclic": n >= 3 and draw(st.sampled_from([False, True, False])),
          "missing": missing,
          "missing_out": (draw(st.sampled_from([None, 0.5]))
                          if missing else None),
          "learned": learned,
          "set_logits": learned and draw(st.booleans()),
          "split": draw(st.booleans()),
          "batch": draw(st.integers(1, 4)),
          "xmode": draw(st.sampled_from(["interior", "keypoints", "outside",
                                         "mixed"])),
          "kernel": draw(S.array_desc(shape=(n, units))),
          "kernel2": draw(S.array_desc(shape=(n, units))),
          "aux": draw(S.seeds)}


@st.composite
def _cat_case(draw, tier):
  buckets = draw(st.integers(2, 8))
  units = draw(st.sampled_from([1, 1, 2, 3]))
  return {"kind": "cat", "buckets": buckets, "units": units,
          "wide_input": draw(st.booleans()),
          "default": draw(st.sampled_from([None, None, -1, -1, buckets + 3, 0,
                                           buckets - 1, buckets - 1, 1000])),
          "in_dtype": draw(st.sampled_from(["int32", "float32", "int64",
                                            "uint8"])),
          "dtype": _dtype(draw, 6), "graph": _graph(draw, "cat"),
          "split": draw(st.booleans()),
          "batch": draw(st.integers(1, 5)),
          "kernel": draw(S.array_desc(shape=(buckets, units))),
          "kernel2": draw(S.array_desc(shape=(buckets, units))),
          "aux": draw(S.seeds)}


@st.composite
def _case(draw, tier):
  kind = draw(st.sampled_from(KINDS))
  return draw({"prod": _prod_case, "kfl": _kfl_case, "lattice": _lattice_case,
               "pwl": _pwl_case, "cat": _cat_case}[kind](tier))


def strategy(tier):
  return _case(tier)


# --------------------------------------------------------------------------
# helpers
def _tf():
  import tensorflow as tf
  return tf


def _upstream(mode, rs, shape):
  if mode == "ones":
    return np.ones(shape, np.float32)
  if mode == "ints":
    return rs.randint(-2, 3, size=shape).astype(np.float32)
  return rs.uniform(-1, 1, size=shape).astype(np.float32)


def _forward(tf, case, fn, tensors, as_list):
  """Zero-argument forward pass: fn(list(tensors)) if as_list else
  fn(tensors[0]).  With case["graph"] the call goes through a tf.function whose
  input signature leaves the batch size unknown."""
  pack = (lambda a: list(a)) if as_list else (lambda a: a[0])
  if not case.get("graph"):
    return lambda: fn(pack(tensors))
  specs = [tf.TensorSpec([None] + [int(v) for v in t.shape[1:]], t.dtype)
           for t in tensors]
  g = tf.function(lambda *a: fn(pack(a)), input_signature=specs,
                  autograph=False)
  return lambda: g(*tensors)


def _np_dtype(case):
  return np.float64 if case.get("dtype") == "float64" else np.float32


def _compare(out, got, ref, clause, **sig):
  """|got - ref| <= TOL_F * max(1, |ref|) element-wise; returns True if ok."""
  out.checks += 1
  got = np.asarray(got, np.float64)
  ref = np.asarray(ref, np.float64)
  if got.shape != ref.shape:
    out.violate("%s: gradient shape %s, expected %s" % (clause, got.shape,
                                                        ref.shape),
                kind=clause, what="shape", **sig)
    return False
  tol = TOL_F * np.maximum(1.0, np.abs(ref))
  err = np.abs(got - ref)
  bad = ~np.isfinite(got) | (err > tol)
  if got.size:
    ratio = np.where(np.isfinite(got), err / tol, np.inf)
    key = "max_err_over_tol:" + clause
    out.info[key] = max(out.info.get(key, 0.0), float(np.max(ratio)))
  if np.any(bad):
    i = tuple(int(v) for v in np.argwhere(bad)[0])
    out.violate("%s: gradient %r differs from true derivative %r at index %s "
                "(%d of %d entries wrong)" % (clause, float(got[i]),
                                              float(ref[i]), i, int(bad.sum()),
                                              bad.size),
                kind=clause, what="value", **sig)
    return False
  return True


def _dense(tf, g, like):
  if g is None:
    return np.zeros(like.shape, np.float64)
  return tf.convert_to_tensor(g).numpy().astype(np.float64)


def _jacobian(tf, fn, var):
  """Rows d out_k / d var for every scalar output k of fn() (flattened)."""
  with tf.GradientTape(persistent=True) as tape:
    y = fn()
    if isinstance(y, (list, tuple)):
      y = tf.concat(y, axis=1)
    flat = tf.reshape(y, [-1])
    comps = [flat[i] for i in range(int(flat.shape[0]))]
  rows = [_dense(tf, tape.gradient(c, var), var) for c in comps]
  del tape
  return np.stack(rows), tuple(int(s) for s in y.shape)


# --------------------------------------------------------------------------
# prod
def _prod_tensor(case):
  rs = np.random.RandomState(case["aux"])
  shape = tuple(case["shape"])
  rank = len(shape)
  ax = case["axis"] % rank
  vals = case["vals"]
  if vals == "unit":
    a = rs.uniform(0.5, 2.0, size=shape)
  elif vals == "ints":
    a = rs.randint(1, 4, size=shape).astype(np.float64)
  elif vals == "wide":
    a = 10.0 ** rs.uniform(-2, 2, size=shape)
  elif vals == "tiny":
    # 1e-6..1e-4 entries (one or two per reduced slice) among entries of
    # 10..1000: tiny but NOT zero, and the other partial products are large
    # enough for a "treated as zero" mistake to exceed the tolerance.
    a = 10.0 ** rs.uniform(1, 3, size=shape)
    am = np.moveaxis(a, ax, -1)            # view
    for idx in np.ndindex(am.shape[:-1]):
      for j in rs.permutation(shape[ax])[:rs.randint(1, 3)]:
        am[idx + (j,)] = 10.0 ** rs.uniform(-6, -4)
  else:
    a = np.ones(shape)
  a = a * rs.choice([-1.0, 1.0], size=shape)
  length = shape[ax]
  moved = np.moveaxis(np.zeros(shape, bool), ax, -1)
  zmask = moved.reshape(-1, length).copy()
  mode = case["zero_mode"]
  if mode == "mask":
    zmask = np.moveaxis(np.asarray(case["mask"], bool).reshape(shape), ax,
                        -1).reshape(-1, length).copy()
  else:
    for s in range(zmask.shape[0]):
      if mode == "none":
        k = 0
      elif mode == "one":
        k = 1
      elif mode == "two":
        k = min(2, length)
      elif mode == "many":
        k = rs.randint(min(2, length), length + 1)
      elif mode == "all":
        k = length
      else:
        k = min(length, rs.choice([0, 0, 1, 1, 2, 3, length]))
      zmask[s, rs.permutation(length)[:k]] = True
  zm = np.moveaxis(zmask.reshape(moved.shape), -1, ax)
  zero = -0.0 if case["negzero"] else 0.0
  a = np.where(zm, zero, a).astype(np.float32)
  dy_shape = shape[:ax] + shape[ax + 1:]
  dy = _upstream(case["dy"], rs, dy_shape)
  return a, dy, ax, zmask.sum(1)


def _prod_ref(a, dy, ax):
  """float64: dy * product of all OTHER entries along ax."""
  a = np.asarray(a, np.float64)
  length = a.shape[ax]
  m = np.moveaxis(a, ax, -1)
  others = np.empty_like(m)
  for i in range(length):
    others[..., i] = np.prod(np.delete(m, i, axis=-1), axis=-1)
  g = others * np.asarray(dy, np.float64)[..., None]
  return np.moveaxis(g, -1, ax)


def _run_prod(case, out):
  tf = _tf()
  from tensorflow_lattice.python import kronecker_factored_lattice_lib as kfl
  a, dy, ax, zcount = _prod_tensor(case)
  dtype = case["dtype"]
  rank = a.ndim
  length = a.shape[ax]
  out.label("prod", "prod:rank=%d" % rank,
            "prod:axis=%s" % ("only" if rank == 1 else "first" if ax == 0 else
                              "last" if ax == rank - 1 else "middle"),
            "prod:axis-spelling=%s" % ("negative" if case["axis"] < 0 else
                                       "positive"),
            "prod:zero_mode=" + case["zero_mode"], "prod:dtype=" + dtype,
            "prod:vals=" + case["vals"])
  if case.get("graph"):
    out.label("prod:graph-none-batch")
  if length == 1:
    out.label("prod:reduced-length=1")
  for name, sel in (("0", zcount == 0), ("1", zcount == 1),
                    (">=2", zcount >= 2)):
    if np.any(sel):
      out.label("prod:slice-zeros=" + name)
  if np.any(zcount == length):
    out.label("prod:slice-all-zero")
  if case["negzero"] and zcount.sum():
    out.label("prod:negative-zero")
  out.nontrivial = length >= 2
  sig = dict(dtype=dtype)
  t = tf.constant(a, dtype=dtype)
  dyt = tf.constant(dy, dtype=dtype)
  fwd = _forward(tf, case,
                 lambda v: kfl.custom_reduce_prod(v, axis=case["axis"]), [t],
                 False)
  try:
    with tf.GradientTape() as tape:
      tape.watch(t)
      y = fwd()
    g = tape.gradient(y, t, output_gradients=dyt)
  except Exception as e:  # pylint: disable=broad-except
    where = _lattice_frame(e.__traceback__)
    if dtype == "float32" or where is None:
      raise
    out.checks += 1
    out.violate("%s in the gradient of custom_reduce_prod on a %s tensor: %s" %
                (type(e).__name__, dtype, str(e)[:200]), kind="exception",
                where=where, dtype=dtype)
    return
  ref = _prod_ref(a, dy, ax)
  zc = ("multi" if np.any(zcount >= 2) else "one" if np.any(zcount == 1)
        else "none")
  if not _compare(out, g.numpy(), ref, "prod-grad", zeros=zc, **sig):
    return
  # autodiff of the plain product (float64)
  t64 = tf.constant(a.astype(np.float64))
  with tf.GradientTape() as tape:
    tape.watch(t64)
    y64 = tf.reduce_prod(t64, axis=case["axis"])
  g64 = tape.gradient(y64, t64,
                      output_gradients=tf.constant(dy.astype(np.float64)))
  _compare(out, g.numpy(), g64.numpy(), "prod-grad-vs-autodiff", zeros=zc,
           **sig)


# --------------------------------------------------------------------------
# kfl
def _rows(case):
  """Sizes of the extra axes between batch and (units,) dims."""
  r = case.get("rows")
  if not r:
    return []
  return [int(v) for v in r] if isinstance(r, (list, tuple)) else [int(r)]


def _kfl_data(case):
  rs = np.random.RandomState(case["aux"])
  size, units, terms, dims = (case["size"], case["units"], case["terms"],
                              case["dims"])
  kshape = (1, size, units * dims, terms)
  if case["kmode"] == "normal":
    k = rs.normal(size=kshape)
  elif case["kmode"] == "ints":
    k = rs.randint(-2, 3, size=kshape).astype(np.float64)
  else:
    k = rs.uniform(0.5, 1.5, size=kshape)
  k = np.clip(k, -2.5, 2.5)
  k = np.where(rs.uniform(size=kshape) < case["kzero"], 0.0, k)
  if case["smode"] == "normal":
    s = rs.normal(size=(units, terms))
  elif case["smode"] == "ints":
    s = rs.randint(-2, 3, size=(units, terms)).astype(np.float64)
  else:
    s = np.ones((units, terms)) * rs.choice([-1.0, 1.0], size=(units, terms))
  s = np.clip(s, -2.5, 2.5)
  b = rs.normal(size=(units,))
  lead = [case["batch"]] + _rows(case)
  xshape = tuple(lead + ([units] if units > 1 else []) + [dims])
  vert = rs.randint(0, size, size=xshape).astype(np.float64)
  inter = rs.randint(0, size - 1, size=xshape) + rs.uniform(0.1, 0.9,
                                                            size=xshape)
  xm = case["xmode"]
  if xm == "vertices":
    x = vert
  elif xm == "interior":
    x = inter
  else:
    x = np.where(rs.uniform(size=xshape) < 0.5, vert, inter)
    if xm == "outside":
      pick = rs.randint(0, 4, size=xshape)
      x = np.where(pick == 0, -0.25 - 2 * rs.uniform(size=xshape), x)
      x = np.where(pick == 1, size - 1 + 0.25 + 2 * rs.uniform(size=xshape), x)
  x = x.astype(np.float32)
  oshape = tuple(lead + [units])
  dy = _upstream(case["dy"], rs, oshape)
  return (k.astype(np.float32), s.astype(np.float32), b.astype(np.float32), x,
          dy)


def _kfl_reference(case, k, s, x, dy):
  """float64 analytic gradients of
       f = b + (1/T) sum_t s_t prod_d PLF(x_d; w_d)   (class docstring)
  w.r.t. kernel, scale and inputs for upstream gradient dy."""
  size, units, terms, dims = (case["size"], case["units"], case["terms"],
                              case["dims"])
  kk = np.asarray(k, np.float64).reshape(size, units, dims, terms)
  ss = np.asarray(s, np.float64)
  xx = np.asarray(x, np.float64).reshape(-1, units, dims)
  dd = np.asarray(dy, np.float64).reshape(-1, units)
  xc = np.clip(xx, 0.0, size - 1.0) if case["clip"] else xx
  verts = np.arange(size, dtype=np.float64)
  w = np.maximum(0.0, 1.0 - np.abs(xc[..., None] - verts))      # n,u,d,i
  p = np.einsum("nudi,iudt->nudt", w, kk)
  others = np.empty_like(p)
  for d in range(dims):
    others[:, :, d, :] = np.prod(np.delete(p, d, axis=2), axis=2)
  full = np.prod(p, axis=2)                                      # n,u,t
  g_scale = np.einsum("nu,nut->ut", dd, full) / terms
  g_kernel = np.einsum("nu,ut,nudi,nudt->iudt", dd, ss, w, others) / terms
  lo = np.minimum(np.floor(xc).astype(int), size - 2)
  lo = np.maximum(lo, 0)
  n_idx, u_idx, d_idx = np.indices(lo.shape)
  slope = kk[lo + 1, u_idx, d_idx, :] - kk[lo, u_idx, d_idx, :]   # n,u,d,t
  inside = (xx > 0) & (xx < size - 1)
  nonint = xx != np.round(xx)
  slope = np.where((inside & nonint)[..., None], slope, 0.0)
  g_x = np.einsum("nu,ut,nudt,nudt->nud", dd, ss, slope, others) / terms
  strictly_out = (xx < 0) | (xx > size - 1)
  diff = (inside & nonint) | (strictly_out if case["clip"] else False)
  nzero = (p == 0).sum(axis=2)                                   # n,u,t
  return g_kernel, g_scale, g_x, diff, nzero


def _kfl_autodiff(tf, case, k, s, b, x, dy):
  """Plain-ops float64 expression differentiated by TensorFlow autodiff."""
  size, units, terms, dims = (case["size"], case["units"], case["terms"],
                              case["dims"])
  kk = tf.constant(np.asarray(k, np.float64).reshape(size, units, dims, terms))
  ss = tf.constant(np.asarray(s, np.float64))
  xx = tf.constant(np.asarray(x, np.float64).reshape(-1, units, dims))
  dd = tf.constant(np.asarray(dy, np.float64).reshape(-1, units))
  with tf.GradientTape() as tape:
    tape.watch([kk, ss, xx])
    xc = tf.clip_by_value(xx, 0.0, size - 1.0) if case["clip"] else xx
    verts = tf.constant(np.arange(size, dtype=np.float64))
    w = tf.maximum(tf.constant(0.0, tf.float64),
                   1.0 - tf.abs(xc[..., None] - verts))
    p = tf.einsum("nudi,iudt->nudt", w, kk)
    f = tf.constant(np.asarray(b, np.float64)) + tf.reduce_mean(
        ss[None] * tf.reduce_prod(p, axis=2), axis=-1)
  return [g.numpy() for g in tape.gradient(f, [kk, ss, xx],
                                           output_gradients=dd)]


def _run_kfl(case, out):
  tf = _tf()
  import tensorflow_lattice as tfl
  size, units, terms, dims = (case["size"], case["units"], case["terms"],
                              case["dims"])
  dtype = case["dtype"]
  k, s, b, x, dy = _kfl_data(case)
  gk_ref, gs_ref, gx_ref, diff, nzero = _kfl_reference(case, k, s, x, dy)
  # oracle self-check against autodiff of the plain expression
  ak, as_, ax_ = _kfl_autodiff(tf, case, k, s, b, x, dy)
  for name, mine, auto in (("kernel", gk_ref, ak), ("scale", gs_ref, as_),
                           ("inputs", np.where(diff, gx_ref, 0.0),
                            np.where(diff, ax_, 0.0))):
    if np.max(np.abs(mine - auto), initial=0.0) > 1e-9 * max(
        1.0, np.max(np.abs(auto), initial=0.0)):
      raise HarnessError("C19 kfl oracle disagrees with plain-ops autodiff on "
                         "%s gradient" % name)
  out.label("kfl", "kfl:x=" + case["xmode"], "kfl:size=%d" % size,
            "kfl:units>1" if units > 1 else "kfl:units=1",
            "kfl:terms=%d" % terms, "kfl:dims=%d" % dims,
            "kfl:clip" if case["clip"] else "kfl:noclip",
            "kfl:list-input" if case["as_list"] else "kfl:tensor-input",
            "kfl:dtype=" + dtype)
  if case["rows"]:
    out.label("kfl:extra-axis")
    if len(_rows(case)) > 1:
      out.label("kfl:two-extra-axes")
  if case.get("graph"):
    out.label("kfl:graph-none-batch")
  for name, sel in (("0", nzero == 0), ("1", nzero == 1), (">=2", nzero >= 2)):
    if np.any(sel):
      out.label("kfl:factor-zeros=" + name)
  if np.any(diff):
    out.label("kfl:input-grad-judged")
  out.nontrivial = bool(np.any(gk_ref != 0) or np.any(gs_ref != 0))
  zc = ("multi" if np.any(nzero >= 2) else "one" if np.any(nzero == 1)
        else "none")
  sig = dict(dtype=dtype, zeros=zc)

  layer = tfl.layers.KroneckerFactoredLattice(
      lattice_sizes=size, units=units, num_terms=terms,
      clip_inputs=case["clip"], dtype=dtype)
  xt = tf.constant(x, dtype=dtype)
  if case["as_list"]:
    xs = [xt[..., d:d + 1] for d in range(dims)]
  else:
    xs = [xt]
  inp = xs if case["as_list"] else xs[0]
  layer(inp)                                 # builds the variables
  layer.kernel.assign(k.astype(dtype))
  layer.scale.assign(s.astype(dtype))
  layer.bias.assign(b.astype(dtype))
  fwd = _forward(tf, case, layer, xs, case["as_list"])
  try:
    with tf.GradientTape() as tape:
      tape.watch(xs)
      y = fwd()
    grads = tape.gradient(y, [layer.kernel, layer.scale] + xs,
                          output_gradients=tf.constant(dy, dtype=dtype))
  except Exception as e:  # pylint: disable=broad-except
    where = _lattice_frame(e.__traceback__)
    if dtype == "float32" or where is None:
      raise
    out.checks += 1
    out.violate("%s in the gradient of a %s KroneckerFactoredLattice: %s" %
                (type(e).__name__, dtype, str(e)[:200]), kind="exception",
                where=where, dtype=dtype)
    return
  out.checks += 1
  if tuple(y.shape) != dy.shape:
    out.violate("output shape %s, expected %s" % (tuple(y.shape), dy.shape),
                kind="kfl-shape", **sig)
    return
  gk = _dense(tf, grads[0], layer.kernel).reshape(size, units, dims, terms)
  gs = _dense(tf, grads[1], layer.scale)
  gx = [_dense(tf, g, t) for g, t in zip(grads[2:], xs)]
  gx = (np.concatenate(gx, axis=-1) if case["as_list"] else gx[0]).reshape(
      -1, units, dims)
  _compare(out, gk, gk_ref, "kfl-kernel-grad", **sig)
  _compare(out, gs, gs_ref, "kfl-scale-grad", **sig)
  if np.any(diff):
    _compare(out, np.where(diff, gx, 0.0), np.where(diff, gx_ref, 0.0),
             "kfl-input-grad", **sig)


# --------------------------------------------------------------------------
# lattice
def _lattice_points(case):
  rs = np.random.RandomState(case["aux"])
  sizes = np.array(case["sizes"])
  d, units = len(sizes), case["units"]
  lead = [case["batch"]] + _rows(case)
  shape = tuple(lead + ([units] if units > 1 else []) + [d])
  vert = rs.randint(0, 1 << 30, size=shape) % sizes
  lo = rs.randint(0, 1 << 30, size=shape) % (sizes - 1)
  inter = lo + rs.uniform(0.05, 0.95, size=shape)
  xm = case["xmode"]
  if xm == "interior":
    x = inter
  elif xm == "vertices":
    x = vert.astype(np.float64)
  elif xm == "ties":
    fr = rs.choice([0.25, 0.5, 0.75, 0.3], size=shape[:-1] + (1,))
    x = lo + np.where(rs.uniform(size=shape) < 0.7, fr, inter - lo)
  else:
    x = np.where(rs.uniform(size=shape) < 0.5, vert, inter)
    if xm == "outside":
      pick = rs.randint(0, 4, size=shape)
      x = np.where(pick == 0, -0.1 - 2 * rs.uniform(size=shape), x)
      x = np.where(pick == 1, sizes - 1 + 0.1 + 2 * rs.uniform(size=shape), x)
  return x.astype(np.float32)


def hypercube_weights(p, sizes):
  """Multilinear weights of point p over all prod(sizes) vertices (C order)."""
  w = np.ones(1)
  for xd, sd in zip(p, sizes):
    xd = min(max(float(xd), 0.0), sd - 1.0)
    w1 = np.maximum(0.0, 1.0 - np.abs(xd - np.arange(sd, dtype=np.float64)))
    w = np.multiply.outer(w, w1).reshape(-1)
  return w


def simplex_weights(p, sizes):
  """Weights of the sorted-coordinate simplex inside the cell of p."""
  sizes = np.array(sizes)
  p = np.minimum(np.maximum(np.asarray(p, np.float64), 0.0), sizes - 1.0)
  lo = np.minimum(np.floor(p).astype(int), sizes - 2)
  fr = p - lo
  strides = np.ones(len(sizes), int)
  for i in range(len(sizes) - 2, -1, -1):
    strides[i] = strides[i + 1] * sizes[i + 1]
  w = np.zeros(int(np.prod(sizes)))
  idx = int(np.dot(lo, strides))
  prev = 1.0
  for j in sorted(range(len(sizes)), key=lambda j: -fr[j]):
    w[idx] += prev - fr[j]
    prev = fr[j]
    idx += strides[j]
  w[idx] += prev
  return w


def _judge_jacobian(out, tf, fn, kernel_var, k1, k2, ref, clause, lattice,
                    **sig):
  """ref: (outputs, *kernel.shape) float64."""
  npdt = kernel_var.dtype.as_numpy_dtype
  k1, k2 = np.asarray(k1).astype(npdt), np.asarray(k2).astype(npdt)
  kernel_var.assign(k1)
  j1, yshape = _jacobian(tf, fn, kernel_var)
  if not _compare(out, j1, ref, clause, **sig):
    return
  if lattice:
    out.checks += 2
    if np.any(j1 < 0):
      out.violate("%s: d out / d kernel has a negative entry %r" %
                  (clause, float(j1.min())), kind=clause, what="negative",
                  **sig)
      return
    tot = j1.reshape(j1.shape[0], -1).sum(1)
    if np.any(np.abs(tot - 1.0) > TOL_F):
      out.violate("%s: d out / d kernel sums to %r, not 1" %
                  (clause, float(tot[np.argmax(np.abs(tot - 1))])),
                  kind=clause, what="sum", **sig)
      return
  if np.array_equal(k1, k2):      # the second kernel must be a different one
    k2 = (k1.astype(np.float64) * -2.5 + 3.0).astype(npdt)
  kernel_var.assign(k2)
  j2, _ = _jacobian(tf, fn, kernel_var)
  out.checks += 1
  if not np.array_equal(j1, j2):
    out.violate("%s: d out / d kernel changes with the kernel value (max "
                "difference %r)" % (clause, float(np.max(np.abs(j1 - j2)))),
                kind=clause, what="kernel-dependent", **sig)


def _run_lattice(case, out):
  tf = _tf()
  import tensorflow_lattice as tfl
  sizes, units = list(case["sizes"]), case["units"]
  d, n = len(sizes), int(np.prod(case["sizes"]))
  x = _lattice_points(case)
  k1 = S.materialize(case["kernel"], (n, units))
  k2 = S.materialize(case["kernel2"], (n, units))
  dtype = case.get("dtype") or "float32"
  layer = tfl.layers.Lattice(lattice_sizes=sizes, units=units,
                             interpolation=case["interp"],
                             clip_inputs=case["clip"], dtype=dtype)
  xt = tf.constant(x, dtype=dtype)
  xs = [xt[..., i:i + 1] for i in range(d)] if case["as_list"] else [xt]
  layer(xs if case["as_list"] else xt)
  fwd = _forward(tf, case, layer, xs, case["as_list"])
  pts = x.astype(np.float64).reshape(-1, units, d)
  wfn = hypercube_weights if case["interp"] == "hypercube" else simplex_weights
  ref = np.zeros((pts.shape[0], units, n, units))
  for i in range(pts.shape[0]):
    for u in range(units):
      ref[i, u, :, u] = wfn(pts[i, u], sizes)
  ref = ref.reshape(-1, n, units)
  out.label("lattice", "lattice:" + case["interp"], "lattice:x=" + case["xmode"],
            "lattice:rank=%d" % d,
            "lattice:units>1" if units > 1 else "lattice:units=1",
            "lattice:all-size-2" if all(s == 2 for s in sizes) else
            "lattice:some-size>2",
            "lattice:clip" if case["clip"] else "lattice:noclip",
            "lattice:list-input" if case["as_list"] else "lattice:tensor-input",
            "lattice:dtype=" + dtype)
  if case["rows"]:
    out.label("lattice:extra-axis")
  if case.get("graph"):
    out.label("lattice:graph-none-batch")
  if d >= 8:
    out.label("lattice:rank>=8")
    if case["interp"] == "hypercube":
      out.label("lattice:matmul-branch")
  if (case["clip"] and case["xmode"] == "outside" and not case["as_list"] and
      d > 1 and all(s == 2 for s in sizes)):
    out.label("lattice:all2-tensor-clip-outside:" + case["interp"])
  out.nontrivial = True
  _judge_jacobian(out, tf, fwd, layer.kernel, k1, k2, ref,
                  "lattice-jacobian", True, interp=case["interp"])


# --------------------------------------------------------------------------
# pwl
def _run_pwl(case, out):
  tf = _tf()
  import tensorflow_lattice as tfl
  rs = np.random.RandomState(case["aux"])
  kp = np.asarray(case["kp"], np.float64)
  n, units, batch = len(kp), case["units"], case["batch"]
  cyclic, missing = case["cyclic"], case["missing"]
  width = units if (case["wide_input"] and units > 1) else 1
  dtype = case.get("dtype") or "float32"
  miss_at = case.get("miss_at") or "below"
  mi = min(case.get("miss_idx") or 0, n - 2)
  if miss_at == "keypoint":
    miss_val = float(kp[mi])
  elif miss_at == "interior":
    miss_val = float(np.float32(kp[mi] + 0.375 * (kp[mi + 1] - kp[mi])))
  elif miss_at == "zero":
    miss_val = 0.0
  else:
    miss_val = float(np.float32(kp[0] - 7.25))
  by_value = missing in ("value", "both")
  kw = {}
  if missing:
    kw["impute_missing"] = True
    if by_value:
      kw["missing_input_value"] = miss_val
    if case["missing_out"] is not None:
      kw["missing_output_value"] = case["missing_out"]
  layer = tfl.layers.PWLCalibration(
      input_keypoints=np.asarray(kp, np.float32), units=units,
      is_cyclic=cyclic, split_outputs=case["split"],
      input_keypoints_type="learned_interior" if case["learned"] else "fixed",
      dtype=dtype, **kw)
  # points
  shape = (batch, width)
  seg = rs.randint(0, n - 1, size=shape)
  inter = kp[seg] + (kp[seg + 1] - kp[seg]) * rs.uniform(0.02, 0.98, size=shape)
  atkp = kp[rs.randint(0, n, size=shape)]
  span = kp[-1] - kp[0]
  outside = np.where(rs.uniform(size=shape) < 0.5,
                     kp[0] - span * rs.uniform(0.01, 2, size=shape),
                     kp[-1] + span * rs.uniform(0.01, 2, size=shape))
  xm = case["xmode"]
  if xm == "interior":
    x = inter
  elif xm == "keypoints":
    x = atkp
  elif xm == "outside":
    x = outside
  else:
    pick = rs.randint(0, 3, size=shape)
    x = np.where(pick == 0, inter, np.where(pick == 1, atkp, outside))
  x = x.astype(np.float32)
  m = np.zeros(shape)
  if missing:
    m = (rs.uniform(size=shape) < 0.4).astype(np.float64)
    if by_value:
      # every input equal to missing_input_value is missing (also one that was
      # drawn as a regular point); with "both" the is_missing tensor says the
      # same, so the documented meaning does not depend on which one wins.
      x = np.where(m > 0, np.float32(miss_val), x).astype(np.float32)
      m = (x == np.float32(miss_val)).astype(np.float64)
  xt = tf.constant(x, dtype=dtype)
  if missing in ("tensor", "both"):
    tensors, as_list = [xt, tf.constant(m, dtype=dtype)], True
  elif case.get("list1"):
    tensors, as_list = [xt], True
  else:
    tensors, as_list = [xt], False
  layer(list(tensors) if as_list else xt)
  fwd = _forward(tf, case, layer, tensors, as_list)
  # keypoints the layer interpolates between
  if case["learned"]:
    logits = layer.interpolation_logits.numpy().astype(np.float64)
    if case["set_logits"]:
      logits = rs.uniform(-1, 1, size=logits.shape).astype(np.float32)
      layer.interpolation_logits.assign(logits)
      logits = logits.astype(np.float64)
    e = np.exp(logits - logits.max(1, keepdims=True))
    lengths = e / e.sum(1, keepdims=True) * (kp[-1] - kp[0])      # units,n-1
    left = kp[0] + np.cumsum(lengths, axis=1) - lengths
  else:
    lengths = np.tile((kp[1:] - kp[:-1])[None], (units, 1))
    left = np.tile(kp[:-1][None], (units, 1))
  nw = n - (1 if cyclic else 0)
  k1 = S.materialize(case["kernel"], (n, units))[:nw]
  k2 = S.materialize(case["kernel2"], (n, units))[:nw]
  x64 = np.broadcast_to(x.astype(np.float64), (batch, units))
  mm = np.broadcast_to(m, (batch, units))
  ref = np.zeros((batch, units, nw, units))
  for i in range(batch):
    for u in range(units):
      w = np.concatenate([[1.0], np.clip((x64[i, u] - left[u]) / lengths[u],
                                         0.0, 1.0)])
      if cyclic:       # last height is minus the sum of the other heights
        w = np.concatenate([[w[0]], w[1:-1] - w[-1]])
      ref[i, u, :, u] = (1.0 - mm[i, u]) * w
  ref = ref.reshape(-1, nw, units)
  out.label("pwl", "pwl:x=" + xm, "pwl:units>1" if units > 1 else "pwl:units=1",
            "pwl:input-width=%s" % ("units" if width > 1 else "1"),
            "pwl:cyclic" if cyclic else "pwl:not-cyclic",
            "pwl:missing=%s" % missing,
            "pwl:learned-keypoints" if case["learned"] else
            "pwl:fixed-keypoints", "pwl:dtype=" + dtype)
  if case["split"] and units > 1:
    out.label("pwl:split-outputs")
    if missing:
      out.label("pwl:split+missing")
  if by_value:
    out.label("pwl:missing-value-at=" + miss_at)
    if np.any(m > 0):
      out.label("pwl:missing-value-hit")
  if case.get("list1"):
    out.label("pwl:one-element-list-input")
  if case.get("graph"):
    out.label("pwl:graph-none-batch")
  out.nontrivial = True
  sig = dict(cyclic=cyclic, missing=bool(missing), learned=case["learned"])
  _judge_jacobian(out, tf, fwd, layer.kernel, k1, k2, ref, "pwl-jacobian",
                  False, **sig)
  if (JUDGE_MISSING_OUTPUT and missing and case["missing_out"] is None and
      not out.violations):
    # out = is_missing * missing_output + (1 - is_missing) * pwl(x)
    out.label("pwl:missing-output-grad-judged")
    jm, _ = _jacobian(tf, fwd, layer.missing_output)
    refm = np.zeros((batch, units, 1, units))
    for u in range(units):
      refm[:, u, 0, u] = mm[:, u]
    _compare(out, jm, refm.reshape(-1, 1, units), "pwl-missing-output-grad",
             **sig)


# --------------------------------------------------------------------------
# categorical
def _run_cat(case, out):
  tf = _tf()
  import tensorflow_lattice as tfl
  rs = np.random.RandomState(case["aux"])
  nb, units, batch = case["buckets"], case["units"], case["batch"]
  width = units if (case["wide_input"] and units > 1) else 1
  default = case["default"]
  dtype = case.get("dtype") or "float32"
  in_dtype = case.get("in_dtype") or (
      "int32" if case.get("int_input") else "float32")
  if in_dtype == "float32" and dtype == "float64":
    in_dtype = "float64"
  if in_dtype == "uint8" and default is not None and not 0 <= default <= 255:
    default = 200          # a default must be representable in the input dtype
  x = rs.randint(0, nb, size=(batch, width))
  if default is not None:
    x = np.where(rs.uniform(size=x.shape) < 0.4, default, x)
  layer = tfl.layers.CategoricalCalibration(
      num_buckets=nb, units=units, default_input_value=default,
      split_outputs=case["split"], dtype=dtype)
  xt = tf.constant(x.astype(in_dtype))
  layer(xt)
  fwd = _forward(tf, case, layer, [xt], False)
  idx = np.where(x == default, nb - 1, x) if default is not None else x
  idx = np.broadcast_to(idx, (batch, units))
  ref = np.zeros((batch, units, nb, units))
  for i in range(batch):
    for u in range(units):
      ref[i, u, idx[i, u], u] = 1.0
  ref = ref.reshape(-1, nb, units)
  k1 = S.materialize(case["kernel"], (nb, units))
  k2 = S.materialize(case["kernel2"], (nb, units))
  out.label("cat", "cat:units>1" if units > 1 else "cat:units=1",
            "cat:input-width=%s" % ("units" if width > 1 else "1"),
            "cat:default-value" if default is not None else "cat:no-default",
            "cat:in-dtype=" + in_dtype, "cat:dtype=" + dtype)
  if default is not None and np.any(x == default):
    out.label("cat:default-hit")
  if default is not None:
    out.label("cat:default=%s" % ("last-bucket" if default == nb - 1 else
                                  "in-range" if 0 <= default < nb else
                                  "negative" if default < 0 else
                                  "large" if default >= 200 else "above"))
  if case["split"] and units > 1:
    out.label("cat:split-outputs")
  if case.get("graph"):
    out.label("cat:graph-none-batch")
  out.nontrivial = True
  _judge_jacobian(out, tf, fwd, layer.kernel, k1, k2, ref,
                  "cat-jacobian", False, default=default is not None)


RUNNERS = {"prod": _run_prod, "kfl": _run_kfl, "lattice": _run_lattice,
           "pwl": _run_pwl, "cat": _run_cat}


def run_case(case):
  out = Outcome()
  tf = _tf()
  tf.random.set_seed(case["aux"])
  np.random.seed(case["aux"] % (2**32))
  RUNNERS[case["kind"]](case, out)
  return out


TECHNIQUE = ("property-based testing (Hypothesis): generated tensors with "
             "deliberately placed exact zeros and generated layers/points; "
             "tf.GradientTape gradients and per-example Jacobians of the real "
             "library against float64 analytic derivatives (cross-checked with "
             "autodiff of plain-ops expressions)")
LEVEL_TEXT = ("Generated-input exploration: thousands of tensors (rank 1-4, "
              "every axis, 0 / 1 / >= 2 / all zeros per reduced slice, "
              "including explicit masks on small tensors) for the hand-written "
              "product gradient; KroneckerFactoredLattice layers whose "
              "interpolated factors contain exact zeros, gradients w.r.t. "
              "kernel, scale and inputs; per-example Jacobians d out / d kernel "
              "of Lattice (hypercube and simplex), PWLCalibration and "
              "CategoricalCalibration against float64 interpolation weights, "
              "non-negativity, unit sum and independence from the kernel "
              "value; eager and tf.function (unknown batch size) calls, "
              "float32 and float64. Catches wrong zero-branch logic, dropped "
              "upstream "
              "gradients, axis mistakes and weight mistakes; cannot show "
              "absence.")
LEVEL_NOTE = ("Tolerance 1e-4*max(1,|reference|) per gradient entry; Jacobian "
              "non-negativity and kernel-independence are exact. Magnitudes "
              "moderate (no float32 overflow/underflow of partial products). "
              "Input gradients judged only at differentiable coordinates. "
              "Graph mode only through tf.function with an unknown batch size. "
              "Sizes bounded as stated in the rule. Trusted: TensorFlow "
              "autodiff of built-in ops, NumPy, the harness.")
