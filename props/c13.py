"""C13 - regularizers compute the documented Laplacian/torsion/Hessian/wrinkle
penalties.

Reference (written from the docstrings of lattice_lib.laplacian_regularizer /
torsion_regularizer and of pwl_calibration_layer.LaplacianRegularizer /
HessianRegularizer / WrinkleRegularizer, explicit index loops, float64):

* Lattice kernels have shape (prod(lattice_sizes), units); vertex (i_0..i_{r-1})
  of a unit is stored at sum_d i_d * stride_d with the last dimension changing
  fastest (the layout the Lattice layer interpolates with).  Laplacian: for
  every dimension d and every pair of vertices adjacent along d,
  l1[d]*|diff| + l2[d]*diff^2.  Torsion: for every pair of dimensions i<j and
  every 2x2 cell in the (i,j) plane, amount*|w00+w11-w01-w10| (and squared),
  amount = the scalar, or l[i]*l[j] for per-dimension amounts.  Units are
  independent kernels (no term couples two units).
* PWL kernels: row 0 is the bias, rows 1.. are segment heights, so keypoint
  output t is row0 + rows[1..t].  With is_cyclic the layer has one more
  keypoint than kernel rows and its output equals the first keypoint's, i.e.
  outputs are periodic with period k (k = kernel rows).  Laplacian / Hessian /
  wrinkle are the l1 and squared-l2 norms of first / second / third
  differences of consecutive keypoint outputs (every position of the period
  when cyclic).  Each difference is kept as an integer coefficient vector over
  kernel rows (the bias coefficient cancels exactly) and evaluated in float64.
"""
import numpy as np
from hypothesis import strategies as st

from vlib import strategies as S
from vlib.harness import Outcome, TOL_F

ID = "C13"
TITLE = ("Regularizers compute the documented Laplacian/torsion/Hessian/wrinkle "
         "penalties")
RULE = ("Hypothesis draws either a Lattice case (shape of rank 1-4 with unequal "
        "sizes, <= 256 vertices, rank >= 2 for most torsion cases, 1/8 of the "
        "cases a rank 1-2 shape with a size 5-7; thorough rank <= 5, <= 2048 "
        "vertices; units 1-4; Laplacian or torsion; l1 and l2 each zero, a "
        "scalar or a per-dimension list with zeros in some dimensions; amounts "
        "spelled as Python floats, ints, numpy float32 or float64 scalars; "
        "sizes/amounts spelled as lists or tuples at every entry point; entry "
        "point lattice_lib function, regularizer class or Lattice layer loss) "
        "or a PWL case (kernel of 2-10 rows, 1/8 of the cases 11-16, thorough "
        "<= 40, >= 3 for wrinkle; units 1-4; cyclic or not; Laplacian, Hessian "
        "or wrinkle; scalar l1/l2 in the same spellings; regularizer class or "
        "PWLCalibration layer loss).  At the layer entry points "
        "kernel_regularizer is a single tuple, a single regularizer object or a "
        "list of 2-3 items mixing tuples, tfl regularizer objects and Keras "
        "L1 / L2 / L1L2 objects; the PWL layer has uniform or non-uniform "
        "keypoints, fixed or learned_interior keypoints, monotonicity, bounds, "
        "missing-value imputation, and regularizer objects whose own is_cyclic "
        "differs from the layer's.  Kernels: the random array mixture (scales "
        "1e-6..1e6), a kernel of the regularizer's vanishing class (constant, "
        "additively separable, linear / quadratic in the index) with exactly "
        "representable values, or a large common offset plus small integer "
        "variation (exactly representable; judged relative to the differences, "
        "not to the entries).  The library value is compared with the float64 "
        "loop reference (a list of regularizers with the sum of the per-item "
        "references); the function and class entry points are called eagerly, "
        "inside a tf.function (1/16; the value compared with the reference) or "
        "on a float64 kernel (1/8); non-negativity, additivity in (l1, l2), homogeneity under "
        "scaling of the amounts and the vanishing cases are checked on the "
        "library's own values.  Non-trivial: some term with a non-zero amount "
        "touches a non-zero kernel entry (or a non-zero vanishing kernel under "
        "non-zero amounts); distinct by SHA-1 of the case.")
NT_FLOOR = 0.6
BUDGET = {"quick": 900, "thorough": 10000}
ASSUMPTIONS = [
    "amounts are 0 or in [1e-6, 100] (non-negative, not denormal in float32); "
    "int and numpy-scalar spellings of the documented 'float' amounts are "
    "taken to be valid",
    "a regularizer object passed to a layer keeps its own is_cyclic / "
    "lattice_sizes; only the tuple forms take them from the layer",
    "Keras L1 / L2 / L1L2 objects in a regularizer list contribute "
    "l1*sum|w| + l2*sum w^2 over the whole kernel (Keras documentation)",
    "kernel entries are bounded by 1e6 so that float32 squares do not overflow",
    "results below 1e-36*(terms+1)*(1+max amount) are not compared (float32 "
    "underflow of squares / flush-to-zero)",
]
TECHNIQUE = ("property-based testing (Hypothesis): differential against a "
             "float64 index-loop reference + metamorphic relations in the "
             "regularization amounts + constructed vanishing kernels")
LEVEL_TEXT = ("Generated-input exploration: thousands of random lattice shapes / "
              "PWL kernel sizes, unit counts, scalar and per-dimension amounts "
              "and kernels per run; the value returned by the lattice_lib "
              "functions, the regularizer classes and the layers' losses is "
              "compared with an independent float64 evaluation of the documented "
              "sums; non-negativity, linearity in l1/l2 and the documented "
              "vanishing cases are checked.  Finds transposition / slicing / "
              "weighting / wrap-around mistakes; shows no absence.")
LEVEL_NOTE = ("Trusted: TensorFlow/NumPy arithmetic, the harness.  Tolerance "
              "1e-4 * (sum over terms of amount * (sum |coef*entry|)^p), p=1 for "
              "l1 and 2 for l2, plus a float32 underflow floor; on the "
              "offset-plus-small-integer kernels (all differences exact in "
              "float32) the magnitude is |difference| instead of the sum of "
              "|entries|; vanishing cases on exactly representable kernels are "
              "exact.  Sizes bounded as in the rule; kernel entries <= 1e6 "
              "(offset kernels <= 2^28).")

# Tuple spellings of lattice_sizes / per-dimension amounts are documented
# ("list or tuple") and therefore generated (at every entry point, the layer's
# included: F-C13-1 is repaired).
TUPLE_SPELLINGS = True

AMOUNTS = [0.5, 1.0, 1.0, 2.0, 1e-3, 0.01, 10.0, 0.3]
INT_AMOUNTS = [1, 1, 2, 3, 10]
# spelling of the regularization amounts handed to the library.
ATYPES = ["float", "float", "float", "float", "float", "int", "np32", "np64"]
FACTORS = [0.25, 0.5, 2.0, 3.0, 10.0]
LAT_ENTRIES = ["lib", "lib", "class", "class", "layer"]
PWL_ENTRIES = ["class", "class", "layer"]
KMODES = ["random", "random", "random", "vanish", "offset"]
UNITS = [1, 1, 1, 2, 2, 3, 3, 4]


# ---------------------------------------------------------------- strategies
def _amount_value(atype="float"):
  if atype == "int":
    return st.sampled_from(INT_AMOUNTS)
  return st.one_of(
      st.sampled_from(AMOUNTS),
      st.floats(min_value=1e-6, max_value=100.0, allow_nan=False,
                allow_infinity=False))


PATTERNS = ["ss", "sz", "zs", "ll", "ls", "sl", "lz", "zl", "ss", "ll", "zz"]


@st.composite
def _amounts(draw, rank, lists, atype="float"):
  """(l1, l2): each zero, a scalar or (lists only) a per-dimension list."""
  pat = draw(st.sampled_from(PATTERNS if lists else
                             ["ss", "sz", "zs", "ss", "sz", "zs", "ss", "zz"]))
  zero = 0 if atype == "int" else 0.0
  res = []
  for mode in pat:
    if mode == "z":
      res.append(zero)
    elif mode == "s":
      res.append(draw(_amount_value(atype)))
    else:
      res.append([draw(st.one_of(st.just(zero), _amount_value(atype),
                                 _amount_value(atype))) for _ in range(rank)])
  return res


def _exec_mode(atype):
  """How the function / class entry points are called: eagerly on a float32
  kernel, inside a tf.function, or on a float64 kernel (numpy float32 amounts
  are not combined with float64 kernels)."""
  modes = ["eager"] * 13 + ["function"]
  if atype != "np32":
    modes += ["float64", "float64"]
  return st.sampled_from(modes)


@st.composite
def _keras_item(draw):
  return {"reg": "keras", "form": draw(st.sampled_from(["L1", "L2", "L1L2"])),
          "l1": draw(_amount_value()), "l2": draw(_amount_value())}


@st.composite
def _lattice_extras(draw, rank, atype):
  """Further items of a kernel_regularizer list (layer entry only)."""
  items = []
  for _ in range(draw(st.sampled_from([0, 0, 1, 1, 2]))):
    kind = draw(st.sampled_from(["laplacian", "torsion", "torsion", "keras"]))
    if kind == "keras":
      items.append(draw(_keras_item()))
    else:
      l1, l2 = draw(_amounts(rank, True, atype))
      items.append({"reg": kind, "l1": l1, "l2": l2,
                    "form": draw(st.sampled_from(["tuple", "object"]))})
  return items


@st.composite
def _lattice_case(draw, tier):
  big = tier == "thorough"
  reg = draw(st.sampled_from(["laplacian", "torsion"]))
  # torsion of a rank-1 lattice is the documented trivial zero: kept rare.
  min_rank = 2 if reg == "torsion" and draw(st.integers(0, 5)) > 0 else 1
  if draw(st.integers(0, 7)) == 0:
    # few dimensions, many vertices per dimension.
    sizes = [draw(st.sampled_from([5, 6, 7]))]
    if min_rank == 2 or draw(st.booleans()):
      sizes.append(draw(st.integers(2, 6)))
      if draw(st.booleans()):
        sizes.reverse()
  else:
    sizes = draw(S.lattice_sizes(max_rank=5 if big else 4,
                                 max_size=6 if big else 4,
                                 max_weights=2048 if big else 256,
                                 min_rank=min_rank))
  units = draw(st.sampled_from(UNITS))
  n = int(np.prod(sizes))
  spell = "list"
  if TUPLE_SPELLINGS and draw(st.integers(0, 5)) == 0:
    spell = draw(st.sampled_from(["tuple_sizes", "tuple_amounts",
                                  "tuple_both"]))
  entry = draw(st.sampled_from(LAT_ENTRIES))
  if (TUPLE_SPELLINGS and entry == "layer" and spell == "list" and
      draw(st.integers(0, 4)) == 0):
    spell = draw(st.sampled_from(["tuple_sizes", "tuple_sizes", "tuple_both"]))
  atype = draw(st.sampled_from(ATYPES))
  l1, l2 = draw(_amounts(len(sizes), True, atype))
  case = {
      "family": "lattice",
      "reg": reg,
      "entry": entry, "spell": spell, "sizes": sizes, "units": units,
      "l1": l1, "l2": l2, "atype": atype,
      "kmode": draw(st.sampled_from(KMODES)),
      "kernel": draw(S.array_desc(shape=(n, units))),
      "factor": draw(st.sampled_from(FACTORS)),
      "aux": draw(S.seeds),
  }
  if entry == "layer":
    case["main_form"] = draw(st.sampled_from(["tuple", "tuple", "object"]))
    case["extra"] = draw(_lattice_extras(len(sizes), atype))
  else:
    case["exec"] = draw(_exec_mode(atype))
  return case


@st.composite
def _pwl_layer_opts(draw, nkp, cyclic_layer):
  """Options of the PWLCalibration layer that carries the regularizer."""
  opts = {"gaps": None, "start": 0.0, "kp_spell": "np", "kp_type": "fixed",
          "mono": 0, "conv": 0, "omin": None, "omax": None, "impute": False}
  if draw(st.integers(0, 3)) == 0:
    return opts                      # the default layer
  if draw(st.integers(0, 2)) > 0:
    opts["gaps"] = [draw(st.sampled_from(S.SPACINGS)) for _ in range(nkp - 1)]
    opts["start"] = draw(st.sampled_from([-100.0, -1.0, 0.0, 0.5, 10.0]))
    opts["kp_spell"] = draw(st.sampled_from(["np", "list"]))
  opts["kp_type"] = draw(st.sampled_from(["fixed", "learned_interior"]))
  if not cyclic_layer:
    opts["mono"] = draw(st.sampled_from([0, 1, -1, "increasing"]))
    if opts["kp_type"] == "fixed":
      opts["conv"] = draw(st.sampled_from([0, 0, 1, -1]))
  bm = draw(st.sampled_from(["none", "min", "max", "both"]))
  lo = draw(st.sampled_from([-10.0, 0.0, 0.5]))
  if bm in ("min", "both"):
    opts["omin"] = lo
  if bm in ("max", "both"):
    opts["omax"] = lo + draw(st.sampled_from([0.5, 1.0, 100.0]))
  opts["impute"] = draw(st.booleans())
  return opts


@st.composite
def _pwl_extras(draw, rows, cyclic_layer, atype):
  items = []
  kinds = ["laplacian", "hessian", "keras"] + (["wrinkle", "wrinkle"]
                                               if rows >= 3 else [])
  for _ in range(draw(st.sampled_from([0, 0, 1, 1, 2]))):
    kind = draw(st.sampled_from(kinds))
    if kind == "keras":
      items.append(draw(_keras_item()))
      continue
    l1, l2 = draw(_amounts(1, False, atype))
    form = draw(st.sampled_from(["tuple", "object"]))
    items.append({"reg": kind, "l1": l1, "l2": l2, "form": form,
                  # a tuple takes is_cyclic from the layer, an object has its own
                  "cyclic": (cyclic_layer if form == "tuple" else
                             draw(st.booleans()))})
  return items


@st.composite
def _pwl_case(draw, tier):
  reg = draw(st.sampled_from(["laplacian", "hessian", "wrinkle"]))
  lo = 3 if reg == "wrinkle" else 2
  hi = 40 if tier == "thorough" else 10
  rows = draw(st.one_of(st.sampled_from([lo, lo + 1, 4]),
                        st.integers(lo, hi)))
  if draw(st.integers(0, 7)) == 0:
    rows = draw(st.integers(11, max(16, hi)))
  units = draw(st.sampled_from(UNITS))
  atype = draw(st.sampled_from(ATYPES))
  l1, l2 = draw(_amounts(1, False, atype))
  kmode = draw(st.sampled_from(KMODES))
  # the linear / quadratic vanishing classes exist only without wrap-around.
  cyclic = draw(st.sampled_from([False, True] if kmode != "vanish" else
                                [False, False, False, True]))
  entry = draw(st.sampled_from(PWL_ENTRIES))
  case = {
      "family": "pwl", "reg": reg,
      "entry": entry,
      "rows": rows, "units": units, "cyclic": cyclic,
      "l1": l1, "l2": l2, "atype": atype, "kmode": kmode,
      "kernel": draw(S.array_desc(shape=(rows, units))),
      "factor": draw(st.sampled_from(FACTORS)),
      "aux": draw(S.seeds),
  }
  if entry == "layer":
    form = draw(st.sampled_from(["tuple", "tuple", "object"]))
    # the tuple form takes is_cyclic from the layer; a regularizer object
    # keeps its own flag whatever the layer's is.
    cyclic_layer = cyclic if form == "tuple" else draw(st.booleans())
    case["main_form"] = form
    case["layer_cyclic"] = cyclic_layer
    case["layer"] = draw(_pwl_layer_opts(rows + (1 if cyclic_layer else 0),
                                         cyclic_layer))
    case["extra"] = draw(_pwl_extras(rows, cyclic_layer, atype))
  else:
    case["exec"] = draw(_exec_mode(atype))
  return case


def strategy(tier):
  return st.one_of(_lattice_case(tier), _pwl_case(tier))


# ----------------------------------------------------------------- reference
def _strides(sizes):
  strides = [1] * len(sizes)
  for d in range(len(sizes) - 2, -1, -1):
    strides[d] = strides[d + 1] * sizes[d + 1]
  return strides


def _per_dim(amount, rank):
  if isinstance(amount, (list, tuple)):
    return [float(a) for a in amount]
  return [float(amount)] * rank


def _pair_amount(amount, i, j):
  """Torsion: scalar amount as is, per-dimension amounts multiply."""
  if isinstance(amount, (list, tuple)):
    return float(amount[i]) * float(amount[j])
  return float(amount)


def _accumulate(acc, a1, a2, value, mag):
  acc[0] += a1 * abs(value) + a2 * value * value
  acc[1] += a1 * mag + a2 * mag * mag
  acc[2] += 1


def ref_lattice(reg, sizes, w, l1, l2, exact=False):
  """(value, magnitude bound, number of weighted terms); w (n, units) f64.

  exact: every penalised difference is exactly representable in float32 (the
  offset kernels), so the magnitude is |difference|, not the sum of |entries|.
  """
  rank = len(sizes)
  strides = _strides(sizes)
  units = w.shape[1]
  acc = [0.0, 0.0, 0]
  if reg == "laplacian":
    a1, a2 = _per_dim(l1, rank), _per_dim(l2, rank)
    for u in range(units):
      for idx in np.ndindex(*sizes):
        base = sum(i * s for i, s in zip(idx, strides))
        for d in range(rank):
          if idx[d] + 1 >= sizes[d] or (a1[d] == 0.0 and a2[d] == 0.0):
            continue
          lo, hi = w[base, u], w[base + strides[d], u]
          _accumulate(acc, a1[d], a2[d], hi - lo,
                      abs(hi - lo) if exact else abs(hi) + abs(lo))
  else:
    for i in range(rank - 1):
      for j in range(i + 1, rank):
        p1, p2 = _pair_amount(l1, i, j), _pair_amount(l2, i, j)
        if p1 == 0.0 and p2 == 0.0:
          continue
        for u in range(units):
          for idx in np.ndindex(*sizes):
            if idx[i] + 1 >= sizes[i] or idx[j] + 1 >= sizes[j]:
              continue
            base = sum(a * s for a, s in zip(idx, strides))
            w00 = w[base, u]
            w10 = w[base + strides[i], u]
            w01 = w[base + strides[j], u]
            w11 = w[base + strides[i] + strides[j], u]
            twist = w00 + w11 - w01 - w10
            _accumulate(acc, p1, p2, twist,
                        abs(twist) if exact else
                        abs(w00) + abs(w11) + abs(w01) + abs(w10))
  return acc[0], acc[1], acc[2]


def _pwl_terms(reg, k, cyclic):
  """Integer coefficient vectors (over kernel rows) of every penalised
  difference of keypoint outputs."""

  def out(t):
    # keypoint output t = bias + heights[0..t-1]; periodic when cyclic.
    if cyclic:
      t %= k
    c = np.zeros(k, dtype=np.int64)
    c[0] = 1
    c[1:t + 1] = 1
    return c

  if reg == "laplacian":     # output[t+1] - output[t]
    rng = range(k) if cyclic else range(k - 1)
    return [out(t + 1) - out(t) for t in rng]
  if reg == "hessian":       # 2*output[t] - output[t-1] - output[t+1]
    rng = range(k) if cyclic else range(1, k - 1)
    return [2 * out(t) - out(t - 1) - out(t + 1) for t in rng]
  # wrinkle: 3*output[t+1] - 3*output[t+2] - output[t] + output[t+3]
  rng = range(k) if cyclic else range(k - 3)
  return [3 * out(t + 1) - 3 * out(t + 2) - out(t) + out(t + 3) for t in rng]


def ref_pwl(reg, x, cyclic, l1, l2, exact=False):
  k, units = x.shape
  acc = [0.0, 0.0, 0]
  terms = _pwl_terms(reg, k, cyclic)
  for u in range(units):
    for c in terms:
      value, mag = 0.0, 0.0
      for r in range(k):
        if c[r]:
          value += float(c[r]) * x[r, u]
          mag += abs(float(c[r])) * abs(x[r, u])
      _accumulate(acc, float(l1), float(l2), value,
                  abs(value) if exact else mag)
  return acc[0], acc[1], acc[2]


def ref_keras(form, w, l1, l2):
  """Keras L1 / L2 / L1L2: l1 * sum|w| + l2 * sum w^2 over the whole kernel."""
  a1 = float(l1) if form in ("L1", "L1L2") else 0.0
  a2 = float(l2) if form in ("L2", "L1L2") else 0.0
  acc = [0.0, 0.0, 0]
  for v in w.reshape(-1):
    _accumulate(acc, a1, a2, float(v), abs(float(v)))
  return acc[0], acc[1], acc[2]


# --------------------------------------------------------- vanishing kernels
def vanishing_kernel(case):
  """(float32 kernel with exactly representable entries, class name)."""
  rs = np.random.RandomState(case["aux"])
  units = case["units"]
  scale = float(2.0 ** rs.choice([-10, -1, 0, 0, 3, 12]))
  if case["family"] == "lattice":
    sizes = case["sizes"]
    n = int(np.prod(sizes))
    k = np.zeros((n, units))
    if case["reg"] == "laplacian":
      k[:] = rs.randint(-9, 10, size=(1, units))
      name = "constant"
    else:
      grid = np.indices(sizes).reshape(len(sizes), -1)
      for u in range(units):
        for d, s in enumerate(sizes):
          f = rs.randint(-4, 5, size=s)
          k[:, u] += f[grid[d]]
      name = "separable"
    return (k * scale).astype(np.float32), name
  rows = case["rows"]
  t = np.arange(rows - 1, dtype=np.float64)[:, None]
  a = rs.randint(-9, 10, size=(1, units)).astype(np.float64)
  b = rs.randint(-5, 6, size=(1, units)).astype(np.float64)
  c = rs.randint(-3, 4, size=(1, units)).astype(np.float64)
  if case["cyclic"] or case["reg"] == "laplacian":
    heights, name = 0 * t + 0 * b, "constant"
  elif case["reg"] == "hessian":
    heights, name = 0 * t + b, "linear"          # output = a + b*t
  else:
    heights, name = b + c * (2 * t + 1), "quadratic"   # a + b*t + c*t^2
  k = np.concatenate([a, heights], axis=0)
  return (k * scale).astype(np.float32), name


def _item_vanishes(item, name):
  """Does this list item vanish on a kernel of the named vanishing class?"""
  reg = item["reg"]
  if reg == "keras":
    return False
  if name == "constant":
    return True
  if name == "separable":
    return reg == "torsion"
  if item.get("cyclic"):
    return False
  return reg in (("hessian", "wrinkle") if name == "linear" else ("wrinkle",))


def offset_kernel(case, shape):
  """Large common offset + small integer variation, times a power of two.

  Every entry, every sum of up to 40 entries and every penalised difference
  is an integer below 2^24 times the power of two, i.e. exact in float32: the
  library's differences carry no rounding error and a dropped or doubled
  small term is far above the tolerance although it is tiny next to the
  entries.
  """
  rs = np.random.RandomState(case["aux"])
  units = shape[1]
  offset = float(2 ** int(rs.choice([8, 12, 16])))
  scale = float(2.0 ** int(rs.choice([-10, 0, 0, 3, 12])))
  sign = rs.choice([-1.0, 1.0], size=(1, units))
  small = rs.randint(-4, 5, size=shape).astype(np.float64)
  return ((offset * sign + small) * scale).astype(np.float32)


# ------------------------------------------------------------ library calls
def _spell(v, atype):
  """The amount as handed to the library (float / int / numpy scalar)."""
  if isinstance(v, (list, tuple)):
    return [_spell(x, atype) for x in v]
  if atype == "int" and float(v).is_integer():
    return int(v)
  if atype == "np32":
    return np.float32(v)
  if atype == "np64":
    return np.float64(v)
  return float(v)


def _value_of(v, atype):
  """float64 value of the spelled amount (np.float32 rounds it)."""
  s = _spell(v, atype)
  if isinstance(s, list):
    return [float(x) for x in s]
  return float(s)


def _spelled(case, l1, l2):
  sizes = list(case["sizes"])
  if case["spell"] in ("tuple_sizes", "tuple_both"):
    sizes = tuple(sizes)
  if case["spell"] in ("tuple_amounts", "tuple_both"):
    l1 = tuple(l1) if isinstance(l1, list) else l1
    l2 = tuple(l2) if isinstance(l2, list) else l2
  return sizes, l1, l2


def _scalar(v):
  if isinstance(v, (list, tuple)):
    return float(sum(float(np.asarray(x)) for x in v))
  return float(np.asarray(v))


def _keras_object(item):
  import tf_keras as keras
  if item["form"] == "L1":
    return keras.regularizers.L1(item["l1"])
  if item["form"] == "L2":
    return keras.regularizers.L2(item["l2"])
  return keras.regularizers.L1L2(l1=item["l1"], l2=item["l2"])


def _pwl_keypoints(opts, nkp):
  if opts.get("gaps") is None:
    return np.linspace(0.0, 1.0, nkp).astype(np.float32)
  kp = [np.float32(opts["start"])]
  for g in opts["gaps"]:
    nxt = np.float32(float(kp[-1]) + g)
    if nxt <= kp[-1]:
      nxt = np.nextafter(kp[-1], np.float32(np.inf))
    kp.append(nxt)
  kp = np.asarray(kp, dtype=np.float32)
  return [float(x) for x in kp] if opts.get("kp_spell") == "list" else kp


def library_value(case, k32, l1, l2, trace=True):
  """Library value with the main regularizer's amounts (l1, l2); the further
  items of a layer's regularizer list keep their own amounts.  trace=False
  evaluates a "function" case eagerly (tracing is expensive: only the value
  that is compared with the reference goes through tf.function)."""
  import tensorflow as tf
  import tensorflow_lattice as tfl
  mode = case.get("exec", "eager")
  if mode == "function" and not trace:
    mode = "eager"
  x = tf.constant(k32.astype(np.float64) if mode == "float64" else k32)

  def call(fn):
    """fn(x) eagerly or traced into a graph by tf.function."""
    if mode == "function":
      return _scalar(tf.function(lambda t: tf.convert_to_tensor(
          fn(t), dtype=t.dtype), autograph=False)(x))
    return _scalar(fn(x))

  units, reg, entry = case["units"], case["reg"], case["entry"]
  atype = case.get("atype", "float")
  extras = case.get("extra") or []
  main_form = case.get("main_form", "tuple")
  l1, l2 = _spell(l1, atype), _spell(l2, atype)
  if case["family"] == "lattice":
    sizes, l1, l2 = _spelled(case, l1, l2)
    classes = {"laplacian": tfl.lattice_layer.LaplacianRegularizer,
               "torsion": tfl.lattice_layer.TorsionRegularizer}
    if entry == "lib":
      fn = (tfl.lattice_lib.laplacian_regularizer if reg == "laplacian" else
            tfl.lattice_lib.torsion_regularizer)
      return call(lambda t: fn(t, sizes, l1=l1, l2=l2))
    if entry == "class":
      return call(classes[reg](lattice_sizes=sizes, l1=l1, l2=l2))

    def item_object(r, a1, a2, form):
      if form == "object":
        return classes[r](lattice_sizes=sizes, l1=a1, l2=a2)
      return (r, a1, a2)

    regs = [item_object(reg, l1, l2, main_form)]
    for item in extras:
      if item["reg"] == "keras":
        regs.append(_keras_object(item))
      else:
        _, e1, e2 = _spelled(case, _spell(item["l1"], atype),
                             _spell(item["l2"], atype))
        regs.append(item_object(item["reg"], e1, e2, item["form"]))
    layer = tfl.layers.Lattice(lattice_sizes=sizes, units=units,
                               kernel_regularizer=(regs if len(regs) > 1 else
                                                   regs[0]))
    d = len(sizes)
    layer.build((None, d) if units == 1 else (None, units, d))
    layer.kernel.assign(k32)
    return _scalar(layer.losses)
  classes = {"laplacian": tfl.pwl_calibration_layer.LaplacianRegularizer,
             "hessian": tfl.pwl_calibration_layer.HessianRegularizer,
             "wrinkle": tfl.pwl_calibration_layer.WrinkleRegularizer}
  if entry == "class":
    return call(classes[reg](l1=l1, l2=l2, is_cyclic=case["cyclic"]))
  cyclic_layer = case.get("layer_cyclic", case["cyclic"])
  opts = case.get("layer") or {}

  def item_object(r, a1, a2, form, cyclic):
    if form == "object":
      return classes[r](l1=a1, l2=a2, is_cyclic=cyclic)
    if cyclic != cyclic_layer:
      raise AssertionError("tuple regularizer with its own is_cyclic")
    return (r, a1, a2)

  regs = [item_object(reg, l1, l2, main_form, case["cyclic"])]
  for item in extras:
    if item["reg"] == "keras":
      regs.append(_keras_object(item))
    else:
      regs.append(item_object(item["reg"], _spell(item["l1"], atype),
                              _spell(item["l2"], atype), item["form"],
                              item["cyclic"]))
  nkp = case["rows"] + (1 if cyclic_layer else 0)
  kwargs = {}
  if opts:
    kwargs = dict(input_keypoints_type=opts["kp_type"],
                  monotonicity=opts["mono"], convexity=opts["conv"],
                  output_min=opts["omin"], output_max=opts["omax"],
                  impute_missing=opts["impute"])
  layer = tfl.layers.PWLCalibration(
      input_keypoints=_pwl_keypoints(opts, nkp),
      units=units, is_cyclic=cyclic_layer,
      kernel_regularizer=regs if len(regs) > 1 else regs[0], **kwargs)
  layer.build([(None, units), (None, units)] if opts.get("impute") else
              (None, units))
  if tuple(layer.kernel.shape) != k32.shape:
    raise AssertionError("PWL kernel shape %s != %s" % (layer.kernel.shape,
                                                       k32.shape))
  layer.kernel.assign(k32)
  return _scalar(layer.losses)


def _scaled(amount, c):
  if isinstance(amount, list):
    return [c * a for a in amount]
  return c * amount


def _is_zero(amount):
  return not any(_per_dim(amount, 1))


def _kind(amount):
  if isinstance(amount, list):
    return "list"
  return "scalar" if amount else "zero"


# ------------------------------------------------------------------ run_case
def run_case(case):
  out = Outcome()
  fam, reg, units = case["family"], case["reg"], case["units"]
  l1, l2 = case["l1"], case["l2"]
  atype = case.get("atype", "float")
  extras = case.get("extra") or []
  lattice = fam == "lattice"
  shape = ((int(np.prod(case["sizes"])), units) if lattice else
           (case["rows"], units))
  vanish = None
  exact = False
  if case["kmode"] == "vanish":
    k32, vanish = vanishing_kernel(case)
  elif case["kmode"] == "offset":
    k32, exact = offset_kernel(case, shape), True
  else:
    k32 = S.materialize(case["kernel"], shape)
  k64 = k32.astype(np.float64)

  out.label("%s:%s" % (fam, reg), "entry:" + case["entry"],
            "units:%d" % units, "amounts:l1=%s,l2=%s" % (_kind(l1), _kind(l2)),
            "kernel:" + ("offset" if exact else
                         case["kernel"]["kind"] if vanish is None else
                         "vanish-" + vanish),
            "atype:" + atype, "exec:" + case.get("exec", "eager"))
  sig = dict(family=fam, reg=reg)
  if lattice:
    sizes = case["sizes"]
    out.label("rank:%d" % len(sizes), "spell:" + case["spell"],
              "sizes:" + ("equal" if len(set(sizes)) == 1 else "unequal"))
    if max(sizes) >= 5:
      out.label("sizes:some>=5")
    if case["entry"] == "layer" and case["spell"] != "list":
      out.label("layer-entry:" + case["spell"])
    for a in (l1, l2):
      if isinstance(a, list) and any(a) and not all(a):
        out.label("amounts:zeros-in-some-dims")
    sig.update(units_gt1=units > 1,
               list_amounts=isinstance(l1, list) or isinstance(l2, list))
  else:
    out.label("cyclic" if case["cyclic"] else "non-cyclic",
              "rows:%s" % (case["rows"] if case["rows"] <= 4 else
                           ">=5" if case["rows"] <= 10 else ">10"))
    sig.update(cyclic=case["cyclic"])
    if case["entry"] == "layer" and case.get("layer"):
      opts = case["layer"]
      if case.get("layer_cyclic", case["cyclic"]) != case["cyclic"]:
        out.label("pwl-layer:object-is_cyclic-differs-from-layer")
      out.label("pwl-layer:" + ("non-uniform-keypoints" if opts["gaps"]
                                else "uniform-keypoints"),
                "pwl-layer:" + opts["kp_type"])
      if opts["mono"] != 0 or opts["conv"] != 0:
        out.label("pwl-layer:monotonic-or-convex")
      if opts["omin"] is not None or opts["omax"] is not None:
        out.label("pwl-layer:bounded")
      if opts["impute"]:
        out.label("pwl-layer:impute_missing")
  if case["entry"] == "layer" and "main_form" in case:
    forms = [case["main_form"]] + [
        "keras" if e["reg"] == "keras" else e["form"] for e in extras]
    out.label("layer-regularizers:%d" % len(forms))
    for f in sorted(set(forms)):
      out.label("layer-regularizer-form:" + f)
    if len(forms) > 1:
      sig.update(multi=True)
    for e in extras:
      if not lattice and e["reg"] != "keras" and e["cyclic"] != case.get(
          "layer_cyclic", case["cyclic"]):
        out.label("pwl-layer:object-is_cyclic-differs-from-layer")
        break

  def ref_item(r, a1, a2, cyclic):
    if r == "keras":
      raise AssertionError
    if lattice:
      return ref_lattice(r, case["sizes"], k64, a1, a2, exact)
    return ref_pwl(r, k64, cyclic, a1, a2, exact)

  # the further items of a regularizer list: fixed amounts.
  eref = [0.0, 0.0, 0]
  for e in extras:
    if e["reg"] == "keras":
      part = ref_keras(e["form"], k64, e["l1"], e["l2"])
    else:
      part = ref_item(e["reg"], _value_of(e["l1"], atype),
                      _value_of(e["l2"], atype), e.get("cyclic"))
    eref = [eref[0] + part[0], eref[1] + part[1], eref[2] + part[2]]
  emag = float(eref[1])

  def ref(a1, a2):
    """Reference of the whole list with main amounts (a1, a2)."""
    v, m, n = ref_item(reg, _value_of(a1, atype), _value_of(a2, atype),
                       case.get("cyclic"))
    return v + eref[0], m + eref[1], n + eref[2]

  calls = []

  def lib(a1, a2):
    calls.append(1)
    return library_value(case, k32, a1, a2, trace=len(calls) == 1)

  amax = max(_per_dim(l1, 1) + _per_dim(l2, 1) +
             [float(e[k]) for e in extras if e["reg"] == "keras"
              for k in ("l1", "l2")] +
             [x for e in extras if e["reg"] != "keras"
              for k in ("l1", "l2") for x in _per_dim(e[k], 1)])

  def tol(mag, nterms, c=1.0):
    return TOL_F * mag + 1e-36 * (nterms + 1) * (1.0 + c * amax)

  # ---- value against the float64 reference
  rv, rmag, nterms = ref(l1, l2)
  rv, rmag = float(rv), float(rmag)
  try:
    total = lib(l1, l2)
  except TypeError as e:
    if lattice and case["spell"] != "list":
      out.nontrivial = True
      out.label("exception")
      out.violate("%s regularizer raises TypeError for documented tuple "
                  "spelling %s with units=%d: %s" %
                  (reg, case["spell"], units, str(e)[:200]),
                  kind="exception", exc="TypeError", family=fam, reg=reg,
                  tuple_sizes=case["spell"] in ("tuple_sizes", "tuple_both"),
                  tuple_amounts=bool(
                      case["spell"] in ("tuple_amounts", "tuple_both") and
                      (isinstance(l1, list) or isinstance(l2, list))),
                  units_gt1=units > 1)
      return out
    raise
  out.checks += 1
  out.info.update(library=total, reference=rv, magnitude=rmag, terms=nterms)
  out.nontrivial = bool(rmag > 0 or (vanish is not None and np.any(k32 != 0)
                                     and not (_is_zero(l1) and _is_zero(l2))))
  if not np.isfinite(total):
    out.violate("regularizer value %r is not finite" % total, kind="finite",
                **sig)
    return out
  err = abs(total - rv)
  out.info["err_over_tol"] = err / tol(rmag, nterms)
  if err > tol(rmag, nterms):
    out.violate("%s %s regularizer%s returns %r, documented sum is %r "
                "(tolerance %.3g)" % (
                    fam, reg, " (list of %d)" % (1 + len(extras)) if extras
                    else "", total, rv, tol(rmag, nterms)),
                kind="value", **sig)
  # ---- non-negativity (exact)
  out.checks += 1
  if total < 0:
    out.violate("regularizer value %r is negative" % total, kind="nonneg",
                **sig)
  # ---- vanishing cases (exactly representable kernels: exact)
  if vanish is not None and all(_item_vanishes(e, vanish) for e in extras):
    out.checks += 1
    if total != 0.0:
      out.violate("%s %s regularizer is %r on a %s kernel" %
                  (fam, reg, total, vanish), kind="vanish", vanish=vanish,
                  **sig)
  # ---- linearity in l1 and l2 (of the main item; the further items of a
  # list contribute the constant `rest`, measured on the library itself)
  if _is_zero(l1) and _is_zero(l2):
    return out
  zero = 0 if atype == "int" else 0.0
  rest = lib(zero, zero) if extras else 0.0
  part1, part2 = lib(l1, zero), lib(zero, l2)
  out.checks += 2
  if part1 < 0 or part2 < 0 or rest < 0:
    out.violate("regularizer value %r / %r / %r is negative" %
                (part1, part2, rest), kind="nonneg", **sig)
  if abs((total - rest) - ((part1 - rest) + (part2 - rest))) > tol(
      rmag + 2 * emag, nterms):
    out.violate("R(l1,l2)=%r differs from R(l1,0)+R(0,l2)=%r+%r (further "
                "list items: %r)" % (total, part1, part2, rest),
                kind="additivity", **sig)
  c = case["factor"]
  for which, amount, base in (("l1", l1, part1), ("l2", l2, part2)):
    if _is_zero(amount):
      continue
    # per-dimension torsion amounts enter as products: degree 2.
    degree = 2 if (reg == "torsion" and isinstance(amount, list)) else 1
    a1, a2 = ((_scaled(amount, c), zero) if which == "l1" else
              (zero, _scaled(amount, c)))
    scaled = lib(a1, a2)
    _, smag, _ = ref(a1, a2)
    out.checks += 1
    if abs((scaled - rest) - c ** degree * (base - rest)) > tol(
        smag + c ** degree * emag, nterms, c):
      out.violate("scaling %s by %g gives %r, expected %g * %r" %
                  (which, c, scaled - rest, c ** degree, base - rest),
                  kind="scaling", **sig)
  return out
