"""C13 - regularizers compute the documented Laplacian/torsion/Hessian/wrinkle
penalties.

Reference (written from the docstrings of lattice_lib.laplacian_regularizer /
torsion_regularizer and of pwl_calibration_layer.LaplacianRegularizer /
HessianRegularizer / WrinkleRegularizer, explicit index loops, float64):

* Lattice kernels have shape (prod(lattice_sizes), units); vertex (i_0..i_{r-1})
  of a unit is stored at sum_d i_d * stride_d with the last dimension changing
  fastest (the layout the Lattice layer interpolates with).  Laplacian: for
  every dimension d and every pair of vertices adjacent along d,
  l1[d]*|diff| + l2[d]*diff^2.  Torsion: for every pair of dimensions i<j and
  every 2x2 cell in the (i,j) plane, amount*|w00+w11-w01-w10| (and squared),
  amount = the scalar, or l[i]*l[j] for per-dimension amounts.  Units are
  independent kernels (no term couples two units).
* PWL kernels: row 0 is the bias, rows 1.. are segment heights, so keypoint
  output t is row0 + rows[1..t].  With is_cyclic the layer has one more
  keypoint than kernel rows and its output equals the first keypoint's, i.e.
  outputs are periodic with period k (k = kernel rows).  Laplacian / Hessian /
  wrinkle are the l1 and squared-l2 norms of first / second / third
  differences of consecutive keypoint outputs (every position of the period
  when cyclic).  Each difference is kept as an integer coefficient vector over
  kernel rows (the bias coefficient cancels exactly) and evaluated in float64.
"""
import numpy as np
from hypothesis import strategies as st

from vlib import strategies as S
from vlib.harness import Outcome, TOL_F

ID = "C13"
TITLE = ("Regularizers compute the documented Laplacian/torsion/Hessian/wrinkle "
         "penalties")
RULE = ("Hypothesis draws either a Lattice case (shape of rank 1-4 with unequal "
        "sizes, <= 256 vertices; thorough rank <= 5, <= 2048 vertices; units "
        "1-3; Laplacian or torsion; l1 and l2 each zero, a scalar or a "
        "per-dimension list with zeros in some dimensions; sizes/amounts "
        "spelled as lists or tuples; entry point lattice_lib function, "
        "regularizer class or Lattice layer loss) or a PWL case (kernel of 2-10 "
        "rows, thorough <= 40, >= 3 for wrinkle; units 1-3; cyclic or not; "
        "Laplacian, Hessian or wrinkle; scalar l1/l2; regularizer class or "
        "PWLCalibration layer loss) and a kernel: the random array mixture "
        "(scales 1e-6..1e6) or a kernel of the regularizer's vanishing class "
        "(constant, additively separable, linear / quadratic in the index) with "
        "exactly representable values.  The library value is compared with the "
        "float64 loop reference; non-negativity, additivity in (l1, l2), "
        "homogeneity under scaling of the amounts and the vanishing cases are "
        "checked on the library's own values.  Non-trivial: some term with a "
        "non-zero amount touches a non-zero kernel entry (or a non-zero "
        "vanishing kernel under non-zero amounts); distinct by SHA-1 of the "
        "case.")
NT_FLOOR = 0.6
BUDGET = {"quick": 900, "thorough": 10000}
ASSUMPTIONS = [
    "amounts are 0 or in [1e-6, 100] (non-negative, not denormal in float32)",
    "kernel entries are bounded by 1e6 so that float32 squares do not overflow",
    "results below 1e-36*(terms+1)*(1+max amount) are not compared (float32 "
    "underflow of squares / flush-to-zero)",
]
TECHNIQUE = ("property-based testing (Hypothesis): differential against a "
             "float64 index-loop reference + metamorphic relations in the "
             "regularization amounts + constructed vanishing kernels")
LEVEL_TEXT = ("Generated-input exploration: thousands of random lattice shapes / "
              "PWL kernel sizes, unit counts, scalar and per-dimension amounts "
              "and kernels per run; the value returned by the lattice_lib "
              "functions, the regularizer classes and the layers' losses is "
              "compared with an independent float64 evaluation of the documented "
              "sums; non-negativity, linearity in l1/l2 and the documented "
              "vanishing cases are checked.  Finds transposition / slicing / "
              "weighting / wrap-around mistakes; shows no absence.")
LEVEL_NOTE = ("Trusted: TensorFlow/NumPy arithmetic, the harness.  Tolerance "
              "1e-4 * (sum over terms of amount * (sum |coef*entry|)^p), p=1 for "
              "l1 and 2 for l2, plus a float32 underflow floor; vanishing cases "
              "on exactly representable kernels are exact.  Sizes bounded as in "
              "the rule; kernel entries <= 1e6.")

# Tuple spellings of lattice_sizes / per-dimension amounts are documented
# ("list or tuple") and therefore generated.
TUPLE_SPELLINGS = True

AMOUNTS = [0.5, 1.0, 1.0, 2.0, 1e-3, 0.01, 10.0, 0.3]
FACTORS = [0.25, 0.5, 2.0, 3.0, 10.0]
LAT_ENTRIES = ["lib", "lib", "class", "class", "layer"]
PWL_ENTRIES = ["class", "class", "layer"]


# ---------------------------------------------------------------- strategies
def _amount_value():
  return st.one_of(
      st.sampled_from(AMOUNTS),
      st.floats(min_value=1e-6, max_value=100.0, allow_nan=False,
                allow_infinity=False))


PATTERNS = ["ss", "sz", "zs", "ll", "ls", "sl", "lz", "zl", "ss", "ll", "zz"]


@st.composite
def _amounts(draw, rank, lists):
  """(l1, l2): each zero, a scalar or (lists only) a per-dimension list."""
  pat = draw(st.sampled_from(PATTERNS if lists else
                             ["ss", "sz", "zs", "ss", "sz", "zs", "ss", "zz"]))
  res = []
  for mode in pat:
    if mode == "z":
      res.append(0.0)
    elif mode == "s":
      res.append(draw(_amount_value()))
    else:
      res.append([draw(st.one_of(st.just(0.0), _amount_value(),
                                 _amount_value())) for _ in range(rank)])
  return res


@st.composite
def _lattice_case(draw, tier):
  big = tier == "thorough"
  sizes = draw(S.lattice_sizes(max_rank=5 if big else 4,
                               max_size=6 if big else 4,
                               max_weights=2048 if big else 256))
  units = draw(st.sampled_from([1, 1, 2, 3]))
  n = int(np.prod(sizes))
  spell = "list"
  if TUPLE_SPELLINGS and draw(st.integers(0, 5)) == 0:
    spell = draw(st.sampled_from(["tuple_sizes", "tuple_amounts",
                                  "tuple_both"]))
  entry = draw(st.sampled_from(LAT_ENTRIES))
  if entry == "layer":
    spell = "list"
  l1, l2 = draw(_amounts(len(sizes), True))
  return {
      "family": "lattice",
      "reg": draw(st.sampled_from(["laplacian", "torsion"])),
      "entry": entry, "spell": spell, "sizes": sizes, "units": units,
      "l1": l1, "l2": l2,
      "kmode": draw(st.sampled_from(["random", "random", "random", "vanish"])),
      "kernel": draw(S.array_desc(shape=(n, units))),
      "factor": draw(st.sampled_from(FACTORS)),
      "aux": draw(S.seeds),
  }


@st.composite
def _pwl_case(draw, tier):
  reg = draw(st.sampled_from(["laplacian", "hessian", "wrinkle"]))
  lo = 3 if reg == "wrinkle" else 2
  hi = 40 if tier == "thorough" else 10
  rows = draw(st.one_of(st.sampled_from([lo, lo + 1, 4]),
                        st.integers(lo, hi)))
  units = draw(st.sampled_from([1, 1, 2, 3]))
  l1, l2 = draw(_amounts(1, False))
  kmode = draw(st.sampled_from(["random", "random", "random", "vanish"]))
  # the linear / quadratic vanishing classes exist only without wrap-around.
  cyclic = draw(st.sampled_from([False, True] if kmode == "random" else
                                [False, False, False, True]))
  return {
      "family": "pwl", "reg": reg,
      "entry": draw(st.sampled_from(PWL_ENTRIES)),
      "rows": rows, "units": units, "cyclic": cyclic,
      "l1": l1, "l2": l2, "kmode": kmode,
      "kernel": draw(S.array_desc(shape=(rows, units))),
      "factor": draw(st.sampled_from(FACTORS)),
      "aux": draw(S.seeds),
  }


def strategy(tier):
  return st.one_of(_lattice_case(tier), _pwl_case(tier))


# ----------------------------------------------------------------- reference
def _strides(sizes):
  strides = [1] * len(sizes)
  for d in range(len(sizes) - 2, -1, -1):
    strides[d] = strides[d + 1] * sizes[d + 1]
  return strides


def _per_dim(amount, rank):
  if isinstance(amount, (list, tuple)):
    return [float(a) for a in amount]
  return [float(amount)] * rank


def _pair_amount(amount, i, j):
  """Torsion: scalar amount as is, per-dimension amounts multiply."""
  if isinstance(amount, (list, tuple)):
    return float(amount[i]) * float(amount[j])
  return float(amount)


def _accumulate(acc, a1, a2, value, mag):
  acc[0] += a1 * abs(value) + a2 * value * value
  acc[1] += a1 * mag + a2 * mag * mag
  acc[2] += 1


def ref_lattice(reg, sizes, w, l1, l2):
  """(value, magnitude bound, number of weighted terms); w (n, units) f64."""
  rank = len(sizes)
  strides = _strides(sizes)
  units = w.shape[1]
  acc = [0.0, 0.0, 0]
  if reg == "laplacian":
    a1, a2 = _per_dim(l1, rank), _per_dim(l2, rank)
    for u in range(units):
      for idx in np.ndindex(*sizes):
        base = sum(i * s for i, s in zip(idx, strides))
        for d in range(rank):
          if idx[d] + 1 >= sizes[d] or (a1[d] == 0.0 and a2[d] == 0.0):
            continue
          lo, hi = w[base, u], w[base + strides[d], u]
          _accumulate(acc, a1[d], a2[d], hi - lo, abs(hi) + abs(lo))
  else:
    for i in range(rank - 1):
      for j in range(i + 1, rank):
        p1, p2 = _pair_amount(l1, i, j), _pair_amount(l2, i, j)
        if p1 == 0.0 and p2 == 0.0:
          continue
        for u in range(units):
          for idx in np.ndindex(*sizes):
            if idx[i] + 1 >= sizes[i] or idx[j] + 1 >= sizes[j]:
              continue
            base = sum(a * s for a, s in zip(idx, strides))
            w00 = w[base, u]
            w10 = w[base + strides[i], u]
            w01 = w[base + strides[j], u]
            w11 = w[base + strides[i] + strides[j], u]
            _accumulate(acc, p1, p2, w00 + w11 - w01 - w10,
                        abs(w00) + abs(w11) + abs(w01) + abs(w10))
  return acc[0], acc[1], acc[2]


def _pwl_terms(reg, k, cyclic):
  """Integer coefficient vectors (over kernel rows) of every penalised
  difference of keypoint outputs."""

  def out(t):
    # keypoint output t = bias + heights[0..t-1]; periodic when cyclic.
    if cyclic:
      t %= k
    c = np.zeros(k, dtype=np.int64)
    c[0] = 1
    c[1:t + 1] = 1
    return c

  if reg == "laplacian":     # output[t+1] - output[t]
    rng = range(k) if cyclic else range(k - 1)
    return [out(t + 1) - out(t) for t in rng]
  if reg == "hessian":       # 2*output[t] - output[t-1] - output[t+1]
    rng = range(k) if cyclic else range(1, k - 1)
    return [2 * out(t) - out(t - 1) - out(t + 1) for t in rng]
  # wrinkle: 3*output[t+1] - 3*output[t+2] - output[t] + output[t+3]
  rng = range(k) if cyclic else range(k - 3)
  return [3 * out(t + 1) - 3 * out(t + 2) - out(t) + out(t + 3) for t in rng]


def ref_pwl(reg, x, cyclic, l1, l2):
  k, units = x.shape
  acc = [0.0, 0.0, 0]
  terms = _pwl_terms(reg, k, cyclic)
  for u in range(units):
    for c in terms:
      value, mag = 0.0, 0.0
      for r in range(k):
        if c[r]:
          value += float(c[r]) * x[r, u]
          mag += abs(float(c[r])) * abs(x[r, u])
      _accumulate(acc, float(l1), float(l2), value, mag)
  return acc[0], acc[1], acc[2]


# --------------------------------------------------------- vanishing kernels
def vanishing_kernel(case):
  """(float32 kernel with exactly representable entries, class name)."""
  rs = np.random.RandomState(case["aux"])
  units = case["units"]
  scale = float(2.0 ** rs.choice([-10, -1, 0, 0, 3, 12]))
  if case["family"] == "lattice":
    sizes = case["sizes"]
    n = int(np.prod(sizes))
    k = np.zeros((n, units))
    if case["reg"] == "laplacian":
      k[:] = rs.randint(-9, 10, size=(1, units))
      name = "constant"
    else:
      grid = np.indices(sizes).reshape(len(sizes), -1)
      for u in range(units):
        for d, s in enumerate(sizes):
          f = rs.randint(-4, 5, size=s)
          k[:, u] += f[grid[d]]
      name = "separable"
    return (k * scale).astype(np.float32), name
  rows = case["rows"]
  t = np.arange(rows - 1, dtype=np.float64)[:, None]
  a = rs.randint(-9, 10, size=(1, units)).astype(np.float64)
  b = rs.randint(-5, 6, size=(1, units)).astype(np.float64)
  c = rs.randint(-3, 4, size=(1, units)).astype(np.float64)
  if case["cyclic"] or case["reg"] == "laplacian":
    heights, name = 0 * t + 0 * b, "constant"
  elif case["reg"] == "hessian":
    heights, name = 0 * t + b, "linear"          # output = a + b*t
  else:
    heights, name = b + c * (2 * t + 1), "quadratic"   # a + b*t + c*t^2
  k = np.concatenate([a, heights], axis=0)
  return (k * scale).astype(np.float32), name


# ------------------------------------------------------------ library calls
def _spelled(case, l1, l2):
  sizes = list(case["sizes"])
  if case["spell"] in ("tuple_sizes", "tuple_both"):
    sizes = tuple(sizes)
  if case["spell"] in ("tuple_amounts", "tuple_both"):
    l1 = tuple(l1) if isinstance(l1, list) else l1
    l2 = tuple(l2) if isinstance(l2, list) else l2
  return sizes, l1, l2


def _scalar(v):
  if isinstance(v, (list, tuple)):
    return float(sum(float(np.asarray(x)) for x in v))
  return float(np.asarray(v))


def library_value(case, k32, l1, l2):
  import tensorflow as tf
  import tensorflow_lattice as tfl
  x = tf.constant(k32)
  units, reg, entry = case["units"], case["reg"], case["entry"]
  if case["family"] == "lattice":
    sizes, l1, l2 = _spelled(case, l1, l2)
    if entry == "lib":
      fn = (tfl.lattice_lib.laplacian_regularizer if reg == "laplacian" else
            tfl.lattice_lib.torsion_regularizer)
      return _scalar(fn(x, sizes, l1=l1, l2=l2))
    if entry == "class":
      cls = (tfl.lattice_layer.LaplacianRegularizer if reg == "laplacian" else
             tfl.lattice_layer.TorsionRegularizer)
      return _scalar(cls(lattice_sizes=sizes, l1=l1, l2=l2)(x))
    layer = tfl.layers.Lattice(lattice_sizes=sizes, units=units,
                               kernel_regularizer=(reg, l1, l2))
    d = len(sizes)
    layer.build((None, d) if units == 1 else (None, units, d))
    layer.kernel.assign(k32)
    return _scalar(layer.losses)
  if entry == "class":
    cls = {"laplacian": tfl.pwl_calibration_layer.LaplacianRegularizer,
           "hessian": tfl.pwl_calibration_layer.HessianRegularizer,
           "wrinkle": tfl.pwl_calibration_layer.WrinkleRegularizer}[reg]
    return _scalar(cls(l1=l1, l2=l2, is_cyclic=case["cyclic"])(x))
  nkp = case["rows"] + (1 if case["cyclic"] else 0)
  layer = tfl.layers.PWLCalibration(
      input_keypoints=np.linspace(0.0, 1.0, nkp).astype(np.float32),
      units=units, is_cyclic=case["cyclic"],
      kernel_regularizer=(reg, l1, l2))
  layer.build((None, units))
  if tuple(layer.kernel.shape) != k32.shape:
    raise AssertionError("PWL kernel shape %s != %s" % (layer.kernel.shape,
                                                       k32.shape))
  layer.kernel.assign(k32)
  return _scalar(layer.losses)


def _scaled(amount, c):
  if isinstance(amount, list):
    return [c * a for a in amount]
  return c * amount


def _is_zero(amount):
  return not any(_per_dim(amount, 1))


def _kind(amount):
  if isinstance(amount, list):
    return "list"
  return "scalar" if amount else "zero"


# ------------------------------------------------------------------ run_case
def run_case(case):
  out = Outcome()
  fam, reg, units = case["family"], case["reg"], case["units"]
  l1, l2 = case["l1"], case["l2"]
  lattice = fam == "lattice"
  shape = ((int(np.prod(case["sizes"])), units) if lattice else
           (case["rows"], units))
  vanish = None
  if case["kmode"] == "vanish":
    k32, vanish = vanishing_kernel(case)
  else:
    k32 = S.materialize(case["kernel"], shape)
  k64 = k32.astype(np.float64)

  out.label("%s:%s" % (fam, reg), "entry:" + case["entry"],
            "units:%d" % units, "amounts:l1=%s,l2=%s" % (_kind(l1), _kind(l2)),
            "kernel:" + (case["kernel"]["kind"] if vanish is None else
                         "vanish-" + vanish))
  sig = dict(family=fam, reg=reg)
  if lattice:
    sizes = case["sizes"]
    out.label("rank:%d" % len(sizes), "spell:" + case["spell"],
              "sizes:" + ("equal" if len(set(sizes)) == 1 else "unequal"))
    for a in (l1, l2):
      if isinstance(a, list) and any(a) and not all(a):
        out.label("amounts:zeros-in-some-dims")
    sig.update(units_gt1=units > 1,
               list_amounts=isinstance(l1, list) or isinstance(l2, list))
  else:
    out.label("cyclic" if case["cyclic"] else "non-cyclic",
              "rows:%s" % (case["rows"] if case["rows"] <= 4 else ">=5"))
    sig.update(cyclic=case["cyclic"])

  def ref(a1, a2):
    if lattice:
      return ref_lattice(reg, case["sizes"], k64, a1, a2)
    return ref_pwl(reg, k64, case["cyclic"], a1, a2)

  def lib(a1, a2):
    return library_value(case, k32, a1, a2)

  amax = max(_per_dim(l1, 1) + _per_dim(l2, 1))

  def tol(mag, nterms, c=1.0):
    return TOL_F * mag + 1e-36 * (nterms + 1) * (1.0 + c * amax)

  # ---- value against the float64 reference
  rv, rmag, nterms = ref(l1, l2)
  rv, rmag = float(rv), float(rmag)
  try:
    total = lib(l1, l2)
  except TypeError as e:
    if lattice and case["spell"] != "list":
      out.nontrivial = True
      out.label("exception")
      out.violate("%s regularizer raises TypeError for documented tuple "
                  "spelling %s with units=%d: %s" %
                  (reg, case["spell"], units, str(e)[:200]),
                  kind="exception", exc="TypeError", family=fam, reg=reg,
                  tuple_sizes=case["spell"] in ("tuple_sizes", "tuple_both"),
                  tuple_amounts=bool(
                      case["spell"] in ("tuple_amounts", "tuple_both") and
                      (isinstance(l1, list) or isinstance(l2, list))),
                  units_gt1=units > 1)
      return out
    raise
  out.checks += 1
  out.info.update(library=total, reference=rv, magnitude=rmag, terms=nterms)
  out.nontrivial = bool(rmag > 0 or (vanish is not None and np.any(k32 != 0)
                                     and not (_is_zero(l1) and _is_zero(l2))))
  if not np.isfinite(total):
    out.violate("regularizer value %r is not finite" % total, kind="finite",
                **sig)
    return out
  err = abs(total - rv)
  out.info["err_over_tol"] = err / tol(rmag, nterms)
  if err > tol(rmag, nterms):
    out.violate("%s %s regularizer returns %r, documented sum is %r "
                "(tolerance %.3g)" % (fam, reg, total, rv, tol(rmag, nterms)),
                kind="value", **sig)
  # ---- non-negativity (exact)
  out.checks += 1
  if total < 0:
    out.violate("regularizer value %r is negative" % total, kind="nonneg",
                **sig)
  # ---- vanishing cases (exactly representable kernels: exact)
  if vanish is not None:
    out.checks += 1
    if total != 0.0:
      out.violate("%s %s regularizer is %r on a %s kernel" %
                  (fam, reg, total, vanish), kind="vanish", vanish=vanish,
                  **sig)
  # ---- linearity in l1 and l2
  if _is_zero(l1) and _is_zero(l2):
    return out
  part1, part2 = lib(l1, 0.0), lib(0.0, l2)
  out.checks += 2
  if part1 < 0 or part2 < 0:
    out.violate("regularizer value %r / %r is negative" % (part1, part2),
                kind="nonneg", **sig)
  if abs(total - (part1 + part2)) > tol(rmag, nterms):
    out.violate("R(l1,l2)=%r differs from R(l1,0)+R(0,l2)=%r+%r" %
                (total, part1, part2), kind="additivity", **sig)
  c = case["factor"]
  for which, amount, base in (("l1", l1, part1), ("l2", l2, part2)):
    if _is_zero(amount):
      continue
    # per-dimension torsion amounts enter as products: degree 2.
    degree = 2 if (reg == "torsion" and isinstance(amount, list)) else 1
    a1, a2 = ((_scaled(amount, c), 0.0) if which == "l1" else
              (0.0, _scaled(amount, c)))
    scaled = lib(a1, a2)
    _, smag, _ = ref(a1, a2)
    out.checks += 1
    if abs(scaled - c ** degree * base) > tol(smag, nterms, c):
      out.violate("scaling %s by %g gives %r, expected %g * %r" %
                  (which, c, scaled, c ** degree, base), kind="scaling",
                  **sig)
  return out
