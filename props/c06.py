"""C06 - Linear / categorical weight constraints: signs, orderings, dominance, norm."""
import numpy as np
from hypothesis import strategies as st

from vlib import oracles as R
from vlib import strategies as S
from vlib.harness import Outcome, TOL_W, scale_of

ID = "C06"
TITLE = "Linear/categorical weight constraints enforce signs, orderings, dominance, norm"
RULE = ("Hypothesis draws either a Linear configuration (1-8 inputs, thorough "
        "12; monotonicity vectors, acyclic monotonic / range dominance graphs "
        "from a random linear extension - chains, diamonds, forests, shared "
        "parents, duplicate edges -, positive-width input ranges, "
        "normalization order None/1/2, units 1-3) or a CategoricalCalibration "
        "configuration (1-8 buckets, acyclic ordering pairs, bounds incl. "
        "zero width), a weight matrix (random mixture incl. ties and zeros, "
        "certified-feasible, feasible plus one injected violation) and an entry "
        "point (constraint object or the layer's kernel constraint). "
        "Non-trivial: a constraint is configured and the input violates one "
        "by > 10x tolerance (or its norm differs from 1), or the case is a "
        "non-zero feasible matrix; distinct by SHA-1 of the case.")
NT_FLOOR = 0.5
BUDGET = {"quick": 900, "thorough": 12000}
TECHNIQUE = ("property-based testing (Hypothesis): generated DAG configurations "
             "and weights against a float64 inequality oracle; KKT-certified "
             "feasible weights for the unchanged clause")
LEVEL_TEXT = ("Generated-input exploration of LinearConstraints and "
              "CategoricalCalibrationConstraints over random acyclic constraint "
              "graphs and weights: exact sign of every constrained weight, every "
              "dominance / ordering inequality, bounds, unit norm, and identity "
              "on feasible weights are evaluated per unit in float64.")
LEVEL_NOTE = ("Sign, ordering pairs and monotonic dominance are judged exactly "
              "(the projection only uses max/min/averages of the same values is "
              "not assumed: a 2e-5*S tolerance is used for averages), range "
              "dominance and norms with tolerance. Zero-width input ranges are "
              "the recorded finding F-C06-1 and generated only by the finding "
              "probe. Trusted: NumPy/SciPy (NNLS answers are KKT-certified).")


@st.composite
def _case(draw, tier):
  big = tier == "thorough"
  if draw(st.booleans()):
    cfg = draw(S.linear_config(max_dims=12 if big else 8))
    n = cfg["dims"]
    kind = "linear"
  else:
    n = draw(st.integers(1, 12 if big else 8))
    pairs = draw(S.dag_pairs(n, max_edges=8)) if n >= 2 else []
    bm = draw(st.sampled_from(["none", "min", "max", "both"]))
    lo = S.f32(draw(st.sampled_from([-10.0, -1.0, 0.0, 0.5, 100.0])))
    width = S.f32(draw(st.sampled_from([0.0, 0.5, 1.0, 1000.0])))
    cfg = {"buckets": n, "units": draw(st.integers(1, 3)), "pairs": pairs,
           "omin": lo if bm in ("min", "both") else None,
           "omax": S.f32(lo + width) if bm in ("max", "both") else None}
    kind = "categorical"
  return {"kind": kind, "cfg": cfg,
          "entry": draw(st.sampled_from(["constraint", "layer"])),
          "kmode": draw(st.sampled_from(["raw", "raw", "feasible",
                                         "feasible+viol"])),
          "weights": draw(S.array_desc(shape=(n, cfg["units"]))),
          "aux": draw(S.seeds)}


def strategy(tier):
  return _case(tier)


# ---------------------------------------------------------------- oracle
def rows_for(kind, cfg):
  """Cone rows (dict index->coef, row.w >= 0) + family tags."""
  rows = []
  if kind == "linear":
    lo = cfg["input_min"]
    hi = cfg["input_max"]
    for i, m in enumerate(cfg["mono"]):
      if m != 0:
        rows.append(("sign", {i: float(m)}))
    for a, b in cfg["mono_dom"]:
      rows.append(("mono_dom", {a: 1.0, b: -1.0}))
    for a, b in cfg["range_dom"]:
      s = float(cfg["mono"][a])
      rows.append(("range_dom", {a: s * (hi[a] - lo[a]),
                                 b: -s * (hi[b] - lo[b])}))
  else:
    for i, j in cfg["pairs"]:
      rows.append(("order", {i: -1.0, j: 1.0}))
  return rows


def measures(kind, cfg, w):
  """Largest violation per family for one unit (float64 vector w)."""
  res = {}
  for fam, r in rows_for(kind, cfg):
    v = -sum(c * w[i] for i, c in r.items())
    if fam == "range_dom":
      v = v / max(1.0, max(abs(c) for c in r.values()))
    res[fam] = max(res.get(fam, 0.0), v, 0.0)
  if kind == "categorical":
    b = 0.0
    if cfg["omin"] is not None:
      b = max(b, cfg["omin"] - w.min())
    if cfg["omax"] is not None:
      b = max(b, w.max() - cfg["omax"])
    res["bounds"] = float(b)
  return res


def _norm(w, order):
  return float(np.sum(np.abs(w))) if order == 1 else float(
      np.sqrt(np.sum(w * w)))


def feasible_weights(kind, cfg, raw, aux):
  rs = np.random.RandomState(aux)
  n, units = raw.shape
  rows = rows_for(kind, cfg)
  a = np.zeros((len(rows), n))
  for k, (_, r) in enumerate(rows):
    for i, c in r.items():
      a[k, i] = c
  out = np.zeros((n, units))
  for u in range(units):
    w0 = raw[:, u].astype(np.float64)
    if kind == "linear":
      w, info = R.project_cone(a, w0)
      if not info["certified"]:
        return None
      order = cfg["norm"]
      if order:
        nrm = _norm(w, order)
        if nrm < 1e-3 * max(1.0, float(np.max(np.abs(w0)))):
          # projection collapsed: use a strictly feasible direction instead.
          w = np.array([float(m) for m in cfg["mono"]]) * rs.uniform(0.5, 1)
          for _ in range(3):
            w, _ = R.project_cone(a, w + 0.0)
          nrm = _norm(w, order)
          if nrm < 1e-6:
            return None
        w = w / nrm
    else:
      g, h = [a], [np.zeros(a.shape[0])]
      lo, hi = cfg["omin"], cfg["omax"]
      if lo is not None and hi is not None and w0.max() > w0.min():
        p, q = sorted(rs.uniform(-0.2, 1.2, size=2))
        w0 = (w0 - w0.min()) / (w0.max() - w0.min()) * (q - p) * (hi - lo) + (
            lo + p * (hi - lo))
      if lo is not None:
        g.append(np.eye(n))
        h.append(np.full(n, lo))
      if hi is not None:
        g.append(-np.eye(n))
        h.append(np.full(n, -hi))
      w, info = R.project_polyhedron(np.vstack(g), np.concatenate(h), w0)
      if not info["certified"]:
        return None
    out[:, u] = w
  w32 = out.astype(np.float32)
  if kind == "categorical":
    if cfg["omin"] is not None:
      w32 = np.maximum(w32, np.float32(cfg["omin"]))
    if cfg["omax"] is not None:
      w32 = np.minimum(w32, np.float32(cfg["omax"]))
  return w32


def inject_violation(kind, cfg, w32, aux):
  rs = np.random.RandomState(aux + 1)
  rows = rows_for(kind, cfg)
  if not rows:
    return w32
  w = w32.astype(np.float64).copy()
  u = rs.randint(w.shape[1])
  fam, r = rows[rs.randint(len(rows))]
  sc = max(1.0, float(np.max(np.abs(w))))
  idx = max(r, key=lambda i: r[i])
  val = sum(c * w[i, u] for i, c in r.items())
  w[idx, u] -= (val + sc * abs(r[idx]) * rs.uniform(0.05, 1.0)) / r[idx]
  return w.astype(np.float32)


def apply_entry(case, w32):
  import tensorflow as tf
  import tensorflow_lattice as tfl
  cfg = case["cfg"]
  if case["kind"] == "linear":
    kw = S.linear_kwargs(cfg)
    if case["entry"] == "constraint":
      c = tfl.linear_layer.LinearConstraints(**kw)
      return c(tf.constant(w32)).numpy()
    layer = tfl.layers.Linear(num_input_dims=cfg["dims"], units=cfg["units"],
                              **kw)
    layer.build((None, cfg["dims"]) if cfg["units"] == 1 else
                (None, cfg["units"], cfg["dims"]))
    if layer.kernel.constraint is None:
      return w32
    return layer.kernel.constraint(tf.constant(w32)).numpy()
  mon = [tuple(p) for p in cfg["pairs"]] or None
  if case["entry"] == "constraint":
    c = tfl.categorical_calibration_layer.CategoricalCalibrationConstraints(
        output_min=cfg["omin"], output_max=cfg["omax"], monotonicities=mon)
    return c(tf.constant(w32)).numpy()
  layer = tfl.layers.CategoricalCalibration(
      num_buckets=cfg["buckets"], units=cfg["units"], output_min=cfg["omin"],
      output_max=cfg["omax"], monotonicities=mon)
  layer.build((None, cfg["units"]))
  if layer.kernel.constraint is None:
    return w32
  return layer.kernel.constraint(tf.constant(w32)).numpy()


def run_case(case):
  out = Outcome()
  kind, cfg = case["kind"], case["cfg"]
  n = cfg["dims"] if kind == "linear" else cfg["buckets"]
  units = cfg["units"]
  raw = S.materialize(case["weights"], (n, units))
  w32, feasible = raw, False
  if case["kmode"] != "raw":
    fw = feasible_weights(kind, cfg, raw, case["aux"])
    if fw is None:
      out.discard = "no-certified-feasible-weights"
      return out
    w32, feasible = fw, True
    if case["kmode"] == "feasible+viol":
      w32 = inject_violation(kind, cfg, fw, case["aux"])
      feasible = bool(np.array_equal(w32, fw))
  order = cfg.get("norm") if kind == "linear" else None
  out.label(kind, "entry:" + case["entry"], "kernel:" + case["kmode"],
            "units:%d" % units, "n:%d" % n)
  if kind == "linear":
    if cfg["mono_dom"]:
      out.label("mono-dominance")
    if cfg["range_dom"]:
      out.label("range-dominance")
    if order:
      out.label("norm:%d" % order)
  else:
    if cfg["pairs"]:
      out.label("ordering-pairs")
    if cfg["omin"] is not None or cfg["omax"] is not None:
      out.label("bounded")
  w64 = w32.astype(np.float64)
  s_in = scale_of(w64, cfg.get("omin"), cfg.get("omax"))
  in_viol = 0.0
  for u in range(units):
    in_viol = max([in_viol] + list(measures(kind, cfg, w64[:, u]).values()))

  res = apply_entry(case, w32).astype(np.float64)
  out.checks += 1
  sig = dict(layer=kind, normed=bool(order))
  if kind == "linear":
    sig["zero_width_range_dom"] = any(
        cfg["input_min"][i] == cfg["input_max"][i]
        for p in cfg["range_dom"] for i in p)
  if res.shape != (n, units) or not np.all(np.isfinite(res)):
    out.violate("result has shape %s / non-finite values: %s" % (
        res.shape, res.tolist()[:4]), kind="finite", **sig)
    return out
  s_out = scale_of(res, cfg.get("omin"), cfg.get("omax"))
  tol = TOL_W * s_out
  for u in range(units):
    m = measures(kind, cfg, res[:, u])
    for fam, v in m.items():
      out.checks += 1
      # sign and bounds are produced by clipping: exact claims.
      limit = 0.0 if fam in ("sign", "bounds") else tol
      if v > limit:
        out.violate("%s violated by %.3g (limit %.3g) in unit %d via %s" %
                    (fam, v, limit, u, case["entry"]), kind=fam, **sig)
    if order:
      nrm_in = _norm(w64[:, u], order)
      nrm = _norm(res[:, u], order)
      out.checks += 1
      if nrm > 1e-6 and abs(nrm - 1.0) > 1e-5:
        out.violate("norm of order %d is %.8g, not 1, in unit %d" %
                    (order, nrm, u), kind="norm", **sig)
      elif nrm <= 1e-6:
        out.label("norm:numerically-zero")
      if abs(nrm_in - 1.0) > 1e-3:
        in_viol = max(in_viol, 1.0 * s_in)
  if feasible:
    moved = float(np.max(np.abs(res - w64)))
    out.checks += 1
    out.info["moved_over_S"] = moved / s_in
    if moved > TOL_W * s_in:
      out.violate("feasible weights moved by %.3g (tolerance %.3g) via %s" %
                  (moved, TOL_W * s_in, case["entry"]), kind="unchanged", **sig)
    out.nontrivial = bool(np.any(w64 != 0))
  else:
    configured = bool(rows_for(kind, cfg)) or bool(order) or (
        kind == "categorical" and (cfg["omin"] is not None or
                                   cfg["omax"] is not None))
    out.nontrivial = bool(configured and in_viol > 10 * TOL_W * s_in)
  return out
