"""C06 - Linear / categorical weight constraints: signs, orderings, dominance, norm."""
import numpy as np
from hypothesis import strategies as st

from vlib import oracles as R
from vlib import strategies as S
from vlib.harness import Outcome, TOL_W, scale_of

ID = "C06"
TITLE = "Linear/categorical weight constraints enforce signs, orderings, dominance, norm"
RULE = ("Hypothesis draws either a Linear configuration (1-8 inputs, thorough "
        "12; monotonicity vectors, acyclic monotonic / range dominance graphs "
        "- random edges of a linear extension, or constructed chains, stars, "
        "diamond ladders, complete orders and chain closures over 3-8 nodes, "
        "or all families on one multi-unit layer -, positive-width input "
        "ranges 1e-3 .. 1e4, normalization order None/1/2/3/1.5/inf/"
        "'euclidean', units 1-3) or a CategoricalCalibration configuration "
        "(1-8 buckets, random or constructed acyclic ordering graphs, bounds "
        "incl. zero width), a spelling of the hyper-parameters (ints / "
        "strings / tuple / one scalar / None for monotonicities, None / 'none' "
        "/ tuple for input bounds, tuple / list pairs), a weight matrix (random "
        "mixture incl. ties and zeros, certified-feasible, feasible plus one "
        "injected violation of 0.05-1 S or of 1e-4-1e-3 S), an entry "
        "point (constraint object or the layer's kernel constraint) and an "
        "execution mode (eager tensor, tf.Variable, inside tf.function, "
        "float64 weights). "
        "Non-trivial: a constraint is configured and the input violates one "
        "by > 10x tolerance (or its norm differs from 1), or the case is a "
        "non-zero feasible matrix; distinct by SHA-1 of the case.")
NT_FLOOR = 0.5
BUDGET = {"quick": 900, "thorough": 12000}
TECHNIQUE = ("property-based testing (Hypothesis): generated DAG configurations "
             "and weights against a float64 inequality oracle; feasible weights "
             "for the unchanged clause from an NNLS projection (KKT-certified "
             "for categorical, moved into the cone exactly for Linear)")
LEVEL_TEXT = ("Generated-input exploration of LinearConstraints and "
              "CategoricalCalibrationConstraints over random acyclic constraint "
              "graphs and weights: exact sign of every constrained weight, every "
              "dominance / ordering inequality, bounds, unit norm, and identity "
              "on feasible weights are evaluated per unit in float64.")
LEVEL_NOTE = ("Sign, ordering pairs and monotonic dominance are judged exactly "
              "(the projection only uses max/min/averages of the same values is "
              "not assumed: a 2e-5*S tolerance is used for averages), range "
              "dominance and norms with tolerance. A column may keep a norm "
              "other than 1 only when its sign-clipped input has max-abs <= 1e-7 "
              "(the dominance averaging keeps at least a quarter of the largest "
              "clipped weight, the library's threshold is 1e-8); norm orders are "
              "the ones tf.norm documents for vectors. Zero-width input ranges "
              "are the recorded finding F-C06-1 and generated only by the finding "
              "probe. Trusted: NumPy/SciPy (categorical NNLS answers are "
              "KKT-certified; Linear ones are made feasible exactly: sign clip, "
              "weak scaled weights lowered to their dominants').")


# ------------------------------------------------------------- generator
GRAPH_KINDS = ["chain", "star_out", "star_in", "ladder", "complete", "closure"]
# widths of range-dominance inputs (strictly positive: zero width is F-C06-1)
RD_WIDTHS = [1e-3, 1e-3, 0.25, 1.0, 10.0, 1e4, 1e4]
NORM_ORDS = [None, None, None, None, "inf", 3, 1.5, "euclidean"]
MONO_SPELL = ["int", "int", "int", "str", "mixed", "tuple", "scalar", "scalar",
              "none-arg"]
BOUND_SPELL = ["list", "list", "none-str", "tuple", "tuple-none-str",
               "explicit"]
MONO_NAMES = {-1: "decreasing", 0: "none", 1: "increasing"}
EXEC_MODES = ["eager", "eager", "eager", "eager", "variable", "function",
              "float64"]


@st.composite
def _graph_pairs(draw, kind, nodes):
  """Constructed DAG over `nodes` (a drawn order): pairs [first, second]."""
  k = len(nodes)
  if kind == "chain":
    return [[nodes[i], nodes[i + 1]] for i in range(k - 1)]
  if kind == "star_out":
    return [[nodes[0], nodes[i]] for i in range(1, k)]
  if kind == "star_in":
    return [[nodes[i], nodes[-1]] for i in range(k - 1)]
  if kind == "ladder":      # 1 - 2 - 1 - 2 - ... layers, fully connected
    pairs, prev, i = [], [nodes[0]], 1
    while i < k:
      cur = nodes[i:i + (2 if len(prev) == 1 else 1)]
      pairs += [[a, b] for a in prev for b in cur]
      prev, i = cur, i + len(cur)
    return pairs
  if kind == "complete":
    nodes = nodes[:6]
    return [[nodes[i], nodes[j]] for i in range(len(nodes))
            for j in range(i + 1, len(nodes))]
  assert kind == "closure"
  pairs = [[nodes[i], nodes[i + 1]] for i in range(k - 1)]
  for i in range(k):
    for j in range(i + 2, k):
      if draw(st.booleans()):
        pairs.append([nodes[i], nodes[j]])
  return pairs


def graph_depth(pairs):
  """Longest path (in edges) of an acyclic pair list."""
  succ = {}
  for a, b in pairs:
    succ.setdefault(a, []).append(b)
  memo = {}

  def depth(v):
    if v not in memo:
      memo[v] = 1 + max([depth(x) for x in succ.get(v, [])] + [-1])
    return memo[v]
  return max([depth(v) for v in sorted(succ)] + [0])


def _grow(cfg, dims):
  while cfg["dims"] < dims:
    cfg["dims"] += 1
    cfg["mono"].append(0)
    cfg["input_min"].append(None)
    cfg["input_max"].append(None)


def _install(draw, cfg, fam, nodes, sign, pairs):
  """Puts a constructed dominance graph of one family on `nodes`."""
  other = "range_dom" if fam == "mono_dom" else "mono_dom"
  cfg[other] = [p for p in cfg[other] if p[0] not in nodes and
                p[1] not in nodes]
  cfg[fam] = [list(p) for p in pairs]
  for i in nodes:
    cfg["mono"][i] = sign
    if fam == "range_dom":
      lo = S.f32(draw(st.sampled_from([-100.0, -1.0, 0.0, 0.5, 3.0])))
      hi = S.f32(lo + draw(st.sampled_from(RD_WIDTHS)))
      assert hi > lo
      cfg["input_min"][i], cfg["input_max"][i] = lo, hi


@st.composite
def _linear(draw, big):
  top = 12 if big else 8
  cfg = draw(S.linear_config(max_dims=top))
  shape = draw(st.sampled_from(["asdrawn", "asdrawn", "asdrawn", "graph",
                                "graph", "allfam"]))
  gkind = None
  if shape == "graph":
    fam = draw(st.sampled_from(["mono_dom", "range_dom"]))
    gkind = draw(st.sampled_from(GRAPH_KINDS))
    k = draw(st.integers(3, top))
    _grow(cfg, k)
    nodes = list(draw(st.permutations(list(range(cfg["dims"])))))[:k]
    sign = 1 if fam == "mono_dom" else draw(st.sampled_from([1, -1]))
    cfg[fam] = []
    _install(draw, cfg, fam, nodes, sign, draw(_graph_pairs(gkind, nodes)))
  elif shape == "allfam":
    ka, kb = draw(st.integers(2, 3)), draw(st.integers(2, 3))
    _grow(cfg, ka + kb)
    perm = list(draw(st.permutations(list(range(cfg["dims"])))))
    cfg["mono_dom"], cfg["range_dom"] = [], []
    na, nb = perm[:ka], perm[ka:ka + kb]
    kinds = ["chain", "star_out", "star_in", "complete"]
    _install(draw, cfg, "mono_dom", na, 1,
             draw(_graph_pairs(draw(st.sampled_from(kinds)), na)))
    _install(draw, cfg, "range_dom", nb, draw(st.sampled_from([1, -1])),
             draw(_graph_pairs(draw(st.sampled_from(kinds)), nb)))
    cfg["norm"] = cfg["norm"] or draw(st.sampled_from([1, 2]))
    cfg["units"] = draw(st.integers(2, 3))
  entry = draw(st.sampled_from(["constraint", "layer"]))
  spell = {"mono": draw(st.sampled_from(MONO_SPELL)),
           "bounds": draw(st.sampled_from(BOUND_SPELL)),
           "pairs": draw(st.sampled_from(["tuple", "tuple", "list"])),
           "scalar_str": draw(st.booleans())}
  # the one-value / None spellings exist for the layer only and need a constant
  # vector: construct it (dominances keep their required directions).
  if spell["mono"] == "scalar":
    entry = "layer"
    if len(set(cfg["mono"])) > 1:
      # monotonic dominance needs increasing inputs; range dominance only
      # needs both inputs of a pair to share a (non-zero) direction.
      v = 1 if cfg["mono_dom"] else draw(st.sampled_from([-1, 1, 1]))
      cfg["mono"] = [v] * cfg["dims"]
  elif spell["mono"] == "none-arg":
    entry = "layer"
    cfg["mono"] = [0] * cfg["dims"]
    cfg["mono_dom"], cfg["range_dom"] = [], []
    cfg["norm"] = cfg["norm"] or draw(st.sampled_from([1, 2]))
  norm_ord = draw(st.sampled_from(NORM_ORDS)) if cfg["norm"] else None
  return cfg, entry, {"shape": shape, "graph": gkind, "spell": spell,
                      "norm_ord": norm_ord}


@st.composite
def _case(draw, tier):
  big = tier == "thorough"
  extra = {}
  if draw(st.booleans()):
    cfg, entry, extra = draw(_linear(big))
    n = cfg["dims"]
    kind = "linear"
  else:
    n = draw(st.integers(1, 12 if big else 8))
    gkind = draw(st.sampled_from(["random", "random"] + GRAPH_KINDS))
    if n < 3 or gkind == "random":
      gkind = None
      pairs = draw(S.dag_pairs(n, max_edges=8)) if n >= 2 else []
    else:
      k = draw(st.integers(3, n))
      nodes = list(draw(st.permutations(list(range(n)))))[:k]
      pairs = draw(_graph_pairs(gkind, nodes))
    bm = draw(st.sampled_from(["none", "min", "max", "both"]))
    lo = S.f32(draw(st.sampled_from([-10.0, -1.0, 0.0, 0.5, 100.0])))
    width = S.f32(draw(st.sampled_from([0.0, 0.5, 1.0, 1000.0])))
    cfg = {"buckets": n, "units": draw(st.integers(1, 3)), "pairs": pairs,
           "omin": lo if bm in ("min", "both") else None,
           "omax": S.f32(lo + width) if bm in ("max", "both") else None}
    kind = "categorical"
    entry = draw(st.sampled_from(["constraint", "layer"]))
    extra = {"graph": gkind,
             "spell": {"pairs": draw(st.sampled_from(["tuple", "list"]))}}
  case = {"kind": kind, "cfg": cfg, "entry": entry,
          "kmode": draw(st.sampled_from(["raw", "raw", "feasible",
                                         "feasible+viol", "feasible+tiny"])),
          "weights": draw(S.array_desc(shape=(n, cfg["units"]))),
          "aux": draw(S.seeds),
          "exec": draw(st.sampled_from(EXEC_MODES))}
  case.update(extra)
  return case


def strategy(tier):
  return _case(tier)


# ----------------------------------------------------- spelling / kwargs
def norm_order(case):
  """Order handed to normalization_order (None when no norm is configured)."""
  base = case["cfg"].get("norm") if case["kind"] == "linear" else None
  if not base:
    return None
  o = case.get("norm_ord")
  if o is None:
    return base
  return np.inf if o == "inf" else o


def linear_kwargs(case):
  """kwargs for Linear / LinearConstraints in the case's spelling.

  Same configuration as S.linear_kwargs(cfg) (used when the case carries no
  spelling, e.g. the recorded finding example); returns (kwargs, labels).
  """
  cfg, sp = case["cfg"], case.get("spell")
  if not sp:
    return S.linear_kwargs(cfg), []
  mono, labels = list(cfg["mono"]), []
  how = sp["mono"]
  if how == "scalar" and (case["entry"] != "layer" or len(set(mono)) != 1):
    how = "str"
  if how == "none-arg" and (case["entry"] != "layer" or any(mono)):
    how = "int"
  kw = {}
  if how == "scalar":
    kw["monotonicities"] = MONO_NAMES[mono[0]] if sp["scalar_str"] else mono[0]
  elif how == "none-arg":
    kw["monotonicities"] = None
  elif how == "str":
    kw["monotonicities"] = [MONO_NAMES[m] for m in mono]
  elif how == "mixed":
    kw["monotonicities"] = [MONO_NAMES[m] if i % 2 else m
                            for i, m in enumerate(mono)]
  elif how == "tuple":
    kw["monotonicities"] = tuple(mono)
  else:
    kw["monotonicities"] = mono
  labels.append("spell:mono=" + how)
  bs = sp["bounds"]
  for key in ("input_min", "input_max"):
    vals = list(cfg[key])
    if all(v is None for v in vals) and bs != "explicit":
      continue
    if bs in ("none-str", "tuple-none-str", "explicit"):
      vals = ["none" if v is None else v for v in vals]
    kw[key] = tuple(vals) if bs in ("tuple", "tuple-none-str") else vals
  if "input_min" in kw or "input_max" in kw:
    labels.append("spell:bounds=" + bs)
  conv = tuple if sp["pairs"] == "tuple" else list
  if cfg["mono_dom"]:
    kw["monotonic_dominances"] = [conv(p) for p in cfg["mono_dom"]]
  if cfg["range_dom"]:
    kw["range_dominances"] = [conv(p) for p in cfg["range_dom"]]
  if cfg["mono_dom"] or cfg["range_dom"]:
    labels.append("spell:pairs=" + sp["pairs"])
  order = norm_order(case)
  if order:
    kw["normalization_order"] = order
  return kw, labels


# ---------------------------------------------------------------- oracle
def rows_for(kind, cfg):
  """Cone rows (dict index->coef, row.w >= 0) + family tags."""
  rows = []
  if kind == "linear":
    lo = cfg["input_min"]
    hi = cfg["input_max"]
    for i, m in enumerate(cfg["mono"]):
      if m != 0:
        rows.append(("sign", {i: float(m)}))
    for a, b in cfg["mono_dom"]:
      rows.append(("mono_dom", {a: 1.0, b: -1.0}))
    for a, b in cfg["range_dom"]:
      s = float(cfg["mono"][a])
      rows.append(("range_dom", {a: s * (hi[a] - lo[a]),
                                 b: -s * (hi[b] - lo[b])}))
  else:
    for i, j in cfg["pairs"]:
      rows.append(("order", {i: -1.0, j: 1.0}))
  return rows


def measures(kind, cfg, w):
  """Largest violation per family for one unit (float64 vector w)."""
  res = {}
  for fam, r in rows_for(kind, cfg):
    v = -sum(c * w[i] for i, c in r.items())
    if fam == "range_dom":
      v = v / max(1.0, max(abs(c) for c in r.values()))
    res[fam] = max(res.get(fam, 0.0), v, 0.0)
  if kind == "categorical":
    b = 0.0
    if cfg["omin"] is not None:
      b = max(b, cfg["omin"] - w.min())
    if cfg["omax"] is not None:
      b = max(b, w.max() - cfg["omax"])
    res["bounds"] = float(b)
  return res


def _norm(w, order):
  """Vector norm of the orders tf.norm documents (1, 2, inf, p > 0, name)."""
  a = np.abs(np.asarray(w, np.float64))
  if order == 1:
    return float(np.sum(a))
  if order in (2, "euclidean"):
    return float(np.sqrt(np.sum(a * a)))
  if order == np.inf:
    return float(np.max(a)) if a.size else 0.0
  return float(np.sum(a ** float(order)) ** (1.0 / float(order)))


def _exactly_feasible(cfg, w):
  """Moves a nearly feasible Linear column (float64) INTO the cone.

  The NNLS answer is feasible up to its certification tolerance (1e-8 S in
  weight space); with input ranges 1e-3 .. 1e4 the same error is up to 1e7
  times larger in the range-scaled space the library projects in, so it is
  removed here: exact sign clip, then every weak input's scaled weight is
  lowered to the smallest scaled weight of its dominant inputs (dominant
  inputs first).  The result is feasible up to float64 rounding.
  """
  mono = np.array(cfg["mono"], np.float64)
  w = np.where(mono == 1, np.maximum(w, 0.0),
               np.where(mono == -1, np.minimum(w, 0.0), w))
  for fam in ("mono_dom", "range_dom"):
    pairs = [tuple(p) for p in cfg[fam]]
    if not pairs:
      continue
    nodes = sorted(set(i for p in pairs for i in p))
    coef = {i: 1.0 if fam == "mono_dom" else mono[i] * (
        cfg["input_max"][i] - cfg["input_min"][i]) for i in nodes}
    s = {i: w[i] * coef[i] for i in nodes}
    indeg = {i: sum(1 for p in set(pairs) if p[1] == i) for i in nodes}
    ready = [i for i in nodes if indeg[i] == 0]
    changed = set()
    while ready:
      v = ready.pop()
      for a, b in sorted(set(pairs)):
        if a == v:
          if s[b] > s[v]:
            s[b] = s[v]
            changed.add(b)
          indeg[b] -= 1
          if indeg[b] == 0:
            ready.append(b)
    for i in changed:
      w[i] = s[i] / coef[i]
  return w


def feasible_weights(kind, cfg, raw, aux, order=None):
  rs = np.random.RandomState(aux)
  n, units = raw.shape
  rows = rows_for(kind, cfg)
  a = np.zeros((len(rows), n))
  for k, (_, r) in enumerate(rows):
    top = max(abs(c) for c in r.values())   # same cone, rows of unit size
    for i, c in r.items():
      a[k, i] = c / top
  out = np.zeros((n, units))
  for u in range(units):
    w0 = raw[:, u].astype(np.float64)
    if kind == "linear":
      # the NNLS answer only has to be NEAR the cone (certified or not): the
      # next step puts it inside exactly.
      w, info = R.project_cone(a, w0)
      w = _exactly_feasible(cfg, w)
      if order:
        nrm = _norm(w, order)
        if nrm < 1e-3 * max(1.0, float(np.max(np.abs(w0)))):
          # projection collapsed: use a strictly feasible direction instead.
          # (unconstrained inputs get a random sign: any value is feasible)
          w = np.array([float(m) if m else float(rs.choice([-1.0, 1.0]))
                        for m in cfg["mono"]]) * rs.uniform(0.5, 1)
          for _ in range(3):
            w, _ = R.project_cone(a, w + 0.0)
          w = _exactly_feasible(cfg, w)
          nrm = _norm(w, order)
          if nrm < 1e-6:
            return None
        w = w / nrm
    else:
      g, h = [a], [np.zeros(a.shape[0])]
      lo, hi = cfg["omin"], cfg["omax"]
      if lo is not None and hi is not None and w0.max() > w0.min():
        p, q = sorted(rs.uniform(-0.2, 1.2, size=2))
        w0 = (w0 - w0.min()) / (w0.max() - w0.min()) * (q - p) * (hi - lo) + (
            lo + p * (hi - lo))
      if lo is not None:
        g.append(np.eye(n))
        h.append(np.full(n, lo))
      if hi is not None:
        g.append(-np.eye(n))
        h.append(np.full(n, -hi))
      w, info = R.project_polyhedron(np.vstack(g), np.concatenate(h), w0)
      if not info["certified"]:
        return None
    out[:, u] = w
  w32 = out.astype(np.float32)
  if kind == "categorical":
    if cfg["omin"] is not None:
      w32 = np.maximum(w32, np.float32(cfg["omin"]))
    if cfg["omax"] is not None:
      w32 = np.minimum(w32, np.float32(cfg["omax"]))
  return w32


def inject_violation(kind, cfg, w32, aux, tiny=False):
  """One constraint row of one unit is broken: by 0.05-1 S, or (tiny) by a
  measure of 1e-4 - 1e-3 S, i.e. 5 - 50 tolerances."""
  rs = np.random.RandomState(aux + 1)
  rows = rows_for(kind, cfg)
  if not rows:
    return w32
  w = w32.astype(np.float64).copy()
  u = rs.randint(w.shape[1])
  fam, r = rows[rs.randint(len(rows))]
  sc = max(1.0, float(np.max(np.abs(w))))
  idx = max(r, key=lambda i: r[i])
  val = sum(c * w[i, u] for i, c in r.items())
  if tiny:
    unit = max(1.0, max(abs(c) for c in r.values())) if fam == "range_dom" else 1.0
    w[idx, u] -= (val + sc * unit * rs.uniform(1e-4, 1e-3)) / r[idx]
  else:
    w[idx, u] -= (val + sc * abs(r[idx]) * rs.uniform(0.05, 1.0)) / r[idx]
  return w.astype(np.float32)


def apply_entry(case, w32):
  """Result of the constraint on w32 through the case's entry point and
  execution mode (eager tensor, tf.Variable, inside tf.function, float64)."""
  import tensorflow as tf
  import tensorflow_lattice as tfl
  cfg = case["cfg"]
  mode = case.get("exec", "eager")
  dtype = "float64" if mode == "float64" else "float32"
  lkw = {"dtype": dtype} if mode == "float64" else {}
  if case["kind"] == "linear":
    kw, _ = linear_kwargs(case)
    if case["entry"] == "constraint":
      c = tfl.linear_layer.LinearConstraints(**kw)
    else:
      kw.update(lkw)
      layer = tfl.layers.Linear(num_input_dims=cfg["dims"],
                                units=cfg["units"], **kw)
      layer.build((None, cfg["dims"]) if cfg["units"] == 1 else
                  (None, cfg["units"], cfg["dims"]))
      c = layer.kernel.constraint
  else:
    conv = list if (case.get("spell") or {}).get("pairs") == "list" else tuple
    mon = [conv(p) for p in cfg["pairs"]] or None
    if case["entry"] == "constraint":
      c = tfl.categorical_calibration_layer.CategoricalCalibrationConstraints(
          output_min=cfg["omin"], output_max=cfg["omax"], monotonicities=mon)
    else:
      layer = tfl.layers.CategoricalCalibration(
          num_buckets=cfg["buckets"], units=cfg["units"],
          output_min=cfg["omin"], output_max=cfg["omax"], monotonicities=mon,
          **lkw)
      layer.build((None, cfg["units"]))
      c = layer.kernel.constraint
  if c is None:
    return w32
  w = w32.astype(dtype)
  if mode == "variable":
    return c(tf.Variable(w)).numpy()
  if mode == "function":
    fn = tf.function(lambda t: c(t), autograph=False,
                     input_signature=[tf.TensorSpec(w.shape, dtype)])
    return fn(tf.constant(w)).numpy()
  return c(tf.constant(w)).numpy()


def run_case(case):
  out = Outcome()
  kind, cfg = case["kind"], case["cfg"]
  n = cfg["dims"] if kind == "linear" else cfg["buckets"]
  units = cfg["units"]
  raw = S.materialize(case["weights"], (n, units))
  w32, feasible = raw, False
  if case["kmode"] != "raw":
    fw = feasible_weights(kind, cfg, raw, case["aux"], norm_order(case))
    if fw is None:
      out.discard = "no-certified-feasible-weights"
      return out
    w32, feasible = fw, True
    if case["kmode"] in ("feasible+viol", "feasible+tiny"):
      w32 = inject_violation(kind, cfg, fw, case["aux"],
                             tiny=case["kmode"] == "feasible+tiny")
      feasible = bool(np.array_equal(w32, fw))
  order = norm_order(case)
  out.label(kind, "entry:" + case["entry"], "kernel:" + case["kmode"],
            "units:%d" % units, "n:%d" % n,
            "exec:" + case.get("exec", "eager"))
  if kind == "linear":
    out.label(*linear_kwargs(case)[1])
    if cfg["mono_dom"]:
      out.label("mono-dominance")
    if cfg["range_dom"]:
      out.label("range-dominance")
      rd = sorted(set(i for p in cfg["range_dom"] for i in p))
      wd = [cfg["input_max"][i] - cfg["input_min"][i] for i in rd]
      if cfg["mono"][rd[0]] == -1:
        out.label("range-dominance:decreasing")
      if min(wd) > 0 and min(wd) < 5e-3:
        out.label("range-width<=1e-3")
      if min(wd) > 0 and max(wd) / min(wd) >= 1e6:
        out.label("range-ratio>=1e6")
    if cfg["mono_dom"] and cfg["range_dom"] and order and units > 1:
      out.label("all-families")
    if order in (1, 2):
      out.label("norm:%d" % order)
    elif order:
      out.label("norm:%s" % order)
    graph = cfg["mono_dom"] + cfg["range_dom"]
  else:
    if cfg["pairs"]:
      out.label("ordering-pairs")
      if (case.get("spell") or {}).get("pairs") == "list":
        out.label("spell:pairs=list")
    if cfg["omin"] is not None or cfg["omax"] is not None:
      out.label("bounded")
    graph = cfg["pairs"]
  if case.get("graph"):
    out.label("graph:" + case["graph"])
  if graph:
    dep = graph_depth(graph)
    out.label("graph-depth:%s" % (dep if dep < 5 else "5+"))
  w64 = w32.astype(np.float64)
  s_in = scale_of(w64, cfg.get("omin"), cfg.get("omax"))
  in_viol = 0.0
  for u in range(units):
    in_viol = max([in_viol] + list(measures(kind, cfg, w64[:, u]).values()))

  res = apply_entry(case, w32).astype(np.float64)
  out.checks += 1
  sig = dict(layer=kind, normed=bool(order))
  if kind == "linear":
    sig["zero_width_range_dom"] = any(
        cfg["input_min"][i] == cfg["input_max"][i]
        for p in cfg["range_dom"] for i in p)
  if res.shape != (n, units) or not np.all(np.isfinite(res)):
    out.violate("result has shape %s / non-finite values: %s" % (
        res.shape, res.tolist()[:4]), kind="finite", **sig)
    return out
  s_out = scale_of(res, cfg.get("omin"), cfg.get("omax"))
  tol = TOL_W * s_out
  for u in range(units):
    m = measures(kind, cfg, res[:, u])
    for fam, v in m.items():
      out.checks += 1
      # sign and bounds are produced by clipping: exact claims.
      limit = 0.0 if fam in ("sign", "bounds") else tol
      if v > limit:
        out.violate("%s violated by %.3g (limit %.3g) in unit %d via %s" %
                    (fam, v, limit, u, case["entry"]), kind=fam, **sig)
    if order:
      nrm_in = _norm(w64[:, u], order)
      nrm = _norm(res[:, u], order)
      # "numerically zero" is decided on the INPUT: the sign-clipped column.
      # Dominance averaging keeps >= 1/4 of its largest entry and every norm
      # order >= 1 is >= the largest entry, so above 1e-7 the library's own
      # threshold (1e-8) cannot apply and the result must have norm 1.
      mono = np.array(cfg["mono"])
      col = w64[:, u]
      clipped = np.where(mono == 1, np.maximum(col, 0),
                         np.where(mono == -1, np.minimum(col, 0), col))
      top_in = float(np.max(np.abs(clipped)))
      out.checks += 1
      if nrm > 1e-6 and abs(nrm - 1.0) > 1e-5:
        out.violate("norm of order %s is %.8g, not 1, in unit %d" %
                    (order, nrm, u), kind="norm", **sig)
      elif nrm <= 1e-6 and top_in > 1e-7:
        out.violate("norm of order %s is %.3g in unit %d although the "
                    "sign-clipped input column has max-abs %.3g > 1e-7" %
                    (order, nrm, u, top_in), kind="norm", **sig)
      elif nrm <= 1e-6:
        out.label("norm:numerically-zero")
      elif top_in <= 1e-5:
        out.label("norm:tiny-input-normalised")
      if abs(nrm_in - 1.0) > 1e-3:
        in_viol = max(in_viol, 1.0 * s_in)
  if feasible:
    moved = float(np.max(np.abs(res - w64)))
    out.checks += 1
    out.info["moved_over_S"] = moved / s_in
    if moved > TOL_W * s_in:
      out.violate("feasible weights moved by %.3g (tolerance %.3g) via %s" %
                  (moved, TOL_W * s_in, case["entry"]), kind="unchanged", **sig)
    out.nontrivial = bool(np.any(w64 != 0))
  else:
    configured = bool(rows_for(kind, cfg)) or bool(order) or (
        kind == "categorical" and (cfg["omin"] is not None or
                                   cfg["omax"] is not None))
    out.nontrivial = bool(configured and in_viol > 10 * TOL_W * s_in)
  return out
