"""C16 - configurations are rejected up front or handled totally and finitely.

Three oracles over generated constructor arguments (valid base configuration
plus 0-2 mutations):
 (a) a configuration that breaks a rule the statement / a `Raises:` docstring /
     a verify_hyperparameters or verify_config check names ("listed") must be
     rejected with ValueError (KeyError for RTL input keys, as documented),
     raised by tensorflow_lattice code itself, at construction or build (see
     LATEST_STAGE for the three rules the library checks later);
 (b) everything else may be rejected with ValueError at construction/build, but
     if construction + build succeed, constraint application on generated
     finite weights and evaluation on generated finite inputs must not raise and
     must return finite values; any other exception type is a violation;
 (c) synonymous spellings configure bit-identical behaviour.
"""
import copy
import json

import numpy as np
from hypothesis import strategies as st

from vlib import models as M
from vlib import strategies as S
from vlib.harness import Outcome, hash32

ID = "C16"
TITLE = "Configurations are either rejected up front or handled totally and finitely"
RULE = ("Hypothesis draws a layer kind (Lattice, LatticeConstraints, "
        "PWLCalibration, Linear, CategoricalCalibration, "
        "KroneckerFactoredLattice, RTL, CDF, premade configs incl. "
        "AggregateFunctionConfig), a valid base "
        "configuration (PWL: fixed or learned interior keypoints) and 0-2 "
        "mutations from a per-kind table, the row chosen by a hash of the "
        "drawn content so that every row is reached: mutations that "
        "break a listed rule (size < 2, monotone+unimodal, trust on "
        "non-monotone main, main==conditional, dominance between non-monotone "
        "features or in both directions, non-integer / out-of-range "
        "constraint dimensions, tuples of the wrong length, wrong list "
        "lengths (monotonicities, unimodalities, list-of-tensors input), "
        "units > 1 with a rank-2 input (Lattice, Linear, KFL), "
        "output_min > output_max, input_min > input_max on a constrained "
        "Linear, unsorted keypoints, cyclic with "
        "monotonicity, malformed premade configs (every rule of "
        "premade_lib.verify_config), ...) and unlisted odd "
        "spellings (tuples and tuples of tuples, numpy scalars, int / "
        "np.float32 Linear bounds, list-of-tensors input, duplicated "
        "constraints, zero "
        "iterations, degenerate ranges, equal bounds, self-dominance, ...); "
        "at most one listed mutation, applied last; or a synonym "
        "pair of one layer (strings / integers, single tuple / one-element "
        "list, tuple / list containers, numpy / list keypoints, 'none' / "
        "None bounds, list / tuple category pairs) or of one premade model "
        "config (integer / string monotonicity, convexity, unimodality, "
        "trust direction). Accepted configurations get generated finite "
        "weights (|w| <= "
        "1e3) and inputs. Non-trivial: the case reaches oracle (a) with a "
        "listed-invalid configuration, or reaches projection + evaluation in "
        "(b), or compares two different spellings in (c); distinct by SHA-1.")
NT_FLOOR = 0.6
FUZZ = {"thorough": 30000}   # atheris executions per shard (thorough tier)
BUDGET = {"quick": 900, "thorough": 10000}
TECHNIQUE = ("property-based testing (Hypothesis) + coverage-guided fuzzing "
             "(atheris, thorough tier) of constructor arguments: "
             "reject-or-total oracle and metamorphic synonym pairs")
LEVEL_TEXT = ("Generated-input exploration of the constructor / build / "
              "projection / evaluation pipeline of every layer kind with valid, "
              "listed-invalid and odd-but-unlisted arguments; the oracle is the "
              "statement's dichotomy (ValueError raised by the library's own "
              "validation at construction / build, or total and finite) "
              "plus bit-identity of synonymous spellings, for single layers "
              "and for whole premade models. The thorough tier adds "
              "an atheris campaign that decodes bytes into the same cases.")
LEVEL_NOTE = ("Only rules named in the statement, in a Raises: docstring or in "
              "a verify_hyperparameters / verify_config check are "
              "demanded to be rejected (table in DESIGN C16). A listed "
              "rejection must be a ValueError (KeyError for RTL input keys) "
              "whose raising frame is tensorflow_lattice code (traceback "
              "filtering is switched off while a case runs), at construction "
              "or build; three rules are checked later by the library and "
              "are accepted up to that stage: CDF option strings (first "
              "call), a Linear dominance cycle and the documented "
              "late rejection 'clamping without monotonicity' (first "
              "projection; the latter at any stage). Weights and inputs are "
              "bounded by 1e3 so that float overflow is excluded. Open finding "
              "F-C06-1 (zero-width range in a Linear range dominance -> NaN) is "
              "matched by signature. Two generator options are switched off "
              "because they hit candidate defects reported separately: an "
              "out-of-range / non-integer joint-unimodality dimension given to "
              "the Lattice layer (IndexError / TypeError in its constructor; "
              "still generated for LatticeConstraints) and one trust argument "
              "as a tuple of tuples while the other is a list or None "
              "(TypeError in verify_hyperparameters).")

T = lambda *a: {"t": list(a)}          # JSON spelling of a tuple


def decode(o):
  if isinstance(o, dict):
    if set(o.keys()) == {"t"}:
      return tuple(decode(v) for v in o["t"])
    if set(o.keys()) == {"np_int"}:
      return np.int64(o["np_int"])
    if set(o.keys()) == {"np_arr"}:
      return np.array(o["np_arr"])
    if set(o.keys()) == {"np_f32"}:
      return np.float32(o["np_f32"])
    return {k: decode(v) for k, v in o.items()}
  if isinstance(o, list):
    return [decode(v) for v in o]
  return o


# ====================================================================
# base configurations (valid) per kind, as JSON kwargs
@st.composite
def base_lattice(draw):
  sizes = draw(S.lattice_sizes(max_rank=3, max_size=3, max_weights=27))
  cfg = draw(S.lattice_config(sizes))
  kw = {"lattice_sizes": list(sizes), "units": draw(st.sampled_from([1, 1, 2])),
        "monotonicities": list(cfg["mono"]),
        "unimodalities": list(cfg["unimod"]) if any(cfg["unimod"]) else None,
        "edgeworth_trusts": [T(*t) for t in cfg["ew"]] or None,
        "trapezoid_trusts": [T(*t) for t in cfg["tz"]] or None,
        "monotonic_dominances": [T(*t) for t in cfg["mdom"]] or None,
        "range_dominances": [T(*t) for t in cfg["rdom"]] or None,
        "joint_monotonicities": [T(*t) for t in cfg["jmono"]] or None,
        "joint_unimodalities": [T(T(*d), s) for d, s in cfg["junimod"]] or None,
        "output_min": cfg["omin"], "output_max": cfg["omax"],
        "num_projection_iterations": draw(st.sampled_from([0, 1, 3])),
        "interpolation": draw(st.sampled_from(["hypercube", "simplex"]))}
  return kw


@st.composite
def base_pwl(draw):
  c = draw(S.pwl_config(max_k=5))
  # learned interior keypoints are a base option (documented for every
  # configuration without convexity), so that they meet cyclic, clamps,
  # missing values and units > 1 on the accepted path.
  kp_type = "fixed"
  if c["conv"] == 0 and draw(st.sampled_from([0, 0, 1])):
    kp_type = "learned_interior"
  return {"input_keypoints": list(c["keypoints"]), "units": c["units"],
          "output_min": c["omin"], "output_max": c["omax"],
          "clamp_min": c["clamp_min"], "clamp_max": c["clamp_max"],
          "monotonicity": c["mono"], "convexity": c["conv"],
          "is_cyclic": c["cyclic"],
          "num_projection_iterations": draw(st.sampled_from([0, 1, 4])),
          "impute_missing": False, "input_keypoints_type": kp_type}


@st.composite
def base_linear(draw):
  c = draw(S.linear_config(max_dims=4))
  kw = S.linear_kwargs(c)
  out = {"num_input_dims": c["dims"], "units": c["units"],
         "monotonicities": kw["monotonicities"],
         "input_min": kw.get("input_min"), "input_max": kw.get("input_max"),
         "monotonic_dominances": [T(*p) for p in c["mono_dom"]] or None,
         "range_dominances": [T(*p) for p in c["range_dom"]] or None,
         "normalization_order": c["norm"], "use_bias": c["use_bias"]}
  return out


@st.composite
def base_categorical(draw):
  n = draw(st.integers(1, 5))
  pairs = draw(S.dag_pairs(n, max_edges=3)) if n >= 2 else []
  bm = draw(st.sampled_from(["none", "both", "min"]))
  return {"num_buckets": n, "units": draw(st.sampled_from([1, 2])),
          "monotonicities": [T(*p) for p in pairs] or None,
          "output_min": 0.0 if bm != "none" else None,
          "output_max": 1.0 if bm == "both" else None,
          "default_input_value": draw(st.sampled_from([None, -1]))}


@st.composite
def base_kfl(draw):
  from props.c07 import kfl_config
  c = draw(kfl_config())
  return {"lattice_sizes": c["size"], "units": c["units"],
          "num_terms": c["terms"], "dims": c["dims"],
          "monotonicities": list(c["mono"]) if any(c["mono"]) else None,
          "output_min": c["omin"], "output_max": c["omax"],
          "clip_inputs": c["clip"]}


@st.composite
def base_rtl(draw):
  n_inc = draw(st.integers(0, 3))
  n_un = draw(st.integers(0 if n_inc else 1, 3))
  rank = draw(st.integers(1, min(3, n_inc + n_un)))
  nl = draw(st.integers(1, 4))
  while nl * rank < n_inc + n_un:
    nl += 1
  param = draw(st.sampled_from(["all_vertices", "all_vertices",
                                "kronecker_factored"]))
  bm = draw(st.booleans())
  return {"num_lattices": nl, "lattice_rank": rank,
          "lattice_size": draw(st.integers(2, 3)), "n_inc": n_inc, "n_un": n_un,
          "output_min": 0.0 if bm else None, "output_max": 1.0 if bm else None,
          "parameterization": param,
          "kernel_initializer": "random_monotonic_initializer" if param ==
          "all_vertices" else "kfl_random_monotonic_initializer",
          "interpolation": draw(st.sampled_from(["hypercube", "simplex"])),
          "random_seed": draw(st.integers(0, 99)),
          "separate_outputs": draw(st.booleans()), "kernel_regularizer": None}


@st.composite
def base_cdf(draw):
  sf = draw(st.sampled_from([1, 1, 2]))
  return {"num_keypoints": draw(st.integers(1, 5)),
          "units": sf * draw(st.integers(1, 2)),
          "input_dim": sf * draw(st.integers(1, 3)),
          "activation": draw(st.sampled_from(["relu6", "sigmoid"])),
          "reduction": draw(st.sampled_from(["mean", "geometric_mean", "none"])),
          "input_scaling_type": draw(st.sampled_from(
              ["fixed", "learned_shared", "learned_per_input"])),
          "sparsity_factor": sf}


BASES = {"lattice": base_lattice, "lattice_constraints": base_lattice,
         "pwl": base_pwl, "linear": base_linear,
         "categorical": base_categorical, "kfl": base_kfl, "rtl": base_rtl,
         "cdf": base_cdf}

# ====================================================================
# mutations: id -> (kind(s), listed?, function(draw, kw) -> kw or None)


def _dims(kw):
  return len(kw["lattice_sizes"])


def _lat_grow(kw, d_min=2):
  """Appends unconstrained size-2 dimensions until the lattice has d_min of
  them, so that a pairwise mutation is always applicable (construct, do not
  filter)."""
  while len(kw["lattice_sizes"]) < d_min:
    kw["lattice_sizes"] = list(kw["lattice_sizes"]) + [2]
    kw["monotonicities"] = list(kw["monotonicities"]) + [0]
    if kw["unimodalities"]:
      kw["unimodalities"] = list(kw["unimodalities"]) + [0]
  return len(kw["lattice_sizes"])


def _lat_free_pair(draw, kw):
  """Two different dimensions (a, b) made monotone and freed from
  unimodality constraints."""
  d = _lat_grow(kw)
  a = draw(st.integers(0, d - 1))
  b = draw(st.integers(0, d - 2))
  b = b if b < a else b + 1
  kw["monotonicities"][a] = kw["monotonicities"][b] = 1
  if kw["unimodalities"]:
    kw["unimodalities"][a] = kw["unimodalities"][b] = 0
  kw["joint_unimodalities"] = None
  return a, b


def m_lat_size_lt2(draw, kw):
  i = draw(st.integers(0, _dims(kw) - 1))
  kw["lattice_sizes"][i] = draw(st.sampled_from([1, 0, -1]))
  return kw


def m_lat_mono_and_unimod(draw, kw):
  d = _dims(kw)
  i = draw(st.integers(0, d - 1))
  kw["monotonicities"] = list(kw["monotonicities"] or [0] * d)
  kw["monotonicities"][i] = 1
  u = list(kw["unimodalities"] or [0] * d)
  u[i] = draw(st.sampled_from([1, -1, "valley", "peak"]))
  kw["unimodalities"] = u
  return kw


def m_lat_trust_nonmono_main(draw, kw):
  d = _lat_grow(kw)
  m = draw(st.integers(0, d - 1))
  c = draw(st.integers(0, d - 2))
  c = c if c < m else c + 1
  kw["monotonicities"][m] = 0
  key = draw(st.sampled_from(["edgeworth_trusts", "trapezoid_trusts"]))
  kw[key] = (kw[key] or []) + [T(m, c, 1)]
  return kw


def m_lat_main_and_cond(draw, kw):
  """A feature that is the main feature of one trust and the conditional
  feature of another: the direct reversal (a,b),(b,a) or a chain through a
  third feature (a,b),(b,c), listed in either order and possibly split between
  the Edgeworth and the trapezoid list."""
  chain = draw(st.booleans())
  d = _lat_grow(kw, 3 if chain else 2)
  dims = draw(st.permutations(list(range(d))))
  a, b = dims[0], dims[1]
  kw["monotonicities"] = list(kw["monotonicities"])
  kw["monotonicities"][a] = kw["monotonicities"][b] = 1
  kw["unimodalities"] = None
  kw["joint_unimodalities"] = None
  if chain:
    c = dims[2]
    kw["monotonicities"][c] = draw(st.sampled_from([0, 1]))
    pair = [T(a, b, draw(st.sampled_from([1, -1]))),
            T(b, c, draw(st.sampled_from([1, -1])))]
  else:
    pair = [T(a, b, 1), T(b, a, 1)]
  if draw(st.booleans()):
    pair = pair[::-1]
  where = draw(st.sampled_from(["ew", "ew", "tz", "split"]))
  if where == "ew":
    kw["edgeworth_trusts"], kw["trapezoid_trusts"] = pair, None
  elif where == "tz":
    kw["edgeworth_trusts"], kw["trapezoid_trusts"] = None, pair
  else:
    kw["edgeworth_trusts"], kw["trapezoid_trusts"] = [pair[0]], [pair[1]]
  return kw


def m_lat_dom_nonmono(draw, kw):
  d = _lat_grow(kw)
  a = draw(st.integers(0, d - 1))
  b = draw(st.integers(0, d - 2))
  b = b if b < a else b + 1
  kw["monotonicities"][draw(st.sampled_from([a, b]))] = 0
  key = draw(st.sampled_from(["monotonic_dominances", "range_dominances"]))
  kw[key] = [T(a, b)]
  return kw


def m_omin_gt_omax(draw, kw):
  kw["output_min"], kw["output_max"] = 2.0, 1.0
  return kw


def m_lat_mono_len(draw, kw):
  kw["monotonicities"] = list(kw["monotonicities"]) + [0]
  return kw


def m_lat_unimod_small(draw, kw):
  d = _dims(kw)
  i = draw(st.integers(0, d - 1))
  kw["lattice_sizes"][i] = 2
  kw["monotonicities"][i] = 0
  u = list(kw["unimodalities"] or [0] * d)
  u[i] = 1
  kw["unimodalities"] = u
  return kw


def m_lat_bad_mono_value(draw, kw):
  i = draw(st.integers(0, _dims(kw) - 1))
  kw["monotonicities"][i] = draw(st.sampled_from(["decreasing", -1, 2, "up"]))
  return kw


def m_bad_interpolation(draw, kw):
  kw["interpolation"] = draw(st.sampled_from(["linear", "Hypercube", ""]))
  return kw


def m_lat_opposite_trusts(draw, kw):
  d = _lat_grow(kw)
  a = draw(st.integers(0, d - 1))
  b = draw(st.integers(0, d - 2))
  b = b if b < a else b + 1
  kw["monotonicities"][a] = 1
  kw["edgeworth_trusts"] = [T(a, b, 1)]
  kw["trapezoid_trusts"] = [T(a, b, -1)]
  return kw


def m_lat_trust_malformed(draw, kw):
  d = _lat_grow(kw)
  kw["monotonicities"][0] = 1
  kw["edgeworth_trusts"] = [draw(st.sampled_from(
      [T(0, 1), T(0, 1, 0), T(0, 1, "up"), T(0, 1, 1, 1)]))]
  return kw


def m_lat_dims_out_of_range(draw, kw):
  d = _dims(kw)
  kw["monotonicities"] = [1] * d
  key = draw(st.sampled_from(["edgeworth_trusts", "monotonic_dominances",
                              "joint_monotonicities"]))
  bad = draw(st.sampled_from([d, d + 3, -1]))
  kw[key] = [T(0, bad, 1)] if key == "edgeworth_trusts" else [T(0, bad)]
  return kw


def m_lat_junimod_bad(draw, kw):
  d = _dims(kw)
  which = draw(st.sampled_from(["monotone", "small", "repeat", "direction"]))
  kw["lattice_sizes"] = [max(3, s) for s in kw["lattice_sizes"]]
  kw["monotonicities"] = [0] * d
  kw["unimodalities"] = None
  for k in ("edgeworth_trusts", "trapezoid_trusts", "monotonic_dominances",
            "range_dominances"):
    kw[k] = None
  if which == "monotone":
    kw["monotonicities"][0] = 1
    kw["joint_unimodalities"] = [T(T(0), "valley")]
  elif which == "small":
    kw["lattice_sizes"][0] = 2
    kw["joint_unimodalities"] = [T(T(0), "peak")]
  elif which == "repeat":
    kw["joint_unimodalities"] = [T(T(0, 0), "valley")]
  else:
    kw["joint_unimodalities"] = [T(T(0), "up")]
  return kw


def m_lat_units_rank(draw, kw):
  kw["units"] = 3
  kw["_input_rank2"] = True
  return kw


def m_lat_unimod_len(draw, kw):
  # "If provided 'unimodalities' should have same number of elements as
  # 'lattice_sizes'" (lattice_lib.verify_hyperparameters).
  d = _dims(kw)
  u = list(kw["unimodalities"] or [0] * d)
  if draw(st.booleans()) or d == 1:
    u = u + [0]
  else:
    u = u[:-1]
  kw["unimodalities"] = u
  return kw


def m_lat_opposite_dominance(draw, kw):
  # "Cannot have two ... dominance constraints on the same pair of features
  # conflicting" (_verify_dominances_hyperparameters).
  a, b = _lat_free_pair(draw, kw)
  key = draw(st.sampled_from(["monotonic_dominances", "range_dominances"]))
  kw[key] = [T(a, b), T(b, a)]
  return kw


# Candidate defect (see the widening report, /tmp/scratch/widen/C16-defect-1.py):
# tfl.layers.Lattice indexes all_unimodalities[dim] in its constructor before
# joint_unimodalities are verified, so an out-of-range / non-int joint
# unimodality dimension raises IndexError / TypeError instead of the listed
# ValueError.  LatticeConstraints is not affected and keeps these cases.
GEN_LATTICE_LAYER_JUNIMOD_BAD_DIM = True


def m_lat_nonint_dim(draw, kw, layer=False):
  # "... dimensions must be integers" for trusts, dominances, joint
  # monotonicities and joint unimodalities.
  a, b = _lat_free_pair(draw, kw)
  key = draw(st.sampled_from(
      ["edgeworth_trusts", "trapezoid_trusts", "monotonic_dominances",
       "range_dominances", "joint_monotonicities"] +
      (["joint_unimodalities"] if not layer or
       GEN_LATTICE_LAYER_JUNIMOD_BAD_DIM else [])))
  fa, fb = (float(a), b) if draw(st.booleans()) else (a, float(b))
  if key.endswith("trusts"):
    kw["edgeworth_trusts"] = kw["trapezoid_trusts"] = None
    kw[key] = [T(fa, fb, 1)]
  elif key == "joint_unimodalities":
    kw["lattice_sizes"][a] = max(3, kw["lattice_sizes"][a])
    kw["monotonicities"][a] = 0
    for k in ("edgeworth_trusts", "trapezoid_trusts", "monotonic_dominances",
              "range_dominances"):
      kw[k] = None
    kw[key] = [T(T(float(a)), "valley")]
  else:
    kw[key] = [T(fa, fb)]
  return kw


def m_lat_jmono_len(draw, kw):
  # "Joint monotonicities constraints must consist of 2 elements".
  d = _lat_grow(kw)
  kw["joint_monotonicities"] = [draw(st.sampled_from(
      [T(0), T(0, 1, 1), T(0, 1, d - 1)]))]
  return kw


def m_lat_nonint_dim_layer(draw, kw):
  return m_lat_nonint_dim(draw, kw, layer=True)


def m_lat_junimod_range(draw, kw, layer=False):
  # "Dimension constrained by joint unimodality is not within the range of
  # the lattice".
  d = _dims(kw)
  kw["lattice_sizes"] = [max(3, s) for s in kw["lattice_sizes"]]
  kw["monotonicities"] = [0] * d
  kw["unimodalities"] = None
  for k in ("edgeworth_trusts", "trapezoid_trusts", "monotonic_dominances",
            "range_dominances"):
    kw[k] = None
  bad = draw(st.sampled_from(
      [d, d + 2, -1] if not layer or GEN_LATTICE_LAYER_JUNIMOD_BAD_DIM else
      [-1]))
  kw["joint_unimodalities"] = [draw(st.sampled_from(
      [T(T(bad), "valley"), T(T(0, bad), "peak")]))]
  return kw


def m_lat_junimod_range_layer(draw, kw):
  return m_lat_junimod_range(draw, kw, layer=True)


def m_lat_list_len(draw, kw):
  # "If lattice input is provided as list of tensors their number must match
  # lattice_sizes" (checked at build).
  d = _dims(kw)
  kw["_input_list"] = draw(st.sampled_from([d + 1, d + 1, d - 1] if d > 1 else
                                           [d + 1]))
  return kw


# ---- unlisted (odd but not named): must be ValueError up front or total
def m_lat_list_input(draw, kw):
  # documented input form: list of len(lattice_sizes) tensors (batch, ..., 1)
  kw["_input_list"] = _dims(kw)
  return kw


def _seq(v):
  """Elements of a JSON list or of a T(...) tuple spelling."""
  return list(v["t"]) if isinstance(v, dict) else list(v)


def m_lat_tuple_spelling(draw, kw):
  kw["lattice_sizes"] = T(*_seq(kw["lattice_sizes"]))
  kw["monotonicities"] = T(*_seq(kw["monotonicities"]))
  if kw["unimodalities"]:
    kw["unimodalities"] = T(*_seq(kw["unimodalities"]))
  return kw


def m_lat_np_sizes(draw, kw):
  sizes = [s if isinstance(s, dict) else {"np_int": s}
           for s in _seq(kw["lattice_sizes"])]
  kw["lattice_sizes"] = T(*sizes) if isinstance(kw["lattice_sizes"],
                                                dict) else sizes
  return kw


def m_lat_self_dominance(draw, kw):
  d = _dims(kw)
  a = draw(st.integers(0, d - 1))
  kw["monotonicities"][a] = 1
  if kw["unimodalities"]:
    kw["unimodalities"][a] = 0
  kw["joint_unimodalities"] = None
  key = draw(st.sampled_from(["monotonic_dominances", "range_dominances",
                              "joint_monotonicities"]))
  kw[key] = [T(a, a)]
  return kw


_PAIR_KEYS = ("edgeworth_trusts", "trapezoid_trusts", "monotonic_dominances",
              "range_dominances", "joint_monotonicities")


def _lat_some_constraint(draw, kw):
  """Makes sure that one pairwise constraint list is present (a valid joint
  monotonicity between dimensions 0 and 1 when the base has none)."""
  if not any(isinstance(kw[key], list) and kw[key] for key in _PAIR_KEYS):
    _lat_grow(kw)
    kw["joint_monotonicities"] = [T(0, 1)]


def _list_keys(kw):
  return [key for key in _PAIR_KEYS if isinstance(kw[key], list) and kw[key]]


def m_lat_duplicate_constraint(draw, kw):
  _lat_some_constraint(draw, kw)
  keys = _list_keys(kw)
  key = keys[draw(st.integers(0, len(keys) - 1))]
  kw[key] = kw[key] + [kw[key][0]]
  return kw


def m_lat_single_tuple(draw, kw):
  _lat_some_constraint(draw, kw)
  keys = _list_keys(kw)
  key = keys[draw(st.integers(0, len(keys) - 1))]
  kw[key] = kw[key][0]             # one tuple instead of a one-element list
  for other in keys:               # (a list of several stays a list)
    if other != key and len(kw[other]) == 1 and draw(st.booleans()):
      kw[other] = kw[other][0]
  return kw


# Candidate defect (/tmp/scratch/widen/C16-defect-2.py): one trust argument
# given as a tuple of tuples ("iterable of three-element tuples") while the
# other is a list or None raises TypeError ("can only concatenate tuple ...")
# in lattice_lib.verify_hyperparameters.  With the switch off, trusts become
# tuples only when both arguments are present (then both are converted).
GEN_TRUST_TUPLE_CONTAINER = True


def _tuple_containers(kw, trusts_ok=GEN_TRUST_TUPLE_CONTAINER):
  """Pairwise constraint lists -> tuples of tuples; returns number changed."""
  n = 0
  both = all(isinstance(kw[key], list) and kw[key]
             for key in ("edgeworth_trusts", "trapezoid_trusts"))
  for key in _PAIR_KEYS + ("joint_unimodalities",):
    if not isinstance(kw.get(key), list) or not kw[key]:
      continue
    if key.endswith("trusts") and not (both or trusts_ok):
      continue
    kw[key] = T(*kw[key])
    n += 1
  return n


def m_lat_tuple_containers(draw, kw):
  # documented: "iterable of ... tuples" for every pairwise constraint
  if not any(isinstance(kw[key], list) and kw[key] for key in (
      "monotonic_dominances", "range_dominances", "joint_monotonicities",
      "joint_unimodalities")):
    _lat_grow(kw)
    kw["joint_monotonicities"] = [T(0, 1)]
  _tuple_containers(kw)
  return kw


def m_lat_string_spelling(draw, kw):
  wrap = lambda old, new: T(*new) if isinstance(old, dict) else new
  kw["monotonicities"] = wrap(kw["monotonicities"], [
      "increasing" if m == 1 else "none" for m in _seq(kw["monotonicities"])])
  if kw["unimodalities"]:
    kw["unimodalities"] = wrap(kw["unimodalities"], [
        {1: "valley", -1: "peak", 0: "none"}[u]
        for u in _seq(kw["unimodalities"])])
  return kw


def m_iters_odd(draw, kw):
  kw["num_projection_iterations"] = draw(st.sampled_from([0, 1, 17]))
  return kw


def m_equal_bounds(draw, kw):
  kw["output_min"] = kw["output_max"] = 0.5
  return kw


# ---- PWL
def m_pwl_few_keypoints(draw, kw):
  kw["input_keypoints"] = kw["input_keypoints"][:draw(st.integers(0, 1))]
  return kw


def m_pwl_unsorted(draw, kw):
  kp = list(kw["input_keypoints"])
  if draw(st.booleans()):
    kp[-1] = kp[0]                  # not strictly increasing
  else:
    kp = kp[::-1]
  kw["input_keypoints"] = kp
  return kw


def m_pwl_cyclic_mono(draw, kw):
  if len(kw["input_keypoints"]) < 3:
    kw["input_keypoints"] = [0.0, 1.0, 2.0]
  kw["is_cyclic"] = True
  kw["clamp_min"] = kw["clamp_max"] = False
  if draw(st.booleans()):
    kw["monotonicity"] = draw(st.sampled_from([1, -1, "increasing"]))
  else:
    kw["convexity"] = draw(st.sampled_from([1, -1, "convex"]))
  return kw


def m_pwl_missing_without_impute(draw, kw):
  kw["impute_missing"] = False
  if draw(st.booleans()):
    kw["missing_input_value"] = -1.0
  else:
    kw["missing_output_value"] = 0.0
  return kw


def m_pwl_convex_learned(draw, kw):
  kw["is_cyclic"] = False
  kw["convexity"] = draw(st.sampled_from([1, -1, "concave"]))
  kw["input_keypoints_type"] = "learned_interior"
  return kw


def m_pwl_bad_kp_type(draw, kw):
  kw["input_keypoints_type"] = draw(st.sampled_from(["learned", "free", ""]))
  return kw


def m_pwl_bad_strings(draw, kw):
  if draw(st.booleans()):
    kw["monotonicity"] = draw(st.sampled_from(["up", 2, "valley"]))
  else:
    kw["convexity"] = draw(st.sampled_from(["flat", 3, "increasing"]))
  return kw


def m_pwl_clamp_without_mono(draw, kw):
  kw["monotonicity"] = 0
  kw["is_cyclic"] = False
  kw["output_min"], kw["output_max"] = 0.0, 1.0
  kw["clamp_min"] = True
  kw["_late_ok"] = True          # documented late ValueError (at projection)
  return kw


def m_pwl_string_spelling(draw, kw):
  kw["monotonicity"] = {1: "increasing", -1: "decreasing", 0: "none"}.get(
      kw["monotonicity"], kw["monotonicity"])
  kw["convexity"] = {1: "convex", -1: "concave", 0: "none"}.get(
      kw["convexity"], kw["convexity"])
  return kw


def m_pwl_np_keypoints(draw, kw):
  kw["input_keypoints"] = {"np_arr": list(kw["input_keypoints"])}
  return kw


def m_pwl_missing_modes(draw, kw):
  kw["impute_missing"] = True
  kw["missing_input_value"] = draw(st.sampled_from([None, -7.0]))
  kw["missing_output_value"] = draw(st.sampled_from([None, 0.25]))
  return kw


def m_pwl_learned(draw, kw):
  kw["convexity"] = 0
  kw["input_keypoints_type"] = "learned_interior"
  return kw


# ---- Linear
def _lin_grow(kw, d_min=2):
  """Appends unconstrained, unbounded inputs until there are d_min of them
  (construct, do not filter)."""
  while kw["num_input_dims"] < d_min:
    kw["num_input_dims"] += 1
    kw["monotonicities"] = list(kw["monotonicities"]) + [0]
    for key in ("input_min", "input_max"):
      if kw[key]:
        kw[key] = list(kw[key]) + [None]
  return kw["num_input_dims"]


def m_lin_mono_len(draw, kw):
  kw["monotonicities"] = list(kw["monotonicities"]) + [1]
  return kw


def m_lin_dom_nonincreasing(draw, kw):
  d = _lin_grow(kw)
  kw["monotonicities"] = [1] * d
  kw["monotonicities"][1] = draw(st.sampled_from([0, -1]))
  kw["monotonic_dominances"] = [T(0, 1)]
  kw["range_dominances"] = None
  return kw


def m_lin_rdom_bad(draw, kw):
  d = _lin_grow(kw)
  kw["monotonic_dominances"] = None
  kw["range_dominances"] = [T(0, 1)]
  if draw(st.booleans()):
    kw["monotonicities"] = [1, -1] + [0] * (d - 2)
    kw["input_min"] = [0.0] * d
    kw["input_max"] = [1.0] * d
  else:
    kw["monotonicities"] = [1, 1] + [0] * (d - 2)
    kw["input_min"] = [0.0] * d
    kw["input_max"] = None
  return kw


def m_lin_both_dominances(draw, kw):
  d = _lin_grow(kw)
  kw["monotonicities"] = [1] * d
  kw["input_min"], kw["input_max"] = [0.0] * d, [1.0] * d
  kw["monotonic_dominances"] = [T(0, 1)]
  kw["range_dominances"] = [T(1, 0)] if draw(st.booleans()) else [T(0, 1)]
  return kw


def m_lin_two_directions(draw, kw):
  d = _lin_grow(kw)
  kw["monotonicities"] = [1] * d
  kw["range_dominances"] = None
  kw["monotonic_dominances"] = [T(0, 1), T(1, 0)]
  return kw


def m_lin_bad_bound_type(draw, kw):
  d = kw["num_input_dims"]
  kw["monotonicities"] = [1] * d
  kw["input_min"] = [draw(st.sampled_from(["zero", {"t": [0.0]}]))] + [0.0] * (
      d - 1)
  kw["input_max"] = [1.0] * d
  return kw


def m_lin_scalar_mono(draw, kw):
  kw["monotonicities"] = draw(st.sampled_from(["increasing", 1, "none", 0,
                                               "decreasing", -1]))
  kw["monotonic_dominances"] = kw["range_dominances"] = None
  return kw


def m_lin_none_strings(draw, kw):
  d = kw["num_input_dims"]
  kw["range_dominances"] = None
  kw["input_min"] = ["none" if v is None else v
                     for v in (kw["input_min"] or [None] * d)]
  kw["input_max"] = ["none" if v is None else v
                     for v in (kw["input_max"] or [None] * d)]
  return kw


def m_lin_zero_width(draw, kw):
  d = _lin_grow(kw)
  kw["monotonicities"] = [1] * d
  kw["monotonic_dominances"] = None
  kw["input_min"] = [0.0] * d
  kw["input_max"] = [0.0] + [1.0] * (d - 1)
  kw["range_dominances"] = [T(1, 0)]
  return kw


def m_lin_inverted_range_unconstrained(draw, kw):
  d = kw["num_input_dims"]
  kw["monotonicities"] = [0] * d
  kw["monotonic_dominances"] = kw["range_dominances"] = None
  kw["normalization_order"] = None
  kw["input_min"], kw["input_max"] = [1.0] * d, [0.0] * d
  return kw


def m_lin_cycle_with_root(draw, kw):
  d = _lin_grow(kw, 4)
  kw["monotonicities"] = [1] * d
  kw["range_dominances"] = None
  kw["monotonic_dominances"] = [T(0, 1), T(1, 2), T(2, 3), T(3, 1)]
  return kw


def m_lin_inverted_range_constrained(draw, kw):
  # "Cannot have 'input_min' greater than 'input_max'" (linear_lib
  # .verify_hyperparameters, reached through LinearConstraints, i.e. whenever
  # the layer has a constraint).
  d = kw["num_input_dims"]
  kw["monotonic_dominances"] = kw["range_dominances"] = None
  if draw(st.booleans()):
    kw["monotonicities"] = [0] * d
    kw["monotonicities"][draw(st.integers(0, d - 1))] = draw(
        st.sampled_from([1, -1]))
  else:
    kw["monotonicities"] = [0] * d
    kw["normalization_order"] = draw(st.sampled_from([1, 2]))
  i = draw(st.integers(0, d - 1))
  kw["input_min"] = [None] * d
  kw["input_max"] = [None] * d
  kw["input_min"][i], kw["input_max"][i] = 1.0, draw(
      st.sampled_from([0.0, 0.5, -3.0]))
  return kw


def m_lin_opposite_range_dominance(draw, kw):
  # "Cannot have two range dominance constraints on the same pair of
  # features conflicting".
  d = _lin_grow(kw)
  sign = draw(st.sampled_from([1, -1]))
  kw["monotonicities"] = [sign, sign] + [0] * (d - 2)
  kw["input_min"], kw["input_max"] = [0.0] * d, [1.0] * d
  kw["monotonic_dominances"] = None
  kw["range_dominances"] = [T(0, 1), T(1, 0)]
  return kw


def m_lin_dominance_malformed(draw, kw):
  # dominance tuple: index out of range / negative, length != 2, non-int.
  d = _lin_grow(kw)
  kw["monotonicities"] = [1] * d
  kw["input_min"], kw["input_max"] = [0.0] * d, [1.0] * d
  key = draw(st.sampled_from(["monotonic_dominances", "range_dominances"]))
  kw["monotonic_dominances"] = kw["range_dominances"] = None
  kw[key] = [draw(st.sampled_from(
      [T(0, d), T(d + 1, 0), T(0, -1), T(-1, 1), T(0), T(0, 1, 1), T(0, 1.0),
       T(0.0, 1)]))]
  return kw


def m_lin_units_rank(draw, kw):
  # "'input_shape' must be of rank three ..." when units > 1.
  kw["units"] = draw(st.sampled_from([2, 3]))
  kw["_input_rank2"] = True
  return kw


def m_lin_int_bounds(draw, kw):
  # ints / numpy float32 scalars as bounds (the documentation says floats;
  # the error message of canonicalize_input_bounds names ints as well).
  d = kw["num_input_dims"]
  kw["range_dominances"] = None
  which = draw(st.sampled_from(["int", "int", "np_f32", "mixed"]))
  lo = [draw(st.sampled_from([0, -1, 0, 2])) for _ in range(d)]
  if which == "int":
    kw["input_min"] = lo
    kw["input_max"] = draw(st.sampled_from([None, [v + 3 for v in lo]]))
  elif which == "np_f32":
    kw["input_min"] = [{"np_f32": float(v)} for v in lo]
    kw["input_max"] = [{"np_f32": float(v) + 1.5} for v in lo]
  else:
    kw["input_min"] = [float(v) if j % 2 else v for j, v in enumerate(lo)]
    kw["input_max"] = [v + 1 if j % 2 else float(v) + 1.0
                       for j, v in enumerate(lo)]
  return kw


# ---- categorical
def m_cat_pairs_malformed(draw, kw):
  kw["monotonicities"] = draw(st.sampled_from(
      [[T(0, 1, 2)], [0, 1], T(T(0, 1))]))
  return kw


def m_cat_index_range(draw, kw):
  n = kw["num_buckets"]
  kw["monotonicities"] = [T(0, draw(st.sampled_from([n, n + 2, -1])))]
  return kw


def m_cat_two_cycle(draw, kw):
  kw["num_buckets"] = max(2, kw["num_buckets"])
  kw["monotonicities"] = [T(0, 1), T(1, 0)]
  return kw


def m_cat_list_pairs(draw, kw):
  if not kw["monotonicities"]:
    kw["num_buckets"] = max(2, kw["num_buckets"])
    kw["monotonicities"] = [T(0, kw["num_buckets"] - 1)]
  kw["monotonicities"] = [list(p["t"]) for p in kw["monotonicities"]]
  return kw


# ---- KFL
def m_kfl_size(draw, kw):
  kw["lattice_sizes"] = draw(st.sampled_from([1, 0, -2]))
  return kw


def m_kfl_units(draw, kw):
  kw["units"] = draw(st.sampled_from([0, -1]))
  return kw


def m_kfl_terms(draw, kw):
  kw["num_terms"] = draw(st.sampled_from([0, -1]))
  return kw


def m_kfl_bounds(draw, kw):
  kw["output_min"], kw["output_max"] = 1.0, draw(st.sampled_from([1.0, 0.0]))
  return kw


def m_kfl_mono(draw, kw):
  d = kw["dims"]
  if draw(st.booleans()):
    kw["monotonicities"] = [1] * (d + 1)
  else:
    kw["monotonicities"] = ["decreasing"] + [0] * (d - 1)
  return kw


def m_kfl_string_mono(draw, kw):
  if not kw["monotonicities"]:
    kw["monotonicities"] = [1] + [0] * (kw["dims"] - 1)
  kw["monotonicities"] = T(*["increasing" if m else "none"
                             for m in kw["monotonicities"]])
  return kw


def m_kfl_units_rank(draw, kw):
  # "If 'units' > 1 then input shape of KroneckerFactoredLattice layer must
  # have rank at least 3 ..." (kfl_lib.verify_hyperparameters at build).
  kw["units"] = draw(st.sampled_from([2, 3]))
  kw["_input_rank2"] = True
  return kw


# ---- RTL
def m_rtl_size(draw, kw):
  kw["lattice_size"] = draw(st.sampled_from([1, 0]))
  return kw


def m_rtl_bounds(draw, kw):
  kw["output_min"], kw["output_max"] = 1.0, draw(st.sampled_from([1.0, -1.0]))
  return kw


def m_rtl_kfl_linear_init(draw, kw):
  kw["parameterization"] = "kronecker_factored"
  kw["kernel_initializer"] = "linear_initializer"
  return kw


def m_rtl_kfl_regularizer(draw, kw):
  kw["parameterization"] = "kronecker_factored"
  kw["kernel_initializer"] = "kfl_random_monotonic_initializer"
  kw["kernel_regularizer"] = ["torsion", 0.1, 0.1]
  return kw


def m_rtl_bad_regularizer(draw, kw):
  kw["parameterization"] = "all_vertices"
  kw["kernel_initializer"] = "random_monotonic_initializer"
  kw["kernel_regularizer"] = draw(st.sampled_from(
      [["laplacian", 0.1], [["torsion", 1, 0.5]]]))
  return kw


def m_rtl_too_few_slots(draw, kw):
  kw["num_lattices"], kw["lattice_rank"] = 1, 1
  kw["n_inc"], kw["n_un"] = 2, 1
  return kw


def m_rtl_bad_key(draw, kw):
  kw["_bad_key"] = True
  return kw


def m_rtl_regularizer_ok(draw, kw):
  kw["parameterization"] = "all_vertices"
  kw["kernel_initializer"] = "random_monotonic_initializer"
  kw["kernel_regularizer"] = draw(st.sampled_from(
      [["laplacian", 0.1, 0.0], [["torsion", 0.5, 0.5], ["laplacian", 0.0, 1.0]],
       T("torsion", 0.1, 0.2)]))
  return kw


# ---- CDF
def m_cdf_sparsity(draw, kw):
  kw["sparsity_factor"] = 2
  if draw(st.booleans()):
    kw["input_dim"] = 3
  else:
    kw["units"] = 3
  return kw


def m_cdf_bad_strings(draw, kw):
  key = draw(st.sampled_from(["activation", "reduction", "input_scaling_type"]))
  kw[key] = draw(st.sampled_from(["tanh", "sum", "learned", ""]))
  return kw


MUTS = {
    "lattice": [
        ("L-size<2", True, m_lat_size_lt2),
        ("L-mono+unimod", True, m_lat_mono_and_unimod),
        ("L-trust-nonmono-main", True, m_lat_trust_nonmono_main),
        ("L-main-and-cond", True, m_lat_main_and_cond),
        ("L-dominance-nonmono", True, m_lat_dom_nonmono),
        ("L-omin>omax", True, m_omin_gt_omax),
        ("L-mono-length", True, m_lat_mono_len),
        ("L-unimod-size<3", True, m_lat_unimod_small),
        ("L-bad-monotonicity", True, m_lat_bad_mono_value),
        ("L-bad-interpolation", True, m_bad_interpolation),
        ("L-opposite-trusts", True, m_lat_opposite_trusts),
        ("L-trust-malformed", True, m_lat_trust_malformed),
        ("L-dims-out-of-range", True, m_lat_dims_out_of_range),
        ("L-junimod-invalid", True, m_lat_junimod_bad),
        ("L-units-input-rank", True, m_lat_units_rank),
        ("L-unimod-length", True, m_lat_unimod_len),
        ("L-opposite-dominance", True, m_lat_opposite_dominance),
        ("L-non-int-dimension", True, m_lat_nonint_dim_layer),
        ("L-joint-mono-length", True, m_lat_jmono_len),
        ("L-junimod-dim-out-of-range", True, m_lat_junimod_range_layer),
        ("L-input-list-length", True, m_lat_list_len),
        ("l-list-input", False, m_lat_list_input),
        ("l-equal-bounds", False, m_equal_bounds),
        ("l-tuple-spelling", False, m_lat_tuple_spelling),
        ("l-tuple-containers", False, m_lat_tuple_containers),
        ("l-numpy-sizes", False, m_lat_np_sizes),
        ("l-self-dominance", False, m_lat_self_dominance),
        ("l-duplicate-constraint", False, m_lat_duplicate_constraint),
        ("l-single-tuple", False, m_lat_single_tuple),
        ("l-string-spelling", False, m_lat_string_spelling),
        ("l-iterations", False, m_iters_odd),
    ],
    "pwl": [
        ("P-keypoints<2", True, m_pwl_few_keypoints),
        ("P-unsorted-keypoints", True, m_pwl_unsorted),
        ("P-omin>omax", True, m_omin_gt_omax),
        ("P-cyclic+mono/convex", True, m_pwl_cyclic_mono),
        ("P-missing-without-impute", True, m_pwl_missing_without_impute),
        ("P-convexity+learned", True, m_pwl_convex_learned),
        ("P-bad-keypoint-type", True, m_pwl_bad_kp_type),
        ("P-bad-strings", True, m_pwl_bad_strings),
        ("P-clamp-without-mono", True, m_pwl_clamp_without_mono),
        ("p-string-spelling", False, m_pwl_string_spelling),
        ("p-numpy-keypoints", False, m_pwl_np_keypoints),
        ("p-missing-modes", False, m_pwl_missing_modes),
        ("p-learned-keypoints", False, m_pwl_learned),
        ("p-equal-bounds", False, m_equal_bounds),
        ("p-iterations", False, m_iters_odd),
    ],
    "linear": [
        ("N-mono-length", True, m_lin_mono_len),
        ("N-dominance-nonincreasing", True, m_lin_dom_nonincreasing),
        ("N-range-dominance-invalid", True, m_lin_rdom_bad),
        ("N-both-dominance-kinds", True, m_lin_both_dominances),
        ("N-two-directions", True, m_lin_two_directions),
        ("N-bad-bound-type", True, m_lin_bad_bound_type),
        ("N-min>max-constrained", True, m_lin_inverted_range_constrained),
        ("N-opposite-range-dominance", True, m_lin_opposite_range_dominance),
        ("N-dominance-malformed", True, m_lin_dominance_malformed),
        ("N-units-input-rank", True, m_lin_units_rank),
        ("n-int-bounds", False, m_lin_int_bounds),
        ("n-scalar-monotonicity", False, m_lin_scalar_mono),
        ("n-none-strings", False, m_lin_none_strings),
        ("n-zero-width-range-dominance", False, m_lin_zero_width),
        ("n-inverted-range-unconstrained", False,
         m_lin_inverted_range_unconstrained),
        ("N-cyclic-dominance", True, m_lin_cycle_with_root),
    ],
    "categorical": [
        ("K-omin>omax", True, m_omin_gt_omax),
        ("K-pairs-malformed", True, m_cat_pairs_malformed),
        ("K-index-out-of-range", True, m_cat_index_range),
        ("K-two-cycle", True, m_cat_two_cycle),
        ("k-list-pairs", False, m_cat_list_pairs),
        ("k-equal-bounds", False, m_equal_bounds),
    ],
    "kfl": [
        ("F-size<2", True, m_kfl_size),
        ("F-units<1", True, m_kfl_units),
        ("F-terms<1", True, m_kfl_terms),
        ("F-omin>=omax", True, m_kfl_bounds),
        ("F-monotonicities", True, m_kfl_mono),
        ("F-units-input-rank", True, m_kfl_units_rank),
        ("f-string-monotonicities", False, m_kfl_string_mono),
    ],
    "rtl": [
        ("R-size<2", True, m_rtl_size),
        ("R-omin>=omax", True, m_rtl_bounds),
        ("R-bad-interpolation", True, m_bad_interpolation),
        ("R-kfl-linear-init", True, m_rtl_kfl_linear_init),
        ("R-kfl-regularizer", True, m_rtl_kfl_regularizer),
        ("R-bad-regularizer", True, m_rtl_bad_regularizer),
        ("R-too-few-slots", True, m_rtl_too_few_slots),
        ("R-bad-input-key", True, m_rtl_bad_key),
        ("r-regularizer", False, m_rtl_regularizer_ok),
    ],
    "cdf": [
        ("C-sparsity", True, m_cdf_sparsity),
        ("C-bad-strings", True, m_cdf_bad_strings),
    ],
}
SPELLING = {"l-tuple-spelling", "l-tuple-containers", "l-numpy-sizes",
            "l-single-tuple",
            "l-string-spelling", "p-numpy-keypoints", "p-string-spelling",
            "n-scalar-monotonicity", "n-none-strings",
            "k-list-pairs", "f-string-monotonicities"}
# (single tuples are wrapped by the Lattice layer's constructor only; the
# input-shape rules belong to the layer's build.)
_CONSTRAINTS_FN = {"L-non-int-dimension": m_lat_nonint_dim,
                   "L-junimod-dim-out-of-range": m_lat_junimod_range}
MUTS["lattice_constraints"] = [
    (m[0], m[1], _CONSTRAINTS_FN.get(m[0], m[2])) for m in MUTS["lattice"]
    if m[0] not in ("L-units-input-rank", "L-bad-interpolation",
                    "l-iterations", "l-single-tuple", "L-input-list-length",
                    "l-list-input")]
MUT_INDEX = {(k, m[0]): m for k, ms in MUTS.items() for m in ms}
# Sampling weights (default 1): classes that were rare in the evidence and the
# classes added by the coverage review are drawn more often.
WEIGHT = {
    # added by the coverage review
    "L-unimod-length": 3, "L-opposite-dominance": 3, "L-non-int-dimension": 3,
    "L-joint-mono-length": 3, "L-junimod-dim-out-of-range": 3,
    "L-input-list-length": 3, "l-list-input": 3, "l-equal-bounds": 3,
    "l-tuple-containers": 3, "N-min>max-constrained": 3,
    "N-opposite-range-dominance": 3, "N-dominance-malformed": 3,
    "N-units-input-rank": 3, "n-int-bounds": 4, "F-units-input-rank": 2,
    # rare in the evidence before the review
    "l-single-tuple": 3, "l-self-dominance": 2, "l-duplicate-constraint": 2,
    "l-tuple-spelling": 2, "L-opposite-trusts": 2, "L-trust-malformed": 2,
    "L-omin>omax": 2, "L-units-input-rank": 3, "L-dominance-nonmono": 2,
    "p-learned-keypoints": 2, "p-equal-bounds": 3, "p-missing-modes": 3,
    "p-numpy-keypoints": 3, "P-bad-strings": 2, "N-bad-bound-type": 2,
    "N-dominance-nonincreasing": 2, "N-cyclic-dominance": 2,
    "k-list-pairs": 2, "K-two-cycle": 2, "F-terms<1": 2,
    "F-monotonicities": 2, "f-string-monotonicities": 2,
    "R-too-few-slots": 2, "R-bad-interpolation": 2,
    # the generator of open finding F-C16-3
    "n-zero-width-range-dominance": 3}
PICK = {k: [m for m in ms for _ in range(WEIGHT.get(m[0], 1))]
        for k, ms in MUTS.items()}


def _content_hash(*parts):
  return hash32(json.dumps(parts, sort_keys=True, default=str))


@st.composite
def _layer_case(draw, tier):
  # weights roughly follow the sizes of the mutation tables
  kind = draw(st.sampled_from(["lattice"] * 4 + ["lattice_constraints"] * 2 +
                              ["pwl", "pwl", "linear", "linear", "linear",
                               "categorical", "kfl", "rtl", "cdf"]))
  kw = draw(BASES[kind]())
  nm = draw(st.sampled_from([0, 1, 1, 1, 2, 2]))
  applied = []
  weights = draw(S.array_desc(scales=[1e-3, 1.0, 1.0, 10.0, 1e3]))
  x = draw(S.array_desc(kinds=["normal", "uniform", "ints", "ties"],
                        scales=[1e-2, 1.0, 1.0, 10.0, 1e3]))
  aux = draw(S.seeds)
  # Hypothesis builds many examples by copying parts of earlier ones, which
  # leaves some rows of a 30-row table with 2 cases and others with 150.  The
  # row is therefore chosen by a hash of everything drawn so far (any two
  # distinct cases choose independently); one case in four still draws the
  # row directly (the coverage-guided campaign can steer those).
  h = _content_hash(kind, kw, weights, x, aux, draw(S.seeds))
  if draw(st.integers(0, 3)) == 0:
    chosen = [draw(st.sampled_from(PICK[kind])) for _ in range(nm)]
  else:
    chosen = [PICK[kind][hash32(h, k) % len(PICK[kind])] for k in range(nm)]
  # At most one listed-invalid mutation, applied after the unlisted ones so
  # that nothing can undo it; spelling mutations change container types and
  # are only applied (last) when no listed mutation is present.
  listed_ones = [m for m in chosen if m[1]][:1]
  others = [m for m in chosen if not m[1] and m[0] not in SPELLING]
  spell = [m for m in chosen if m[0] in SPELLING] if not listed_ones else []
  spell.sort(key=lambda m: m[0] not in ("l-single-tuple", "l-tuple-containers"))
  for mid, listed, fn in others + listed_ones + spell:
    if mid in applied:
      continue
    new = fn(draw, copy.deepcopy(kw))
    if new is not None:
      kw = new
      applied.append(mid)
  return {"target": "layer", "kind": kind, "kwargs": kw, "muts": applied,
          "weights": weights, "x": x, "aux": aux}


PREMADE_MUTS = ["none", "none", "none", "no-feature-configs",
                "ensemble-no-structure",
                "ensemble-one-lattice", "rtl-mixed-sizes", "rtl-unimodality",
                "rtl-trust", "rtl-dominance", "kfl-regularizer",
                "kfl-mixed-sizes", "kfl-unimodality", "kfl-trust",
                "nonnumeric-keypoints", "nonnumeric-output-init",
                "categorical-monotonicity-malformed", "lattices-not-lists",
                # rules of premade_lib.verify_config added by the review
                "rtl-no-num-lattices", "rtl-feature-lattice-regularizer",
                "kfl-feature-lattice-regularizer",
                "categorical-monotonicity-index",
                "categorical-monotonicity-element",
                "categorical-monotonicity-element", "keypoints-one-nonnumber",
                "keypoints-one-nonnumber", "rtl-no-num-lattices",
                "lattices-nonstring-element", "agg-middle-dimension<1",
                "agg-middle-dimension<1",
                "agg-monotonicity-without-calibration",
                "agg-monotonicity-without-calibration"]
# mutations that also apply to an AggregateFunctionConfig
AGG_GENERIC = ["none", "no-feature-configs", "nonnumeric-keypoints",
               "nonnumeric-output-init", "categorical-monotonicity-malformed",
               "categorical-monotonicity-index",
               "categorical-monotonicity-element", "keypoints-one-nonnumber"]


@st.composite
def _aggregate_desc(draw, tier):
  """A valid AggregateFunctionConfig description: the features / output part
  of a calibrated-lattice description plus the middle-lattice options.  The
  middle calibrators get an explicit monotonicity (the layer rejects the
  config default None), and without middle calibration the middle lattice is
  hypercube-interpolated (its inputs lie in [-1, 1])."""
  desc = draw(M.model_desc(tier, kinds=["lattice"]))
  desc["kind"] = "aggregate"
  desc["parameterization"] = "all_vertices"
  mc = draw(st.booleans())
  desc["agg"] = {
      "middle_dimension": draw(st.sampled_from([1, 1, 2, 3])),
      "middle_lattice_size": draw(st.sampled_from([2, 3])),
      "middle_calibration": mc,
      "middle_calibration_num_keypoints": draw(st.sampled_from([2, 5, 10])),
      "middle_calibration_input_keypoints_type": draw(st.sampled_from(
          ["fixed", "learned_interior"])),
      "middle_monotonicity": draw(st.sampled_from(
          ["increasing", 1, "none", 0])) if mc else None,
      "middle_lattice_interpolation": draw(st.sampled_from(
          ["hypercube", "simplex"])) if mc else "hypercube",
      "aggregation_lattice_interpolation": draw(st.sampled_from(
          ["hypercube", "simplex"]))}
  return desc


def _force_categorical(desc):
  """Makes feature 0 categorical when the description has no categorical
  feature (pairwise constraints that named it are dropped)."""
  if any(f["type"] == "categorical" for f in desc["features"]):
    return
  f = desc["features"][0]
  desc["features"][0] = {"name": f["name"], "type": "categorical",
                         "num_buckets": 3, "pairs": [[0, 2]],
                         "lattice_size": f["lattice_size"], "default": None}
  desc["trust"] = desc["dominance"] = None


def _premade_kinds(mut):
  if mut.startswith("rtl-"):
    return ["ensemble_rtl"]
  if mut.startswith("lattices-"):
    return ["ensemble_explicit", "ensemble_random"]
  if mut.startswith("ensemble-"):
    return ["ensemble_explicit", "ensemble_random", "ensemble_rtl"]
  if mut.startswith("kfl-"):
    return ["lattice", "ensemble_explicit", "ensemble_random", "ensemble_rtl"]
  return ["linear", "lattice", "ensemble_explicit", "ensemble_random",
          "ensemble_rtl"]


@st.composite
def _premade_case(draw, tier):
  # the mutation is chosen by a hash of the drawn description (even spread,
  # see _layer_case); the description kind is then fitted to the mutation.
  aux = draw(S.seeds)
  agg_desc = draw(_aggregate_desc(tier))
  h = _content_hash(agg_desc, aux, draw(S.seeds))
  if draw(st.integers(0, 3)) == 0:
    mut = draw(st.sampled_from(PREMADE_MUTS))
  else:
    mut = PREMADE_MUTS[h % len(PREMADE_MUTS)]
  if mut.startswith("agg-") or (mut in AGG_GENERIC and hash32(h, "agg") % 4
                                == 0):
    desc = agg_desc
  else:
    desc = draw(M.model_desc(tier, kinds=_premade_kinds(mut)))
  if mut.startswith("categorical-"):
    _force_categorical(desc)
  return {"target": "premade", "desc": desc, "mut": mut, "aux": aux}


def _force_trust(desc, direction, trust_type):
  """Puts a trust constraint into a lattice / explicit-ensemble description
  with at least two numeric features (main made increasing)."""
  num = [i for i, f in enumerate(desc["features"]) if f["type"] == "numeric"]
  if len(num) < 2 or desc.get("trust"):
    return
  m, c = num[0], num[1]
  fm = desc["features"][m]
  if fm["mono"] == 0:
    fm["mono"], fm["convexity"] = 1, 0
  desc["dominance"] = None
  desc["trust"] = {"main": m, "cond": c, "type": trust_type,
                   "direction": direction}
  for lat in desc.get("lattices") or []:      # keep main with conditional
    names = [desc["features"][m]["name"], desc["features"][c]["name"]]
    if names[1] in lat and names[0] not in lat:
      lat.append(names[0])


@st.composite
def _premade_synonym_case(draw, tier):
  """A valid premade description built twice: integer spellings (as
  vlib.models writes them) and string spellings of monotonicity, convexity,
  trust direction and unimodality."""
  focus = draw(st.sampled_from(["plain", "trust", "trust", "unimodal",
                                "unimodal"]))
  kinds = {"plain": ["linear", "lattice", "ensemble_explicit",
                     "ensemble_random", "ensemble_rtl"],
           "trust": ["lattice", "ensemble_explicit"],
           "unimodal": ["lattice", "ensemble_explicit", "ensemble_random"]}
  desc = draw(M.model_desc(tier, kinds=kinds[focus]))
  if focus != "plain":
    desc["parameterization"] = "all_vertices"
  if focus == "trust":
    _force_trust(desc, draw(st.sampled_from([1, -1])),
                 draw(st.sampled_from(["edgeworth", "trapezoid"])))
  unimodal = None
  if desc["parameterization"] == "all_vertices" and desc["kind"] in (
      "lattice", "ensemble_explicit", "ensemble_random"):
    t = desc.get("trust") or {}
    d = desc.get("dominance") or {}
    busy = (t.get("main"), t.get("cond"), d.get("dominant"), d.get("weak"))
    cand = [i for i, f in enumerate(desc["features"])
            if f["type"] == "numeric" and i not in busy and
            (f["mono"] == 0 or focus == "unimodal")]
    if cand and (focus == "unimodal" or draw(st.booleans())):
      i = draw(st.sampled_from(cand))
      f = desc["features"][i]
      f["mono"], f["clamp_min"], f["clamp_max"] = 0, False, False
      f["lattice_size"] = 3
      unimodal = [i, draw(st.sampled_from([1, -1]))]
  return {"target": "premade_synonym", "desc": desc, "unimodal": unimodal,
          "weights": draw(S.array_desc(scales=[1e-3, 1.0, 1.0, 10.0])),
          "aux": draw(S.seeds)}


SYN_KINDS = ["lattice", "lattice", "pwl", "linear", "linear", "kfl", "rtl_cfg",
             "categorical"]


@st.composite
def _synonym_case(draw, tier):
  kind = draw(st.sampled_from(SYN_KINDS))
  base = {"lattice": base_lattice, "pwl": base_pwl, "linear": base_linear,
          "kfl": base_kfl, "rtl_cfg": base_lattice,
          "categorical": base_categorical}[kind]
  kw = draw(base())
  if kind == "categorical" and not kw["monotonicities"]:
    # the only categorical synonym is the spelling of a pair
    kw["num_buckets"] = max(2, kw["num_buckets"])
    kw["monotonicities"] = [T(0, kw["num_buckets"] - 1)]
  if kind == "kfl" and not kw["monotonicities"] and draw(st.booleans()):
    kw["monotonicities"] = [1] + [0] * (kw["dims"] - 1)
  if kind == "lattice" and draw(st.booleans()):
    _lat_some_constraint(draw, kw)        # something to spell as one tuple
  return {"target": "synonym", "kind": kind if kind != "rtl_cfg" else
          "lattice_constraints", "kwargs": kw,
          "weights": draw(S.array_desc(scales=[1e-3, 1.0, 1.0, 10.0])),
          "x": draw(S.array_desc(kinds=["normal", "uniform"],
                                 scales=[1.0, 3.0])),
          "aux": draw(S.seeds)}


def strategy(tier):
  # (one_of merges repeats of one strategy object, so every entry is built
  # separately: 36 : 8 : 8 : 1; a premade synonym case builds two models and
  # costs about 0.6 s)
  return st.one_of([_layer_case(tier) for _ in range(36)] +
                   [_synonym_case(tier) for _ in range(8)] +
                   [_premade_case(tier) for _ in range(8)] +
                   [_premade_synonym_case(tier)])


# ====================================================================
# execution


class Stage(Exception):
  pass


def _build_layer(kind, kw):
  """Returns (layer_or_constraint, build_fn, weight variables getter, call)."""
  import tensorflow as tf
  import tensorflow_lattice as tfl
  kw = decode(copy.deepcopy(kw))
  late_ok = kw.pop("_late_ok", False)
  rank2 = kw.pop("_input_rank2", False)
  bad_key = kw.pop("_bad_key", False)
  n_list = kw.pop("_input_list", None)
  info = {"late_ok": late_ok}
  if kind == "lattice":
    layer = tfl.layers.Lattice(**kw)
    d = len(kw["lattice_sizes"])
    u = kw["units"]
    shape = (None, d) if (u == 1 or rank2) else (None, u, d)
    xshape = lambda b: (b, d) if (u == 1 or rank2) else (b, u, d)
    if n_list is not None:
      # documented list form: n_list tensors of shape (batch, [units,] 1)
      shape = [(None, 1) if (u == 1 or rank2) else (None, u, 1)] * n_list
      info["as_list"] = True
    xr = (-1.0, float(max(2, max(int(s) for s in kw["lattice_sizes"]))))
    return layer, shape, xshape, xr, info
  if kind == "pwl":
    layer = tfl.layers.PWLCalibration(**kw)
    u = kw["units"]
    kp = np.asarray(kw["input_keypoints"], np.float64)
    return layer, (None, u), (lambda b: (b, u)), (
        float(kp.min()) - 2.0, float(kp.max()) + 2.0), info
  if kind == "linear":
    layer = tfl.layers.Linear(**kw)
    d, u = kw["num_input_dims"], kw["units"]
    shape = (None, d) if (u == 1 or rank2) else (None, u, d)
    return layer, shape, (lambda b: (b, d) if (u == 1 or rank2) else
                          (b, u, d)), (-3.0, 3.0), info
  if kind == "categorical":
    layer = tfl.layers.CategoricalCalibration(**kw)
    u = kw["units"]
    info["int_inputs"] = int(kw["num_buckets"])
    return layer, (None, u), (lambda b: (b, u)), (0, kw["num_buckets"]), info
  if kind == "kfl":
    d = kw.pop("dims")
    layer = tfl.layers.KroneckerFactoredLattice(**kw)
    u = kw["units"]
    shape = tf.TensorShape((None, d) if (u == 1 or rank2) else (None, u, d))
    return layer, shape, (lambda b: (b, d) if (u == 1 or rank2) else
                          (b, u, d)), (-1.0, float(kw["lattice_sizes"])), info
  if kind == "rtl":
    n_inc, n_un = kw.pop("n_inc"), kw.pop("n_un")
    layer = tfl.layers.RTL(**kw)
    info["rtl"] = (n_inc, n_un, bad_key)
    return layer, None, None, (0.0, float(kw["lattice_size"]) - 1.0), info
  if kind == "cdf":
    d = kw.pop("input_dim")
    layer = tfl.layers.CDF(**kw)
    return layer, (None, d), (lambda b: (b, d)), (-1.0, 2.0), info
  raise ValueError(kind)


class _FullTracebacks(object):
  """Keras / TensorFlow strip their own frames from tracebacks of exceptions
  that pass through a layer call; with the filter on, an error raised inside
  TensorFlow would seem to come from the library line that called it.  The
  origin test of oracle (a) needs the real raising frame."""

  def __enter__(self):
    import tensorflow as tf
    self._was = tf.debugging.is_traceback_filtering_enabled()
    tf.debugging.disable_traceback_filtering()

  def __exit__(self, *exc):
    import tensorflow as tf
    if self._was:
      tf.debugging.enable_traceback_filtering()
    return False


def _raised_in_library(e):
  """True when the frame that raised e is tensorflow_lattice code (the
  library's own validation), not Keras / TensorFlow / NumPy called by it."""
  import traceback
  frames = traceback.extract_tb(e.__traceback__)
  if not frames:
    return False
  fn = frames[-1].filename.replace("\\", "/")
  return "/tensorflow_lattice/" in fn and "/verif/" not in fn


def _run_layer_pipeline(case, out, kw=None):
  with _FullTracebacks():
    return _run_layer_pipeline_inner(case, out, kw)


def _run_layer_pipeline_inner(case, out, kw=None):
  """Runs construct/build/project/evaluate; returns dict with stage results.

  result["rejected"] = (stage, exc) when an exception ended the pipeline;
  result["outputs"] / ["weights"] arrays when it completed.
  """
  import tensorflow as tf
  import tensorflow_lattice as tfl
  kind = case["kind"]
  kw = case["kwargs"] if kw is None else kw
  res = {"rejected": None, "stage": "construct", "late_ok": bool(
      isinstance(kw, dict) and kw.get("_late_ok"))}
  rs = np.random.RandomState(case["aux"])
  try:
    if kind == "lattice_constraints":
      k = decode(copy.deepcopy(kw))
      for drop in ("units", "interpolation", "_input_rank2", "_input_list"):
        k.pop(drop, None)
      units = kw["units"]
      con = tfl.lattice_layer.LatticeConstraints(**k)
      res["stage"] = "project"
      n = int(np.prod([int(s) for s in decode(kw["lattice_sizes"])]))
      w = S.materialize(case["weights"], (n, units))
      w = np.clip(w, -1e3, 1e3)
      pw = con(tf.constant(w)).numpy()
      res["weights"] = pw
      res["outputs"] = pw
      return res
    layer, shape, xshape, xr, info = _build_layer(kind, kw)
    res["late_ok"] = info["late_ok"]
    res["stage"] = "build"
    if kind == "rtl":
      n_inc, n_un, bad_key = info["rtl"]
      b = 3
      inputs = {}
      if n_inc:
        inputs["increasing"] = tf.constant(
            rs.uniform(xr[0], xr[1], size=(b, n_inc)).astype(np.float32))
      if n_un:
        key = "unconstrained" if not bad_key else "free"
        inputs[key] = tf.constant(
            rs.uniform(xr[0], xr[1], size=(b, n_un)).astype(np.float32))
      elif bad_key:
        inputs["monotone"] = inputs.pop("increasing")
      y = layer(inputs)
      res["stage"] = "project"
      for v in layer.trainable_variables:
        if v.constraint is not None:
          tgt = np.clip(S.materialize(case["weights"], (int(np.prod(
              v.shape)), 1)).reshape(tuple(v.shape)), -1e3, 1e3)
          v.assign(tgt)
      for v in layer.trainable_variables:
        if v.constraint is not None:
          v.assign(v.constraint(v))
      res["stage"] = "evaluate"
      y = layer(inputs)
      ys = list(y.values()) if isinstance(y, dict) else [y]
      res["outputs"] = np.concatenate([t.numpy().reshape(-1) for t in ys])
      res["weights"] = np.concatenate(
          [v.numpy().reshape(-1) for v in layer.trainable_variables])
      return res
    layer.build(shape)
    res["stage"] = "project"
    for v in layer.trainable_variables:
      tgt = np.clip(S.materialize(case["weights"], (int(np.prod(v.shape)), 1)
                                  ).reshape(tuple(v.shape)), -1e3, 1e3)
      if "interpolation_logits" in v.name:
        tgt = np.clip(tgt, -29, 29)
      v.assign(tgt)
    for v in layer.trainable_variables:
      if v.constraint is not None:
        v.assign(v.constraint(v))
    res["weights"] = np.concatenate(
        [v.numpy().reshape(-1) for v in layer.trainable_variables] or
        [np.zeros(1)])
    res["stage"] = "evaluate"
    b = 4
    xs = xshape(b)
    x = S.materialize(case["x"], (int(np.prod(xs)), 1)).reshape(xs)
    if "int_inputs" in info:
      x = (np.abs(x).astype(np.int64) % max(1, info["int_inputs"])).astype(
          np.int32)
    else:
      x = np.clip(x, -1e3, 1e3).astype(np.float32)
    if kind == "pwl" and decode(kw).get("impute_missing") and decode(kw).get(
        "missing_input_value") is None:
      # documented call form without missing_input_value: [x, is_missing]
      miss = (np.arange(x.size).reshape(x.shape) % 3 == 0).astype(np.float32)
      y = layer([tf.constant(x), tf.constant(miss)])
    elif info.get("as_list"):
      y = layer([tf.constant(x[..., j:j + 1]) for j in range(x.shape[-1])])
    else:
      y = layer(tf.constant(x))
    ys = y if isinstance(y, list) else [y]
    res["outputs"] = np.concatenate([t.numpy().reshape(-1) for t in ys])
    return res
  except Exception as e:  # pylint: disable=broad-except
    res["rejected"] = (res["stage"], e)
    return res


# Latest pipeline stage at which the library's own ValueError for a listed
# rule counts as "rejected up front" (default: build).  CDF validates its
# option strings in call(), Linear finds a dominance cycle and PWLCalibration
# the clamp-without-monotonicity combination in the first projection; these
# stages are today's behaviour and are not allowed to slip further.
STAGES = ["construct", "build", "project", "evaluate"]
LATEST_STAGE = {("cdf", "C-bad-strings"): "evaluate",
                ("linear", "N-cyclic-dominance"): "project",
                ("pwl", "P-clamp-without-mono"): "project"}


def _judge_pipeline(case, res, listed, out, sig):
  rej = res["rejected"]
  kind = case["kind"]
  if rej is not None:
    stage, e = rej
    ok_type = isinstance(e, ValueError) or (
        kind == "rtl" and isinstance(e, KeyError) and "R-bad-input-key" in
        case["muts"])
    up_front = stage in ("construct", "build") or (
        kind == "lattice_constraints" and stage == "construct")
    out.checks += 1
    if listed:
      out.nontrivial = True
      # "rejected ... when the layer, constraint or model is constructed or
      # built": construct / build, or the stage of LATEST_STAGE for the three
      # rules the library checks later, any stage for the documented late
      # rejection; and by the library's own validation, not by an error that
      # surfaces from Keras / TensorFlow further down.
      latest = max([STAGES.index(LATEST_STAGE.get((kind, m), "build"))
                    for m in case["muts"] if MUT_INDEX[(kind, m)][1]] or [1])
      in_time = STAGES.index(stage) <= latest or res.get("late_ok")
      if not ok_type:
        out.violate("listed-invalid configuration (%s) raised %s instead of "
                    "ValueError at %s: %s" % (listed, type(e).__name__, stage,
                                              str(e)[:200]),
                    kind="wrong-exception", exc=type(e).__name__, stage=stage,
                    **sig)
      elif not _raised_in_library(e):
        out.violate("listed-invalid configuration (%s) was not rejected by "
                    "the library's validation: %s raised outside "
                    "tensorflow_lattice at %s: %s" % (
                        listed, type(e).__name__, stage, str(e)[:200]),
                    kind="rejected-elsewhere", exc=type(e).__name__,
                    stage=stage, **sig)
      elif not in_time:
        out.violate("listed-invalid configuration (%s) was rejected only at "
                    "%s (%s), not at construction / build" % (
                        listed, stage, str(e)[:200]),
                    kind="rejected-late", exc=type(e).__name__, stage=stage,
                    **sig)
      else:
        out.label("rejected:listed@" + stage)
      return
    if ok_type and (up_front or res.get("late_ok")):
      out.label("rejected:unlisted@" + stage)
      return
    out.nontrivial = True
    out.violate("accepted configuration raised %s at %s: %s" % (
        type(e).__name__, stage, str(e)[:300]), kind="not-total",
                exc=type(e).__name__, stage=stage, **sig)
    return
  out.checks += 1
  out.nontrivial = True
  if listed:
    out.violate("listed-invalid configuration (%s) was accepted" % listed,
                kind="listed-accepted", **sig)
    return
  out.label("accepted:total")
  for name in ("weights", "outputs"):
    a = res.get(name)
    if a is not None and not np.all(np.isfinite(a)):
      out.violate("accepted configuration produced non-finite %s" % name,
                  kind="non-finite", what=name, **sig)
      return


def _run_layer(case, out):
  kind = case["kind"]
  listed = [m for m in case["muts"] if MUT_INDEX[(kind, m)][1]]
  out.label("layer:" + kind, *["mut:" + m for m in case["muts"]] or
            ["mut:none"])
  sig = dict(layer=kind, muts="+".join(sorted(set(case["muts"]))))
  if kind == "linear":
    kw = case["kwargs"]
    lo, hi = kw.get("input_min") or [], kw.get("input_max") or []
    sig["zero_width_range_dom"] = bool(any(
        isinstance(i, int) and 0 <= i < len(lo) and i < len(hi) and
        lo[i] is not None and lo[i] == hi[i]
        for p in (kw.get("range_dominances") or []) for i in p["t"]))
  res = _run_layer_pipeline(case, out)
  _judge_pipeline(case, res, "+".join(listed), out, sig)


# ---------------------------------------------------------------- synonyms
def _respell(kind, kw, rs):
  """Returns (kw_a, kw_b, n_differences, tags): two spellings of one config.

  Strings vs integers are always respelled; the container respellings (tuple
  for list, numpy array for list, single tuple for one-element list) are
  switched on and off by rs so that a difference can be attributed.
  """
  a, b = copy.deepcopy(kw), copy.deepcopy(kw)
  n = 0
  tags = []
  coin = lambda: bool(rs.randint(2))
  if kind in ("lattice", "lattice_constraints"):
    b["monotonicities"] = ["increasing" if m == 1 else "none"
                           for m in a["monotonicities"]]
    n += 1
    if a["unimodalities"]:
      b["unimodalities"] = [{1: "valley", -1: "peak", 0: "none"}[u]
                            for u in a["unimodalities"]]
      n += 1
    for key in ("edgeworth_trusts", "trapezoid_trusts"):
      if a[key]:
        b[key] = [T(t["t"][0], t["t"][1], "positive" if t["t"][2] == 1 else
                    "negative") for t in a[key]]
        n += 1
    single = kind == "lattice" and rs.randint(4) > 0
    if single:
      for key in ("edgeworth_trusts", "trapezoid_trusts",
                  "monotonic_dominances", "range_dominances",
                  "joint_monotonicities", "joint_unimodalities"):
        if b[key] and len(b[key]) == 1:
          b[key] = b[key][0]        # single tuple instead of one-element list
          n += 1
          tags.append("single-tuple")
    if coin():
      # documented "list or tuple" / "iterable of tuples" containers
      for key in ("lattice_sizes", "monotonicities", "unimodalities"):
        if isinstance(b[key], list) and b[key]:
          b[key] = T(*b[key])
          n += 1
      n += _tuple_containers(b)
      tags.append("tuple-containers")
  elif kind == "pwl":
    b["monotonicity"] = {1: "increasing", -1: "decreasing", 0: "none"}[
        a["monotonicity"]]
    b["convexity"] = {1: "convex", -1: "concave", 0: "none"}[a["convexity"]]
    n += 2
    if coin():
      # "Can be anything accepted by tf.convert_to_tensor()"
      b["input_keypoints"] = {"np_arr": list(a["input_keypoints"])}
      n += 1
      tags.append("numpy-keypoints")
    elif coin():
      b["input_keypoints"] = T(*a["input_keypoints"])
      n += 1
      tags.append("tuple-containers")
  elif kind == "linear":
    names = {1: "increasing", -1: "decreasing", 0: "none"}
    b["monotonicities"] = [names[m] for m in a["monotonicities"]]
    n += 1
    if len(set(a["monotonicities"])) == 1:
      a["monotonicities"] = a["monotonicities"][0]     # scalar spelling
      n += 1
      tags.append("scalar-monotonicity")
    if not a["range_dominances"]:
      for key in ("input_min", "input_max"):
        if a[key] and any(v is None for v in a[key]):
          b[key] = ["none" if v is None else v for v in a[key]]
          n += 1
          tags.append(key + "-none-string")
    if coin():
      for key in ("monotonicities", "input_min", "input_max",
                  "monotonic_dominances", "range_dominances"):
        if isinstance(b[key], list) and b[key]:
          b[key] = T(*b[key])
          n += 1
      tags.append("tuple-containers")
  elif kind == "kfl":
    if a["monotonicities"]:
      b["monotonicities"] = ["increasing" if m else "none"
                             for m in a["monotonicities"]]
      n += 1
      if coin():
        b["monotonicities"] = T(*b["monotonicities"])
        n += 1
        tags.append("tuple-containers")
      if coin():
        a["monotonicities"] = T(*a["monotonicities"])
        n += 1
  elif kind == "categorical":
    if a["monotonicities"]:
      # "List of pairs": a pair may be a list or a tuple
      b["monotonicities"] = [list(p["t"]) for p in a["monotonicities"]]
      n += 1
      tags.append("list-pairs")
  return a, b, n, tags


def _run_synonym(case, out):
  kind = case["kind"]
  rs = np.random.RandomState(case["aux"])
  a, b, n, tags = _respell(kind, case["kwargs"], rs)
  out.label("synonym:" + kind, *["synonym:" + t for t in sorted(set(tags))])
  sig = dict(layer=kind, target="synonym")
  ca = dict(case, kwargs=a, muts=[])
  cb = dict(case, kwargs=b, muts=[])
  ra = _run_layer_pipeline(ca, out)
  rb = _run_layer_pipeline(cb, out)
  out.checks += 1
  out.nontrivial = n > 0
  for name, r in (("canonical", ra), ("synonym", rb)):
    if r["rejected"] is not None:
      stage, e = r["rejected"]
      out.violate("valid configuration (%s spelling) raised %s at %s: %s" % (
          name, type(e).__name__, stage, str(e)[:300]), kind="not-total",
                  exc=type(e).__name__, stage=stage, spelling=name, **sig)
      return
  for name in ("weights", "outputs"):
    if not np.array_equal(ra[name], rb[name]):
      out.violate("synonymous spellings give different %s (max diff %.3g)" % (
          name, float(np.max(np.abs(ra[name] - rb[name])))),
                  kind="synonym-differs", what=name, **sig)
      return


# ---------------------------------------------------------------- premade
def _aggregate_config(desc):
  import tensorflow_lattice as tfl
  a = desc["agg"]
  return tfl.configs.AggregateFunctionConfig(
      feature_configs=M._feature_configs(desc),  # pylint: disable=protected-access
      middle_dimension=a["middle_dimension"],
      middle_lattice_size=a["middle_lattice_size"],
      middle_calibration=a["middle_calibration"],
      middle_calibration_num_keypoints=a["middle_calibration_num_keypoints"],
      middle_calibration_input_keypoints_type=a[
          "middle_calibration_input_keypoints_type"],
      middle_monotonicity=a["middle_monotonicity"],
      middle_lattice_interpolation=a["middle_lattice_interpolation"],
      aggregation_lattice_interpolation=a[
          "aggregation_lattice_interpolation"],
      output_min=desc["omin"], output_max=desc["omax"],
      output_calibration=desc["output_calibration"],
      output_calibration_num_keypoints=len(desc["output_init"]),
      output_initialization=list(desc["output_init"]),
      output_calibration_input_keypoints_type=desc["output_kp_type"])


def _aggregate_inputs(desc, aux):
  """Ragged inputs (3 rows of 1-3 blocks) in feature-config order."""
  import tensorflow as tf
  rs = np.random.RandomState(aux)
  lens = rs.randint(1, 4, size=3)
  x = M.base_points(desc, int(lens.sum()), aux)
  cols = []
  for j, f in enumerate(desc["features"]):
    v = x[:, j].astype(np.int32 if f["type"] == "categorical" else np.float32)
    cols.append(tf.RaggedTensor.from_row_lengths(v, lens))
  return cols


def _run_premade(case, out):
  import tensorflow as tf
  import tensorflow_lattice as tfl
  desc = copy.deepcopy(case["desc"])
  mut = case["mut"]
  out.label("premade:" + desc["kind"], "mut:" + mut)
  sig = dict(layer="premade", model=desc["kind"], muts=mut)
  kind = desc["kind"]
  applicable = True
  tf.random.set_seed(desc["seed"])
  np.random.seed(desc["seed"])
  try:
    cfg = _aggregate_config(desc) if kind == "aggregate" else (
        M.model_config(desc))
  except Exception as e:  # pylint: disable=broad-except
    out.violate("valid premade description could not be turned into a config: "
                "%s %s" % (type(e).__name__, e), kind="not-total",
                exc=type(e).__name__, stage="config", **sig)
    return
  fcs = cfg.feature_configs
  numeric = [f for f in fcs if not f.num_buckets]
  aux_rs = np.random.RandomState(case["aux"])
  is_ens = kind.startswith("ensemble")
  param_ok = kind in ("lattice",) or is_ens
  if mut == "no-feature-configs":
    cfg.feature_configs = None
  elif mut == "ensemble-no-structure" and is_ens:
    cfg.lattices = "random"
  elif mut == "ensemble-one-lattice" and is_ens:
    if cfg.lattices == "rtl_layer":
      cfg.num_lattices = 1
    else:
      cfg.lattices = cfg.lattices[:1]
  elif mut == "rtl-mixed-sizes" and kind == "ensemble_rtl" and len(fcs) > 1:
    fcs[0].lattice_size = fcs[1].lattice_size + 1
  elif mut == "rtl-unimodality" and kind == "ensemble_rtl" and numeric:
    numeric[0].unimodality = "valley"
    numeric[0].monotonicity = "none"
    numeric[0].lattice_size = 3
    for f in fcs:
      f.lattice_size = 3
  elif mut == "rtl-trust" and kind == "ensemble_rtl" and len(fcs) > 1:
    fcs[0].reflects_trust_in = [tfl.configs.TrustConfig(fcs[1].name)]
  elif mut == "rtl-dominance" and kind == "ensemble_rtl" and len(fcs) > 1:
    fcs[0].dominates = [tfl.configs.DominanceConfig(fcs[1].name)]
  elif mut == "kfl-regularizer" and param_ok:
    cfg.parameterization = "kronecker_factored"
    cfg.regularizer_configs = [tfl.configs.RegularizerConfig("torsion", l2=0.1)]
  elif mut == "kfl-mixed-sizes" and param_ok and len(fcs) > 1:
    cfg.parameterization = "kronecker_factored"
    fcs[0].lattice_size = fcs[1].lattice_size + 1
  elif mut == "kfl-unimodality" and param_ok and numeric:
    cfg.parameterization = "kronecker_factored"
    numeric[0].unimodality = 1
    numeric[0].monotonicity = 0
  elif mut == "kfl-trust" and param_ok and len(fcs) > 1:
    cfg.parameterization = "kronecker_factored"
    fcs[0].reflects_trust_in = [tfl.configs.TrustConfig(fcs[1].name)]
  elif mut == "nonnumeric-keypoints" and numeric:
    numeric[0].pwl_calibration_input_keypoints = "quantiles"
  elif mut == "nonnumeric-output-init":
    cfg.output_initialization = "quantiles"
  elif mut == "categorical-monotonicity-malformed" and any(
      f.num_buckets for f in fcs):
    f = [f for f in fcs if f.num_buckets][0]
    f.monotonicity = [("a", "b")]
  elif mut == "lattices-not-lists" and is_ens and cfg.lattices != "rtl_layer":
    cfg.lattices = [0, 1]
  elif mut == "rtl-no-num-lattices" and kind == "ensemble_rtl":
    # "lattices is set to 'rtl_layer' and num_lattices is not specified"
    cfg.num_lattices = None
  elif mut == "rtl-feature-lattice-regularizer" and kind == "ensemble_rtl":
    # "'rtl_layer' and there are per-feature lattice regularizers"
    fcs[aux_rs.randint(len(fcs))].regularizer_configs = [
        tfl.configs.RegularizerConfig(
            ["torsion", "laplacian"][aux_rs.randint(2)], l1=0.0, l2=0.1)]
  elif mut == "kfl-feature-lattice-regularizer" and param_ok:
    cfg.parameterization = "kronecker_factored"
    fcs[aux_rs.randint(len(fcs))].regularizer_configs = [
        tfl.configs.RegularizerConfig(
            ["torsion", "laplacian"][aux_rs.randint(2)], l1=0.1, l2=0.0)]
  elif mut == "categorical-monotonicity-index" and any(
      f.num_buckets for f in fcs):
    # "not in the range [0, num_buckets]" (the code: 0 <= index < num_buckets)
    f = [f for f in fcs if f.num_buckets][0]
    nb = f.num_buckets
    f.monotonicity = [[(0, nb)], [(nb + 2, 0)], [(0, -1)], [(0, 1), (-2, 1)]][
        aux_rs.randint(4)]
  elif mut == "categorical-monotonicity-element" and any(
      f.num_buckets for f in fcs):
    # "any element in monotonicity is not an iterable"
    f = [f for f in fcs if f.num_buckets][0]
    f.monotonicity = [[1], [(0, 1), 0], [0, 1]][aux_rs.randint(3)]
  elif mut == "keypoints-one-nonnumber" and numeric:
    # "contains non-{int/float} values for a numerical feature"
    f = numeric[aux_rs.randint(len(numeric))]
    kp = list(f.pwl_calibration_input_keypoints)
    kp[aux_rs.randint(len(kp))] = ["1.0", None, (0.5,)][aux_rs.randint(3)]
    f.pwl_calibration_input_keypoints = kp
  elif mut == "lattices-nonstring-element" and is_ens and (
      cfg.lattices != "rtl_layer"):
    # "lattices is not iterable or contains non-string values"
    lat = [list(l) for l in cfg.lattices]
    i = aux_rs.randint(len(lat))
    lat[i][aux_rs.randint(len(lat[i]))] = [1, None, 0.5][aux_rs.randint(3)]
    cfg.lattices = lat
  elif mut == "agg-middle-dimension<1" and kind == "aggregate":
    cfg.middle_dimension = [0, -1, -3][aux_rs.randint(3)]
  elif mut == "agg-monotonicity-without-calibration" and kind == "aggregate":
    cfg.middle_calibration = False
    cfg.middle_monotonicity = ["increasing", 1, "none", 0][aux_rs.randint(4)]
  elif mut != "none":
    applicable = False
  listed = mut if (mut != "none" and applicable) else ""
  if not applicable:
    out.label("mut-not-applicable")
  cls = {"linear": tfl.premade.CalibratedLinear,
         "lattice": tfl.premade.CalibratedLattice,
         "aggregate": tfl.premade.AggregateFunction}.get(
             kind, tfl.premade.CalibratedLatticeEnsemble)
  stage = "construct"
  out.checks += 1
  out.nontrivial = True
  try:
    with _FullTracebacks():
      model = cls(cfg)
      stage = "evaluate"
      if kind == "aggregate":
        y = model(_aggregate_inputs(desc, case["aux"])).numpy()
      else:
        x = M.base_points(desc, 6, case["aux"])
        y = model(M.model_inputs(desc, x)).numpy()
  except Exception as e:  # pylint: disable=broad-except
    if listed:
      if isinstance(e, ValueError) and stage == "construct" and (
          not _raised_in_library(e)):
        out.violate("malformed premade config (%s) was not rejected by the "
                    "library's validation: ValueError raised outside "
                    "tensorflow_lattice: %s" % (listed, str(e)[:200]),
                    kind="rejected-elsewhere", exc=type(e).__name__,
                    stage=stage, **sig)
      elif isinstance(e, ValueError) and stage == "construct":
        out.label("rejected:listed@construct")
      else:
        out.violate("malformed premade config (%s) raised %s at %s instead of "
                    "ValueError at construction: %s" % (
                        listed, type(e).__name__, stage, str(e)[:200]),
                    kind="wrong-exception", exc=type(e).__name__, stage=stage,
                    **sig)
    else:
      out.violate("valid premade config raised %s at %s: %s" % (
          type(e).__name__, stage, str(e)[:300]), kind="not-total",
                  exc=type(e).__name__, stage=stage, **sig)
    return
  if listed:
    out.violate("malformed premade config (%s) was accepted" % listed,
                kind="listed-accepted", **sig)
  elif not np.all(np.isfinite(y)):
    out.violate("premade model produced non-finite outputs", kind="non-finite",
                what="outputs", **sig)
  else:
    out.label("accepted:total")


# ------------------------------------------------------- premade synonyms
_MONO_NAMES = {1: "increasing", -1: "decreasing", 0: "none"}
_CONV_NAMES = {1: "convex", -1: "concave", 0: "none"}
_UNI_NAMES = {1: "valley", -1: "peak", 0: "none"}
_DIR_NAMES = {1: "positive", -1: "negative"}


def _spell_premade(cfg, unimodal, strings):
  """Writes the spellings of one style into the feature configs of cfg (built
  by vlib.models with integers); returns the number of respelled options."""
  n = 0
  for i, fc in enumerate(cfg.feature_configs):
    if unimodal is not None and unimodal[0] == i:
      fc.unimodality = _UNI_NAMES[unimodal[1]] if strings else unimodal[1]
      n += 1
    if fc.num_buckets:
      continue
    if strings:
      fc.monotonicity = _MONO_NAMES[fc.monotonicity]
      fc.pwl_calibration_convexity = _CONV_NAMES[fc.pwl_calibration_convexity]
      n += 2
      for tc in fc.reflects_trust_in or []:
        tc.direction = _DIR_NAMES[tc.direction]
        n += 1
  return n


def _run_premade_synonym(case, out):
  import tensorflow as tf
  import tensorflow_lattice as tfl
  desc = case["desc"]
  kind = desc["kind"]
  uni = case.get("unimodal")
  out.label("premade-synonym:" + kind,
            "premade-synonym:unimodality" if uni else
            "premade-synonym:no-unimodality",
            "premade-synonym:trust-direction" if desc.get("trust") else
            "premade-synonym:no-trust")
  sig = dict(layer="premade", model=kind, target="synonym")
  cls = {"linear": tfl.premade.CalibratedLinear,
         "lattice": tfl.premade.CalibratedLattice}.get(
             kind, tfl.premade.CalibratedLatticeEnsemble)
  x = M.base_points(desc, 6, case["aux"])
  results = []
  n = 0
  out.checks += 1
  for name, strings in (("integer", False), ("string", True)):
    stage = "config"
    try:
      tf.random.set_seed(desc["seed"])
      np.random.seed(desc["seed"])
      cfg = M.model_config(copy.deepcopy(desc))
      n = _spell_premade(cfg, uni, strings)
      stage = "construct"
      model = cls(cfg)
      stage = "project"
      for v in model.trainable_variables:
        tgt = np.clip(S.materialize(case["weights"], (int(np.prod(v.shape)), 1)
                                    ).reshape(tuple(v.shape)), -1e3, 1e3)
        if "interpolation_logits" in v.name:
          tgt = np.clip(tgt, -29, 29)
        v.assign(tgt)
      for v in model.trainable_variables:
        if v.constraint is not None:
          v.assign(v.constraint(v))
      w = np.concatenate([v.numpy().reshape(-1)
                          for v in model.trainable_variables] or [np.zeros(1)])
      stage = "evaluate"
      y = model(M.model_inputs(desc, x)).numpy().reshape(-1)
      results.append({"weights": w, "outputs": y})
    except Exception as e:  # pylint: disable=broad-except
      out.nontrivial = True
      out.violate("valid premade config (%s spelling) raised %s at %s: %s" % (
          name, type(e).__name__, stage, str(e)[:300]), kind="not-total",
                  exc=type(e).__name__, stage=stage, spelling=name, **sig)
      return
  out.nontrivial = n > 0
  for name in ("weights", "outputs"):
    a, b = results[0][name], results[1][name]
    if a.shape != b.shape or not np.array_equal(a, b, equal_nan=True):
      out.violate("integer and string spellings of a premade config give "
                  "different %s (max diff %.3g)" % (
                      name, float(np.nanmax(np.abs(a - b))) if a.shape ==
                      b.shape else float("nan")),
                  kind="synonym-differs", what=name, **sig)
      return


def run_case(case):
  out = Outcome()
  if case["target"] == "layer":
    _run_layer(case, out)
  elif case["target"] == "synonym":
    _run_synonym(case, out)
  elif case["target"] == "premade_synonym":
    _run_premade_synonym(case, out)
  else:
    _run_premade(case, out)
  return out
