"""C16 - configurations are rejected up front or handled totally and finitely.

Three oracles over generated constructor arguments (valid base configuration
plus 0-2 mutations):
 (a) a configuration that breaks a rule the statement / a `Raises:` docstring
     names ("listed") must be rejected with ValueError (KeyError for RTL input
     keys, as documented);
 (b) everything else may be rejected with ValueError at construction/build, but
     if construction + build succeed, constraint application on generated
     finite weights and evaluation on generated finite inputs must not raise and
     must return finite values; any other exception type is a violation;
 (c) synonymous spellings configure bit-identical behaviour.
"""
import copy

import numpy as np
from hypothesis import strategies as st

from vlib import models as M
from vlib import strategies as S
from vlib.harness import Outcome

ID = "C16"
TITLE = "Configurations are either rejected up front or handled totally and finitely"
RULE = ("Hypothesis draws a layer kind (Lattice, LatticeConstraints, "
        "PWLCalibration, Linear, CategoricalCalibration, "
        "KroneckerFactoredLattice, RTL, CDF, premade configs), a valid base "
        "configuration and 0-2 mutations from a per-kind table: mutations that "
        "break a listed rule (size < 2, monotone+unimodal, trust on "
        "non-monotone main, main==conditional, dominance between non-monotone "
        "features, output_min > output_max, unsorted keypoints, cyclic with "
        "monotonicity, malformed premade configs, ...) and unlisted odd "
        "spellings (tuples, numpy scalars, duplicated constraints, zero "
        "iterations, degenerate ranges, self-dominance, ...); or a synonym "
        "pair. Accepted configurations get generated finite weights (|w| <= "
        "1e3) and inputs. Non-trivial: the case reaches oracle (a) with a "
        "listed-invalid configuration, or reaches projection + evaluation in "
        "(b), or compares two different spellings in (c); distinct by SHA-1.")
NT_FLOOR = 0.6
FUZZ = {"thorough": 30000}   # atheris executions per shard (thorough tier)
BUDGET = {"quick": 900, "thorough": 10000}
TECHNIQUE = ("property-based testing (Hypothesis) + coverage-guided fuzzing "
             "(atheris, thorough tier) of constructor arguments: "
             "reject-or-total oracle and metamorphic synonym pairs")
LEVEL_TEXT = ("Generated-input exploration of the constructor / build / "
              "projection / evaluation pipeline of every layer kind with valid, "
              "listed-invalid and odd-but-unlisted arguments; the oracle is the "
              "statement's dichotomy (ValueError up front, or total and finite) "
              "plus bit-identity of synonymous spellings. The thorough tier adds "
              "an atheris campaign that decodes bytes into the same cases.")
LEVEL_NOTE = ("Only rules named in the statement or in a Raises: docstring are "
              "demanded to be rejected (table in DESIGN C16); the documented "
              "late rejection 'clamping without monotonicity' (raised at "
              "projection) is accepted at any stage. Weights and inputs are "
              "bounded by 1e3 so that float overflow is excluded. Open finding "
              "F-C06-1 (zero-width range in a Linear range dominance -> NaN) is "
              "matched by signature.")

T = lambda *a: {"t": list(a)}          # JSON spelling of a tuple


def decode(o):
  if isinstance(o, dict):
    if set(o.keys()) == {"t"}:
      return tuple(decode(v) for v in o["t"])
    if set(o.keys()) == {"np_int"}:
      return np.int64(o["np_int"])
    if set(o.keys()) == {"np_arr"}:
      return np.array(o["np_arr"])
    return {k: decode(v) for k, v in o.items()}
  if isinstance(o, list):
    return [decode(v) for v in o]
  return o


# ====================================================================
# base configurations (valid) per kind, as JSON kwargs
@st.composite
def base_lattice(draw):
  sizes = draw(S.lattice_sizes(max_rank=3, max_size=3, max_weights=27))
  cfg = draw(S.lattice_config(sizes))
  kw = {"lattice_sizes": list(sizes), "units": draw(st.sampled_from([1, 1, 2])),
        "monotonicities": list(cfg["mono"]),
        "unimodalities": list(cfg["unimod"]) if any(cfg["unimod"]) else None,
        "edgeworth_trusts": [T(*t) for t in cfg["ew"]] or None,
        "trapezoid_trusts": [T(*t) for t in cfg["tz"]] or None,
        "monotonic_dominances": [T(*t) for t in cfg["mdom"]] or None,
        "range_dominances": [T(*t) for t in cfg["rdom"]] or None,
        "joint_monotonicities": [T(*t) for t in cfg["jmono"]] or None,
        "joint_unimodalities": [T(T(*d), s) for d, s in cfg["junimod"]] or None,
        "output_min": cfg["omin"], "output_max": cfg["omax"],
        "num_projection_iterations": draw(st.sampled_from([0, 1, 3])),
        "interpolation": draw(st.sampled_from(["hypercube", "simplex"]))}
  return kw


@st.composite
def base_pwl(draw):
  c = draw(S.pwl_config(max_k=5))
  return {"input_keypoints": list(c["keypoints"]), "units": c["units"],
          "output_min": c["omin"], "output_max": c["omax"],
          "clamp_min": c["clamp_min"], "clamp_max": c["clamp_max"],
          "monotonicity": c["mono"], "convexity": c["conv"],
          "is_cyclic": c["cyclic"],
          "num_projection_iterations": draw(st.sampled_from([0, 1, 4])),
          "impute_missing": False, "input_keypoints_type": "fixed"}


@st.composite
def base_linear(draw):
  c = draw(S.linear_config(max_dims=4))
  kw = S.linear_kwargs(c)
  out = {"num_input_dims": c["dims"], "units": c["units"],
         "monotonicities": kw["monotonicities"],
         "input_min": kw.get("input_min"), "input_max": kw.get("input_max"),
         "monotonic_dominances": [T(*p) for p in c["mono_dom"]] or None,
         "range_dominances": [T(*p) for p in c["range_dom"]] or None,
         "normalization_order": c["norm"], "use_bias": c["use_bias"]}
  return out


@st.composite
def base_categorical(draw):
  n = draw(st.integers(1, 5))
  pairs = draw(S.dag_pairs(n, max_edges=3)) if n >= 2 else []
  bm = draw(st.sampled_from(["none", "both", "min"]))
  return {"num_buckets": n, "units": draw(st.sampled_from([1, 2])),
          "monotonicities": [T(*p) for p in pairs] or None,
          "output_min": 0.0 if bm != "none" else None,
          "output_max": 1.0 if bm == "both" else None,
          "default_input_value": draw(st.sampled_from([None, -1]))}


@st.composite
def base_kfl(draw):
  from props.c07 import kfl_config
  c = draw(kfl_config())
  return {"lattice_sizes": c["size"], "units": c["units"],
          "num_terms": c["terms"], "dims": c["dims"],
          "monotonicities": list(c["mono"]) if any(c["mono"]) else None,
          "output_min": c["omin"], "output_max": c["omax"],
          "clip_inputs": c["clip"]}


@st.composite
def base_rtl(draw):
  n_inc = draw(st.integers(0, 3))
  n_un = draw(st.integers(0 if n_inc else 1, 3))
  rank = draw(st.integers(1, min(3, n_inc + n_un)))
  nl = draw(st.integers(1, 4))
  while nl * rank < n_inc + n_un:
    nl += 1
  param = draw(st.sampled_from(["all_vertices", "all_vertices",
                                "kronecker_factored"]))
  bm = draw(st.booleans())
  return {"num_lattices": nl, "lattice_rank": rank,
          "lattice_size": draw(st.integers(2, 3)), "n_inc": n_inc, "n_un": n_un,
          "output_min": 0.0 if bm else None, "output_max": 1.0 if bm else None,
          "parameterization": param,
          "kernel_initializer": "random_monotonic_initializer" if param ==
          "all_vertices" else "kfl_random_monotonic_initializer",
          "interpolation": draw(st.sampled_from(["hypercube", "simplex"])),
          "random_seed": draw(st.integers(0, 99)),
          "separate_outputs": draw(st.booleans()), "kernel_regularizer": None}


@st.composite
def base_cdf(draw):
  sf = draw(st.sampled_from([1, 1, 2]))
  return {"num_keypoints": draw(st.integers(1, 5)),
          "units": sf * draw(st.integers(1, 2)),
          "input_dim": sf * draw(st.integers(1, 3)),
          "activation": draw(st.sampled_from(["relu6", "sigmoid"])),
          "reduction": draw(st.sampled_from(["mean", "geometric_mean", "none"])),
          "input_scaling_type": draw(st.sampled_from(
              ["fixed", "learned_shared", "learned_per_input"])),
          "sparsity_factor": sf}


BASES = {"lattice": base_lattice, "lattice_constraints": base_lattice,
         "pwl": base_pwl, "linear": base_linear,
         "categorical": base_categorical, "kfl": base_kfl, "rtl": base_rtl,
         "cdf": base_cdf}

# ====================================================================
# mutations: id -> (kind(s), listed?, function(draw, kw) -> kw or None)


def _dims(kw):
  return len(kw["lattice_sizes"])


def m_lat_size_lt2(draw, kw):
  i = draw(st.integers(0, _dims(kw) - 1))
  kw["lattice_sizes"][i] = draw(st.sampled_from([1, 0, -1]))
  return kw


def m_lat_mono_and_unimod(draw, kw):
  d = _dims(kw)
  i = draw(st.integers(0, d - 1))
  kw["monotonicities"] = list(kw["monotonicities"] or [0] * d)
  kw["monotonicities"][i] = 1
  u = list(kw["unimodalities"] or [0] * d)
  u[i] = draw(st.sampled_from([1, -1, "valley", "peak"]))
  kw["unimodalities"] = u
  return kw


def m_lat_trust_nonmono_main(draw, kw):
  d = _dims(kw)
  if d < 2:
    return None
  m = draw(st.integers(0, d - 1))
  c = draw(st.integers(0, d - 2))
  c = c if c < m else c + 1
  kw["monotonicities"][m] = 0
  key = draw(st.sampled_from(["edgeworth_trusts", "trapezoid_trusts"]))
  kw[key] = (kw[key] or []) + [T(m, c, 1)]
  return kw


def m_lat_main_and_cond(draw, kw):
  d = _dims(kw)
  if d < 2:
    return None
  a = draw(st.integers(0, d - 1))
  b = draw(st.integers(0, d - 2))
  b = b if b < a else b + 1
  kw["monotonicities"][a] = kw["monotonicities"][b] = 1
  kw["unimodalities"] = None
  kw["joint_unimodalities"] = None
  kw["edgeworth_trusts"] = [T(a, b, 1), T(b, a, 1)]
  kw["trapezoid_trusts"] = None
  return kw


def m_lat_dom_nonmono(draw, kw):
  d = _dims(kw)
  if d < 2:
    return None
  a = draw(st.integers(0, d - 1))
  b = draw(st.integers(0, d - 2))
  b = b if b < a else b + 1
  kw["monotonicities"][draw(st.sampled_from([a, b]))] = 0
  key = draw(st.sampled_from(["monotonic_dominances", "range_dominances"]))
  kw[key] = [T(a, b)]
  return kw


def m_omin_gt_omax(draw, kw):
  kw["output_min"], kw["output_max"] = 2.0, 1.0
  return kw


def m_lat_mono_len(draw, kw):
  kw["monotonicities"] = list(kw["monotonicities"]) + [0]
  return kw


def m_lat_unimod_small(draw, kw):
  d = _dims(kw)
  i = draw(st.integers(0, d - 1))
  kw["lattice_sizes"][i] = 2
  kw["monotonicities"][i] = 0
  u = list(kw["unimodalities"] or [0] * d)
  u[i] = 1
  kw["unimodalities"] = u
  return kw


def m_lat_bad_mono_value(draw, kw):
  i = draw(st.integers(0, _dims(kw) - 1))
  kw["monotonicities"][i] = draw(st.sampled_from(["decreasing", -1, 2, "up"]))
  return kw


def m_bad_interpolation(draw, kw):
  kw["interpolation"] = draw(st.sampled_from(["linear", "Hypercube", ""]))
  return kw


def m_lat_opposite_trusts(draw, kw):
  d = _dims(kw)
  if d < 2:
    return None
  a = draw(st.integers(0, d - 1))
  b = draw(st.integers(0, d - 2))
  b = b if b < a else b + 1
  kw["monotonicities"][a] = 1
  kw["edgeworth_trusts"] = [T(a, b, 1)]
  kw["trapezoid_trusts"] = [T(a, b, -1)]
  return kw


def m_lat_trust_malformed(draw, kw):
  d = _dims(kw)
  if d < 2:
    return None
  kw["monotonicities"][0] = 1
  kw["edgeworth_trusts"] = [draw(st.sampled_from(
      [T(0, 1), T(0, 1, 0), T(0, 1, "up"), T(0, 1, 1, 1)]))]
  return kw


def m_lat_dims_out_of_range(draw, kw):
  d = _dims(kw)
  kw["monotonicities"] = [1] * d
  key = draw(st.sampled_from(["edgeworth_trusts", "monotonic_dominances",
                              "joint_monotonicities"]))
  bad = draw(st.sampled_from([d, d + 3, -1]))
  kw[key] = [T(0, bad, 1)] if key == "edgeworth_trusts" else [T(0, bad)]
  return kw


def m_lat_junimod_bad(draw, kw):
  d = _dims(kw)
  which = draw(st.sampled_from(["monotone", "small", "repeat", "direction"]))
  kw["lattice_sizes"] = [max(3, s) for s in kw["lattice_sizes"]]
  kw["monotonicities"] = [0] * d
  kw["unimodalities"] = None
  for k in ("edgeworth_trusts", "trapezoid_trusts", "monotonic_dominances",
            "range_dominances"):
    kw[k] = None
  if which == "monotone":
    kw["monotonicities"][0] = 1
    kw["joint_unimodalities"] = [T(T(0), "valley")]
  elif which == "small":
    kw["lattice_sizes"][0] = 2
    kw["joint_unimodalities"] = [T(T(0), "peak")]
  elif which == "repeat":
    kw["joint_unimodalities"] = [T(T(0, 0), "valley")]
  else:
    kw["joint_unimodalities"] = [T(T(0), "up")]
  return kw


def m_lat_units_rank(draw, kw):
  kw["units"] = 3
  kw["_input_rank2"] = True
  return kw


# ---- unlisted (odd but not named): must be ValueError up front or total
def m_lat_tuple_spelling(draw, kw):
  kw["lattice_sizes"] = T(*kw["lattice_sizes"])
  kw["monotonicities"] = T(*kw["monotonicities"])
  if kw["unimodalities"]:
    kw["unimodalities"] = T(*kw["unimodalities"])
  return kw


def m_lat_np_sizes(draw, kw):
  kw["lattice_sizes"] = [{"np_int": s} for s in kw["lattice_sizes"]]
  return kw


def m_lat_self_dominance(draw, kw):
  d = _dims(kw)
  a = draw(st.integers(0, d - 1))
  kw["monotonicities"][a] = 1
  if kw["unimodalities"]:
    kw["unimodalities"][a] = 0
  kw["joint_unimodalities"] = None
  key = draw(st.sampled_from(["monotonic_dominances", "range_dominances",
                              "joint_monotonicities"]))
  kw[key] = [T(a, a)]
  return kw


def m_lat_duplicate_constraint(draw, kw):
  for key in ("edgeworth_trusts", "trapezoid_trusts", "monotonic_dominances",
              "range_dominances", "joint_monotonicities"):
    if kw[key]:
      kw[key] = kw[key] + [kw[key][0]]
      return kw
  return None


def m_lat_single_tuple(draw, kw):
  for key in ("edgeworth_trusts", "trapezoid_trusts", "monotonic_dominances",
              "range_dominances", "joint_monotonicities"):
    if kw[key] and len(kw[key]) == 1:
      kw[key] = kw[key][0]
      return kw
  return None


def m_lat_string_spelling(draw, kw):
  kw["monotonicities"] = ["increasing" if m == 1 else "none"
                          for m in kw["monotonicities"]]
  if kw["unimodalities"]:
    kw["unimodalities"] = [{1: "valley", -1: "peak", 0: "none"}[u]
                           for u in kw["unimodalities"]]
  return kw


def m_iters_odd(draw, kw):
  kw["num_projection_iterations"] = draw(st.sampled_from([0, 1, 17]))
  return kw


def m_equal_bounds(draw, kw):
  kw["output_min"] = kw["output_max"] = 0.5
  return kw


# ---- PWL
def m_pwl_few_keypoints(draw, kw):
  kw["input_keypoints"] = kw["input_keypoints"][:draw(st.integers(0, 1))]
  return kw


def m_pwl_unsorted(draw, kw):
  kp = list(kw["input_keypoints"])
  if draw(st.booleans()):
    kp[-1] = kp[0]                  # not strictly increasing
  else:
    kp = kp[::-1]
  kw["input_keypoints"] = kp
  return kw


def m_pwl_cyclic_mono(draw, kw):
  if len(kw["input_keypoints"]) < 3:
    kw["input_keypoints"] = [0.0, 1.0, 2.0]
  kw["is_cyclic"] = True
  kw["clamp_min"] = kw["clamp_max"] = False
  if draw(st.booleans()):
    kw["monotonicity"] = draw(st.sampled_from([1, -1, "increasing"]))
  else:
    kw["convexity"] = draw(st.sampled_from([1, -1, "convex"]))
  return kw


def m_pwl_missing_without_impute(draw, kw):
  kw["impute_missing"] = False
  if draw(st.booleans()):
    kw["missing_input_value"] = -1.0
  else:
    kw["missing_output_value"] = 0.0
  return kw


def m_pwl_convex_learned(draw, kw):
  kw["is_cyclic"] = False
  kw["convexity"] = draw(st.sampled_from([1, -1, "concave"]))
  kw["input_keypoints_type"] = "learned_interior"
  return kw


def m_pwl_bad_kp_type(draw, kw):
  kw["input_keypoints_type"] = draw(st.sampled_from(["learned", "free", ""]))
  return kw


def m_pwl_bad_strings(draw, kw):
  if draw(st.booleans()):
    kw["monotonicity"] = draw(st.sampled_from(["up", 2, "valley"]))
  else:
    kw["convexity"] = draw(st.sampled_from(["flat", 3, "increasing"]))
  return kw


def m_pwl_clamp_without_mono(draw, kw):
  kw["monotonicity"] = 0
  kw["is_cyclic"] = False
  kw["output_min"], kw["output_max"] = 0.0, 1.0
  kw["clamp_min"] = True
  kw["_late_ok"] = True          # documented late ValueError (at projection)
  return kw


def m_pwl_string_spelling(draw, kw):
  kw["monotonicity"] = {1: "increasing", -1: "decreasing", 0: "none"}.get(
      kw["monotonicity"], kw["monotonicity"])
  kw["convexity"] = {1: "convex", -1: "concave", 0: "none"}.get(
      kw["convexity"], kw["convexity"])
  return kw


def m_pwl_np_keypoints(draw, kw):
  kw["input_keypoints"] = {"np_arr": list(kw["input_keypoints"])}
  return kw


def m_pwl_missing_modes(draw, kw):
  kw["impute_missing"] = True
  kw["missing_input_value"] = draw(st.sampled_from([None, -7.0]))
  kw["missing_output_value"] = draw(st.sampled_from([None, 0.25]))
  return kw


def m_pwl_learned(draw, kw):
  if kw["convexity"] not in (0, "none"):
    return None
  kw["input_keypoints_type"] = "learned_interior"
  return kw


# ---- Linear
def m_lin_mono_len(draw, kw):
  kw["monotonicities"] = list(kw["monotonicities"]) + [1]
  return kw


def m_lin_dom_nonincreasing(draw, kw):
  d = kw["num_input_dims"]
  if d < 2:
    return None
  kw["monotonicities"] = [1] * d
  kw["monotonicities"][1] = draw(st.sampled_from([0, -1]))
  kw["monotonic_dominances"] = [T(0, 1)]
  kw["range_dominances"] = None
  return kw


def m_lin_rdom_bad(draw, kw):
  d = kw["num_input_dims"]
  if d < 2:
    return None
  kw["monotonic_dominances"] = None
  kw["range_dominances"] = [T(0, 1)]
  if draw(st.booleans()):
    kw["monotonicities"] = [1, -1] + [0] * (d - 2)
    kw["input_min"] = [0.0] * d
    kw["input_max"] = [1.0] * d
  else:
    kw["monotonicities"] = [1, 1] + [0] * (d - 2)
    kw["input_min"] = [0.0] * d
    kw["input_max"] = None
  return kw


def m_lin_both_dominances(draw, kw):
  d = kw["num_input_dims"]
  if d < 2:
    return None
  kw["monotonicities"] = [1] * d
  kw["input_min"], kw["input_max"] = [0.0] * d, [1.0] * d
  kw["monotonic_dominances"] = [T(0, 1)]
  kw["range_dominances"] = [T(1, 0)] if draw(st.booleans()) else [T(0, 1)]
  return kw


def m_lin_two_directions(draw, kw):
  d = kw["num_input_dims"]
  if d < 2:
    return None
  kw["monotonicities"] = [1] * d
  kw["range_dominances"] = None
  kw["monotonic_dominances"] = [T(0, 1), T(1, 0)]
  return kw


def m_lin_bad_bound_type(draw, kw):
  d = kw["num_input_dims"]
  kw["monotonicities"] = [1] * d
  kw["input_min"] = [draw(st.sampled_from(["zero", {"t": [0.0]}]))] + [0.0] * (
      d - 1)
  kw["input_max"] = [1.0] * d
  return kw


def m_lin_scalar_mono(draw, kw):
  kw["monotonicities"] = draw(st.sampled_from(["increasing", 1, "none", 0,
                                               "decreasing", -1]))
  kw["monotonic_dominances"] = kw["range_dominances"] = None
  return kw


def m_lin_none_strings(draw, kw):
  d = kw["num_input_dims"]
  if kw["range_dominances"]:
    return None
  kw["input_min"] = ["none" if v is None else v
                     for v in (kw["input_min"] or [None] * d)]
  kw["input_max"] = ["none" if v is None else v
                     for v in (kw["input_max"] or [None] * d)]
  return kw


def m_lin_zero_width(draw, kw):
  d = kw["num_input_dims"]
  if d < 2:
    return None
  kw["monotonicities"] = [1] * d
  kw["monotonic_dominances"] = None
  kw["input_min"] = [0.0] * d
  kw["input_max"] = [0.0] + [1.0] * (d - 1)
  kw["range_dominances"] = [T(1, 0)]
  return kw


def m_lin_inverted_range_unconstrained(draw, kw):
  d = kw["num_input_dims"]
  kw["monotonicities"] = [0] * d
  kw["monotonic_dominances"] = kw["range_dominances"] = None
  kw["normalization_order"] = None
  kw["input_min"], kw["input_max"] = [1.0] * d, [0.0] * d
  return kw


def m_lin_cycle_with_root(draw, kw):
  d = kw["num_input_dims"]
  if d < 4:
    return None
  kw["monotonicities"] = [1] * d
  kw["range_dominances"] = None
  kw["monotonic_dominances"] = [T(0, 1), T(1, 2), T(2, 3), T(3, 1)]
  return kw


# ---- categorical
def m_cat_pairs_malformed(draw, kw):
  kw["monotonicities"] = draw(st.sampled_from(
      [[T(0, 1, 2)], [0, 1], T(T(0, 1))]))
  return kw


def m_cat_index_range(draw, kw):
  n = kw["num_buckets"]
  kw["monotonicities"] = [T(0, draw(st.sampled_from([n, n + 2, -1])))]
  return kw


def m_cat_two_cycle(draw, kw):
  if kw["num_buckets"] < 2:
    return None
  kw["monotonicities"] = [T(0, 1), T(1, 0)]
  return kw


def m_cat_list_pairs(draw, kw):
  if not kw["monotonicities"]:
    return None
  kw["monotonicities"] = [list(p["t"]) for p in kw["monotonicities"]]
  return kw


# ---- KFL
def m_kfl_size(draw, kw):
  kw["lattice_sizes"] = draw(st.sampled_from([1, 0, -2]))
  return kw


def m_kfl_units(draw, kw):
  kw["units"] = draw(st.sampled_from([0, -1]))
  return kw


def m_kfl_terms(draw, kw):
  kw["num_terms"] = draw(st.sampled_from([0, -1]))
  return kw


def m_kfl_bounds(draw, kw):
  kw["output_min"], kw["output_max"] = 1.0, draw(st.sampled_from([1.0, 0.0]))
  return kw


def m_kfl_mono(draw, kw):
  d = kw["dims"]
  if draw(st.booleans()):
    kw["monotonicities"] = [1] * (d + 1)
  else:
    kw["monotonicities"] = ["decreasing"] + [0] * (d - 1)
  return kw


def m_kfl_string_mono(draw, kw):
  if not kw["monotonicities"]:
    return None
  kw["monotonicities"] = T(*["increasing" if m else "none"
                             for m in kw["monotonicities"]])
  return kw


# ---- RTL
def m_rtl_size(draw, kw):
  kw["lattice_size"] = draw(st.sampled_from([1, 0]))
  return kw


def m_rtl_bounds(draw, kw):
  kw["output_min"], kw["output_max"] = 1.0, draw(st.sampled_from([1.0, -1.0]))
  return kw


def m_rtl_kfl_linear_init(draw, kw):
  kw["parameterization"] = "kronecker_factored"
  kw["kernel_initializer"] = "linear_initializer"
  return kw


def m_rtl_kfl_regularizer(draw, kw):
  kw["parameterization"] = "kronecker_factored"
  kw["kernel_initializer"] = "kfl_random_monotonic_initializer"
  kw["kernel_regularizer"] = ["torsion", 0.1, 0.1]
  return kw


def m_rtl_bad_regularizer(draw, kw):
  kw["parameterization"] = "all_vertices"
  kw["kernel_initializer"] = "random_monotonic_initializer"
  kw["kernel_regularizer"] = draw(st.sampled_from(
      [["laplacian", 0.1], [["torsion", 1, 0.5]]]))
  return kw


def m_rtl_too_few_slots(draw, kw):
  kw["num_lattices"], kw["lattice_rank"] = 1, 1
  kw["n_inc"], kw["n_un"] = 2, 1
  return kw


def m_rtl_bad_key(draw, kw):
  kw["_bad_key"] = True
  return kw


def m_rtl_regularizer_ok(draw, kw):
  kw["parameterization"] = "all_vertices"
  kw["kernel_initializer"] = "random_monotonic_initializer"
  kw["kernel_regularizer"] = draw(st.sampled_from(
      [["laplacian", 0.1, 0.0], [["torsion", 0.5, 0.5], ["laplacian", 0.0, 1.0]],
       T("torsion", 0.1, 0.2)]))
  return kw


# ---- CDF
def m_cdf_sparsity(draw, kw):
  kw["sparsity_factor"] = 2
  if draw(st.booleans()):
    kw["input_dim"] = 3
  else:
    kw["units"] = 3
  return kw


def m_cdf_bad_strings(draw, kw):
  key = draw(st.sampled_from(["activation", "reduction", "input_scaling_type"]))
  kw[key] = draw(st.sampled_from(["tanh", "sum", "learned", ""]))
  return kw


MUTS = {
    "lattice": [
        ("L-size<2", True, m_lat_size_lt2),
        ("L-mono+unimod", True, m_lat_mono_and_unimod),
        ("L-trust-nonmono-main", True, m_lat_trust_nonmono_main),
        ("L-main-and-cond", True, m_lat_main_and_cond),
        ("L-dominance-nonmono", True, m_lat_dom_nonmono),
        ("L-omin>omax", True, m_omin_gt_omax),
        ("L-mono-length", True, m_lat_mono_len),
        ("L-unimod-size<3", True, m_lat_unimod_small),
        ("L-bad-monotonicity", True, m_lat_bad_mono_value),
        ("L-bad-interpolation", True, m_bad_interpolation),
        ("L-opposite-trusts", True, m_lat_opposite_trusts),
        ("L-trust-malformed", True, m_lat_trust_malformed),
        ("L-dims-out-of-range", True, m_lat_dims_out_of_range),
        ("L-junimod-invalid", True, m_lat_junimod_bad),
        ("L-units-input-rank", True, m_lat_units_rank),
        ("l-tuple-spelling", False, m_lat_tuple_spelling),
        ("l-numpy-sizes", False, m_lat_np_sizes),
        ("l-self-dominance", False, m_lat_self_dominance),
        ("l-duplicate-constraint", False, m_lat_duplicate_constraint),
        ("l-single-tuple", False, m_lat_single_tuple),
        ("l-string-spelling", False, m_lat_string_spelling),
        ("l-iterations", False, m_iters_odd),
    ],
    "pwl": [
        ("P-keypoints<2", True, m_pwl_few_keypoints),
        ("P-unsorted-keypoints", True, m_pwl_unsorted),
        ("P-omin>omax", True, m_omin_gt_omax),
        ("P-cyclic+mono/convex", True, m_pwl_cyclic_mono),
        ("P-missing-without-impute", True, m_pwl_missing_without_impute),
        ("P-convexity+learned", True, m_pwl_convex_learned),
        ("P-bad-keypoint-type", True, m_pwl_bad_kp_type),
        ("P-bad-strings", True, m_pwl_bad_strings),
        ("P-clamp-without-mono", True, m_pwl_clamp_without_mono),
        ("p-string-spelling", False, m_pwl_string_spelling),
        ("p-numpy-keypoints", False, m_pwl_np_keypoints),
        ("p-missing-modes", False, m_pwl_missing_modes),
        ("p-learned-keypoints", False, m_pwl_learned),
        ("p-equal-bounds", False, m_equal_bounds),
        ("p-iterations", False, m_iters_odd),
    ],
    "linear": [
        ("N-mono-length", True, m_lin_mono_len),
        ("N-dominance-nonincreasing", True, m_lin_dom_nonincreasing),
        ("N-range-dominance-invalid", True, m_lin_rdom_bad),
        ("N-both-dominance-kinds", True, m_lin_both_dominances),
        ("N-two-directions", True, m_lin_two_directions),
        ("N-bad-bound-type", True, m_lin_bad_bound_type),
        ("n-scalar-monotonicity", False, m_lin_scalar_mono),
        ("n-none-strings", False, m_lin_none_strings),
        ("n-zero-width-range-dominance", False, m_lin_zero_width),
        ("n-inverted-range-unconstrained", False,
         m_lin_inverted_range_unconstrained),
        ("N-cyclic-dominance", True, m_lin_cycle_with_root),
    ],
    "categorical": [
        ("K-omin>omax", True, m_omin_gt_omax),
        ("K-pairs-malformed", True, m_cat_pairs_malformed),
        ("K-index-out-of-range", True, m_cat_index_range),
        ("K-two-cycle", True, m_cat_two_cycle),
        ("k-list-pairs", False, m_cat_list_pairs),
        ("k-equal-bounds", False, m_equal_bounds),
    ],
    "kfl": [
        ("F-size<2", True, m_kfl_size),
        ("F-units<1", True, m_kfl_units),
        ("F-terms<1", True, m_kfl_terms),
        ("F-omin>=omax", True, m_kfl_bounds),
        ("F-monotonicities", True, m_kfl_mono),
        ("f-string-monotonicities", False, m_kfl_string_mono),
    ],
    "rtl": [
        ("R-size<2", True, m_rtl_size),
        ("R-omin>=omax", True, m_rtl_bounds),
        ("R-bad-interpolation", True, m_bad_interpolation),
        ("R-kfl-linear-init", True, m_rtl_kfl_linear_init),
        ("R-kfl-regularizer", True, m_rtl_kfl_regularizer),
        ("R-bad-regularizer", True, m_rtl_bad_regularizer),
        ("R-too-few-slots", True, m_rtl_too_few_slots),
        ("R-bad-input-key", True, m_rtl_bad_key),
        ("r-regularizer", False, m_rtl_regularizer_ok),
    ],
    "cdf": [
        ("C-sparsity", True, m_cdf_sparsity),
        ("C-bad-strings", True, m_cdf_bad_strings),
    ],
}
SPELLING = {"l-tuple-spelling", "l-numpy-sizes", "l-single-tuple",
            "l-string-spelling", "p-numpy-keypoints", "p-string-spelling",
            "n-scalar-monotonicity", "n-none-strings", "k-list-pairs",
            "f-string-monotonicities"}
# (single tuples are wrapped by the Lattice layer's constructor only.)
MUTS["lattice_constraints"] = [m for m in MUTS["lattice"] if m[0] not in (
    "L-units-input-rank", "L-bad-interpolation", "l-iterations",
    "l-single-tuple")]
MUT_INDEX = {(k, m[0]): m for k, ms in MUTS.items() for m in ms}


@st.composite
def _layer_case(draw, tier):
  kind = draw(st.sampled_from(["lattice", "lattice", "lattice_constraints",
                               "pwl", "pwl", "linear", "linear", "categorical",
                               "kfl", "rtl", "cdf"]))
  kw = draw(BASES[kind]())
  nm = draw(st.sampled_from([0, 1, 1, 1, 2]))
  applied = []
  chosen = [draw(st.sampled_from(MUTS[kind])) for _ in range(nm)]
  # At most one listed-invalid mutation, applied after the unlisted ones so
  # that nothing can undo it; spelling mutations change container types and
  # are only applied (last) when no listed mutation is present.
  listed_ones = [m for m in chosen if m[1]][:1]
  others = [m for m in chosen if not m[1] and m[0] not in SPELLING]
  spell = [m for m in chosen if m[0] in SPELLING] if not listed_ones else []
  for mid, listed, fn in others + listed_ones + spell:
    if mid in applied:
      continue
    new = fn(draw, copy.deepcopy(kw))
    if new is not None:
      kw = new
      applied.append(mid)
  return {"target": "layer", "kind": kind, "kwargs": kw, "muts": applied,
          "weights": draw(S.array_desc(scales=[1e-3, 1.0, 1.0, 10.0, 1e3])),
          "x": draw(S.array_desc(kinds=["normal", "uniform", "ints", "ties"],
                                 scales=[1e-2, 1.0, 1.0, 10.0, 1e3])),
          "aux": draw(S.seeds)}


PREMADE_MUTS = ["none", "none", "no-feature-configs", "ensemble-no-structure",
                "ensemble-one-lattice", "rtl-mixed-sizes", "rtl-unimodality",
                "rtl-trust", "rtl-dominance", "kfl-regularizer",
                "kfl-mixed-sizes", "kfl-unimodality", "kfl-trust",
                "nonnumeric-keypoints", "nonnumeric-output-init",
                "categorical-monotonicity-malformed", "lattices-not-lists"]


@st.composite
def _premade_case(draw, tier):
  mut = draw(st.sampled_from(PREMADE_MUTS))
  if mut.startswith("rtl-"):
    kinds = ["ensemble_rtl"]
  elif mut.startswith("ensemble-") or mut == "lattices-not-lists":
    kinds = ["ensemble_explicit", "ensemble_random", "ensemble_rtl"]
  elif mut.startswith("kfl-"):
    kinds = ["lattice", "ensemble_explicit", "ensemble_random", "ensemble_rtl"]
  else:
    kinds = ["linear", "lattice", "ensemble_explicit", "ensemble_random",
             "ensemble_rtl"]
  desc = draw(M.model_desc(tier, kinds=kinds))
  return {"target": "premade", "desc": desc, "mut": mut, "aux": draw(S.seeds)}


SYN_KINDS = ["lattice", "lattice", "pwl", "linear", "kfl", "rtl_cfg"]


@st.composite
def _synonym_case(draw, tier):
  kind = draw(st.sampled_from(SYN_KINDS))
  base = {"lattice": base_lattice, "pwl": base_pwl, "linear": base_linear,
          "kfl": base_kfl, "rtl_cfg": base_lattice}[kind]
  return {"target": "synonym", "kind": kind if kind != "rtl_cfg" else
          "lattice_constraints", "kwargs": draw(base()),
          "weights": draw(S.array_desc(scales=[1e-3, 1.0, 1.0, 10.0])),
          "x": draw(S.array_desc(kinds=["normal", "uniform"],
                                 scales=[1.0, 3.0])),
          "aux": draw(S.seeds)}


def strategy(tier):
  return st.one_of(_layer_case(tier), _layer_case(tier), _layer_case(tier),
                   _layer_case(tier), _synonym_case(tier), _premade_case(tier))


# ====================================================================
# execution


class Stage(Exception):
  pass


def _build_layer(kind, kw):
  """Returns (layer_or_constraint, build_fn, weight variables getter, call)."""
  import tensorflow as tf
  import tensorflow_lattice as tfl
  kw = decode(copy.deepcopy(kw))
  late_ok = kw.pop("_late_ok", False)
  rank2 = kw.pop("_input_rank2", False)
  bad_key = kw.pop("_bad_key", False)
  info = {"late_ok": late_ok}
  if kind == "lattice":
    layer = tfl.layers.Lattice(**kw)
    d = len(kw["lattice_sizes"])
    u = kw["units"]
    shape = (None, d) if (u == 1 or rank2) else (None, u, d)
    xshape = lambda b: (b, d) if (u == 1 or rank2) else (b, u, d)
    xr = (-1.0, float(max(2, max(int(s) for s in kw["lattice_sizes"]))))
    return layer, shape, xshape, xr, info
  if kind == "pwl":
    layer = tfl.layers.PWLCalibration(**kw)
    u = kw["units"]
    kp = np.asarray(kw["input_keypoints"], np.float64)
    return layer, (None, u), (lambda b: (b, u)), (
        float(kp.min()) - 2.0, float(kp.max()) + 2.0), info
  if kind == "linear":
    layer = tfl.layers.Linear(**kw)
    d, u = kw["num_input_dims"], kw["units"]
    shape = (None, d) if u == 1 else (None, u, d)
    return layer, shape, (lambda b: (b, d) if u == 1 else (b, u, d)), (
        -3.0, 3.0), info
  if kind == "categorical":
    layer = tfl.layers.CategoricalCalibration(**kw)
    u = kw["units"]
    info["int_inputs"] = int(kw["num_buckets"])
    return layer, (None, u), (lambda b: (b, u)), (0, kw["num_buckets"]), info
  if kind == "kfl":
    d = kw.pop("dims")
    layer = tfl.layers.KroneckerFactoredLattice(**kw)
    u = kw["units"]
    shape = tf.TensorShape((None, d) if u == 1 else (None, u, d))
    return layer, shape, (lambda b: (b, d) if u == 1 else (b, u, d)), (
        -1.0, float(kw["lattice_sizes"])), info
  if kind == "rtl":
    n_inc, n_un = kw.pop("n_inc"), kw.pop("n_un")
    layer = tfl.layers.RTL(**kw)
    info["rtl"] = (n_inc, n_un, bad_key)
    return layer, None, None, (0.0, float(kw["lattice_size"]) - 1.0), info
  if kind == "cdf":
    d = kw.pop("input_dim")
    layer = tfl.layers.CDF(**kw)
    return layer, (None, d), (lambda b: (b, d)), (-1.0, 2.0), info
  raise ValueError(kind)


def _run_layer_pipeline(case, out, kw=None):
  """Runs construct/build/project/evaluate; returns dict with stage results.

  result["rejected"] = (stage, exc) when an exception ended the pipeline;
  result["outputs"] / ["weights"] arrays when it completed.
  """
  import tensorflow as tf
  import tensorflow_lattice as tfl
  kind = case["kind"]
  kw = case["kwargs"] if kw is None else kw
  res = {"rejected": None, "stage": "construct", "late_ok": bool(
      isinstance(kw, dict) and kw.get("_late_ok"))}
  rs = np.random.RandomState(case["aux"])
  try:
    if kind == "lattice_constraints":
      k = decode(copy.deepcopy(kw))
      for drop in ("units", "interpolation", "_input_rank2"):
        k.pop(drop, None)
      units = kw["units"]
      con = tfl.lattice_layer.LatticeConstraints(**k)
      res["stage"] = "project"
      n = int(np.prod([int(s) for s in decode(kw["lattice_sizes"])]))
      w = S.materialize(case["weights"], (n, units))
      w = np.clip(w, -1e3, 1e3)
      pw = con(tf.constant(w)).numpy()
      res["weights"] = pw
      res["outputs"] = pw
      return res
    layer, shape, xshape, xr, info = _build_layer(kind, kw)
    res["late_ok"] = info["late_ok"]
    res["stage"] = "build"
    if kind == "rtl":
      n_inc, n_un, bad_key = info["rtl"]
      b = 3
      inputs = {}
      if n_inc:
        inputs["increasing"] = tf.constant(
            rs.uniform(xr[0], xr[1], size=(b, n_inc)).astype(np.float32))
      if n_un:
        key = "unconstrained" if not bad_key else "free"
        inputs[key] = tf.constant(
            rs.uniform(xr[0], xr[1], size=(b, n_un)).astype(np.float32))
      elif bad_key:
        inputs["monotone"] = inputs.pop("increasing")
      y = layer(inputs)
      res["stage"] = "project"
      for v in layer.trainable_variables:
        if v.constraint is not None:
          tgt = np.clip(S.materialize(case["weights"], (int(np.prod(
              v.shape)), 1)).reshape(tuple(v.shape)), -1e3, 1e3)
          v.assign(tgt)
      for v in layer.trainable_variables:
        if v.constraint is not None:
          v.assign(v.constraint(v))
      res["stage"] = "evaluate"
      y = layer(inputs)
      ys = list(y.values()) if isinstance(y, dict) else [y]
      res["outputs"] = np.concatenate([t.numpy().reshape(-1) for t in ys])
      res["weights"] = np.concatenate(
          [v.numpy().reshape(-1) for v in layer.trainable_variables])
      return res
    layer.build(shape)
    res["stage"] = "project"
    for v in layer.trainable_variables:
      tgt = np.clip(S.materialize(case["weights"], (int(np.prod(v.shape)), 1)
                                  ).reshape(tuple(v.shape)), -1e3, 1e3)
      if "interpolation_logits" in v.name:
        tgt = np.clip(tgt, -29, 29)
      v.assign(tgt)
    for v in layer.trainable_variables:
      if v.constraint is not None:
        v.assign(v.constraint(v))
    res["weights"] = np.concatenate(
        [v.numpy().reshape(-1) for v in layer.trainable_variables] or
        [np.zeros(1)])
    res["stage"] = "evaluate"
    b = 4
    xs = xshape(b)
    x = S.materialize(case["x"], (int(np.prod(xs)), 1)).reshape(xs)
    if "int_inputs" in info:
      x = (np.abs(x).astype(np.int64) % max(1, info["int_inputs"])).astype(
          np.int32)
    else:
      x = np.clip(x, -1e3, 1e3).astype(np.float32)
    if kind == "pwl" and decode(kw).get("impute_missing") and decode(kw).get(
        "missing_input_value") is None:
      # documented call form without missing_input_value: [x, is_missing]
      miss = (np.arange(x.size).reshape(x.shape) % 3 == 0).astype(np.float32)
      y = layer([tf.constant(x), tf.constant(miss)])
    else:
      y = layer(tf.constant(x))
    ys = y if isinstance(y, list) else [y]
    res["outputs"] = np.concatenate([t.numpy().reshape(-1) for t in ys])
    return res
  except Exception as e:  # pylint: disable=broad-except
    res["rejected"] = (res["stage"], e)
    return res


def _judge_pipeline(case, res, listed, out, sig):
  rej = res["rejected"]
  kind = case["kind"]
  if rej is not None:
    stage, e = rej
    ok_type = isinstance(e, ValueError) or (
        kind == "rtl" and isinstance(e, KeyError) and "R-bad-input-key" in
        case["muts"])
    up_front = stage in ("construct", "build") or (
        kind == "lattice_constraints" and stage == "construct")
    out.checks += 1
    if listed:
      out.nontrivial = True
      if not ok_type:
        out.violate("listed-invalid configuration (%s) raised %s instead of "
                    "ValueError at %s: %s" % (listed, type(e).__name__, stage,
                                              str(e)[:200]),
                    kind="wrong-exception", exc=type(e).__name__, stage=stage,
                    **sig)
      else:
        out.label("rejected:listed@" + stage)
      return
    if ok_type and (up_front or res.get("late_ok")):
      out.label("rejected:unlisted@" + stage)
      return
    out.nontrivial = True
    out.violate("accepted configuration raised %s at %s: %s" % (
        type(e).__name__, stage, str(e)[:300]), kind="not-total",
                exc=type(e).__name__, stage=stage, **sig)
    return
  out.checks += 1
  out.nontrivial = True
  if listed:
    out.violate("listed-invalid configuration (%s) was accepted" % listed,
                kind="listed-accepted", **sig)
    return
  out.label("accepted:total")
  for name in ("weights", "outputs"):
    a = res.get(name)
    if a is not None and not np.all(np.isfinite(a)):
      out.violate("accepted configuration produced non-finite %s" % name,
                  kind="non-finite", what=name, **sig)
      return


def _run_layer(case, out):
  kind = case["kind"]
  listed = [m for m in case["muts"] if MUT_INDEX[(kind, m)][1]]
  out.label("layer:" + kind, *["mut:" + m for m in case["muts"]] or
            ["mut:none"])
  sig = dict(layer=kind, muts="+".join(sorted(set(case["muts"]))))
  if kind == "linear":
    kw = case["kwargs"]
    lo, hi = kw.get("input_min") or [], kw.get("input_max") or []
    sig["zero_width_range_dom"] = bool(any(
        i < len(lo) and i < len(hi) and lo[i] is not None and lo[i] == hi[i]
        for p in (kw.get("range_dominances") or []) for i in p["t"]))
  res = _run_layer_pipeline(case, out)
  _judge_pipeline(case, res, "+".join(listed), out, sig)


# ---------------------------------------------------------------- synonyms
def _respell(kind, kw, rs):
  """Returns (kw_a, kw_b, n_differences): two spellings of the same config."""
  a, b = copy.deepcopy(kw), copy.deepcopy(kw)
  n = 0
  if kind in ("lattice", "lattice_constraints"):
    b["monotonicities"] = ["increasing" if m == 1 else "none"
                           for m in a["monotonicities"]]
    n += 1
    if a["unimodalities"]:
      b["unimodalities"] = [{1: "valley", -1: "peak", 0: "none"}[u]
                            for u in a["unimodalities"]]
      n += 1
    for key in ("edgeworth_trusts", "trapezoid_trusts"):
      if a[key]:
        b[key] = [T(t["t"][0], t["t"][1], "positive" if t["t"][2] == 1 else
                    "negative") for t in a[key]]
        n += 1
    if kind == "lattice":
      for key in ("edgeworth_trusts", "trapezoid_trusts",
                  "monotonic_dominances", "range_dominances",
                  "joint_monotonicities", "joint_unimodalities"):
        if b[key] and len(b[key]) == 1:
          b[key] = b[key][0]        # single tuple instead of one-element list
          n += 1
  elif kind == "pwl":
    b["monotonicity"] = {1: "increasing", -1: "decreasing", 0: "none"}[
        a["monotonicity"]]
    b["convexity"] = {1: "convex", -1: "concave", 0: "none"}[a["convexity"]]
    n += 2
  elif kind == "linear":
    names = {1: "increasing", -1: "decreasing", 0: "none"}
    b["monotonicities"] = [names[m] for m in a["monotonicities"]]
    n += 1
    if len(set(a["monotonicities"])) == 1:
      a["monotonicities"] = a["monotonicities"][0]     # scalar spelling
      n += 1
    if not a["range_dominances"]:
      d = a["num_input_dims"]
      if a["input_min"]:
        b["input_min"] = ["none" if v is None else v for v in a["input_min"]]
        n += 1
  elif kind == "kfl":
    if a["monotonicities"]:
      b["monotonicities"] = ["increasing" if m else "none"
                             for m in a["monotonicities"]]
      n += 1
  return a, b, n


def _run_synonym(case, out):
  kind = case["kind"]
  rs = np.random.RandomState(case["aux"])
  a, b, n = _respell(kind, case["kwargs"], rs)
  out.label("synonym:" + kind)
  sig = dict(layer=kind, target="synonym")
  ca = dict(case, kwargs=a, muts=[])
  cb = dict(case, kwargs=b, muts=[])
  ra = _run_layer_pipeline(ca, out)
  rb = _run_layer_pipeline(cb, out)
  out.checks += 1
  out.nontrivial = n > 0
  for name, r in (("canonical", ra), ("synonym", rb)):
    if r["rejected"] is not None:
      stage, e = r["rejected"]
      out.violate("valid configuration (%s spelling) raised %s at %s: %s" % (
          name, type(e).__name__, stage, str(e)[:300]), kind="not-total",
                  exc=type(e).__name__, stage=stage, spelling=name, **sig)
      return
  for name in ("weights", "outputs"):
    if not np.array_equal(ra[name], rb[name]):
      out.violate("synonymous spellings give different %s (max diff %.3g)" % (
          name, float(np.max(np.abs(ra[name] - rb[name])))),
                  kind="synonym-differs", what=name, **sig)
      return


# ---------------------------------------------------------------- premade
def _run_premade(case, out):
  import tensorflow as tf
  import tensorflow_lattice as tfl
  desc = copy.deepcopy(case["desc"])
  mut = case["mut"]
  out.label("premade:" + desc["kind"], "mut:" + mut)
  sig = dict(layer="premade", model=desc["kind"], muts=mut)
  kind = desc["kind"]
  applicable = True
  tf.random.set_seed(desc["seed"])
  np.random.seed(desc["seed"])
  try:
    cfg = M.model_config(desc)
  except Exception as e:  # pylint: disable=broad-except
    out.violate("valid premade description could not be turned into a config: "
                "%s %s" % (type(e).__name__, e), kind="not-total",
                exc=type(e).__name__, stage="config", **sig)
    return
  fcs = cfg.feature_configs
  numeric = [f for f in fcs if not f.num_buckets]
  is_ens = kind.startswith("ensemble")
  param_ok = kind in ("lattice",) or is_ens
  if mut == "no-feature-configs":
    cfg.feature_configs = None
  elif mut == "ensemble-no-structure" and is_ens:
    cfg.lattices = "random"
  elif mut == "ensemble-one-lattice" and is_ens:
    if cfg.lattices == "rtl_layer":
      cfg.num_lattices = 1
    else:
      cfg.lattices = cfg.lattices[:1]
  elif mut == "rtl-mixed-sizes" and kind == "ensemble_rtl" and len(fcs) > 1:
    fcs[0].lattice_size = fcs[1].lattice_size + 1
  elif mut == "rtl-unimodality" and kind == "ensemble_rtl" and numeric:
    numeric[0].unimodality = "valley"
    numeric[0].monotonicity = "none"
    numeric[0].lattice_size = 3
    for f in fcs:
      f.lattice_size = 3
  elif mut == "rtl-trust" and kind == "ensemble_rtl" and len(fcs) > 1:
    fcs[0].reflects_trust_in = [tfl.configs.TrustConfig(fcs[1].name)]
  elif mut == "rtl-dominance" and kind == "ensemble_rtl" and len(fcs) > 1:
    fcs[0].dominates = [tfl.configs.DominanceConfig(fcs[1].name)]
  elif mut == "kfl-regularizer" and param_ok:
    cfg.parameterization = "kronecker_factored"
    cfg.regularizer_configs = [tfl.configs.RegularizerConfig("torsion", l2=0.1)]
  elif mut == "kfl-mixed-sizes" and param_ok and len(fcs) > 1:
    cfg.parameterization = "kronecker_factored"
    fcs[0].lattice_size = fcs[1].lattice_size + 1
  elif mut == "kfl-unimodality" and param_ok and numeric:
    cfg.parameterization = "kronecker_factored"
    numeric[0].unimodality = 1
    numeric[0].monotonicity = 0
  elif mut == "kfl-trust" and param_ok and len(fcs) > 1:
    cfg.parameterization = "kronecker_factored"
    fcs[0].reflects_trust_in = [tfl.configs.TrustConfig(fcs[1].name)]
  elif mut == "nonnumeric-keypoints" and numeric:
    numeric[0].pwl_calibration_input_keypoints = "quantiles"
  elif mut == "nonnumeric-output-init":
    cfg.output_initialization = "quantiles"
  elif mut == "categorical-monotonicity-malformed" and any(
      f.num_buckets for f in fcs):
    f = [f for f in fcs if f.num_buckets][0]
    f.monotonicity = [("a", "b")]
  elif mut == "lattices-not-lists" and is_ens and cfg.lattices != "rtl_layer":
    cfg.lattices = [0, 1]
  elif mut != "none":
    applicable = False
  listed = mut if (mut != "none" and applicable) else ""
  if not applicable:
    out.label("mut-not-applicable")
  cls = {"linear": tfl.premade.CalibratedLinear,
         "lattice": tfl.premade.CalibratedLattice}.get(
             kind, tfl.premade.CalibratedLatticeEnsemble)
  stage = "construct"
  out.checks += 1
  out.nontrivial = True
  try:
    model = cls(cfg)
    stage = "evaluate"
    x = M.base_points(desc, 6, case["aux"])
    y = model(M.model_inputs(desc, x)).numpy()
  except Exception as e:  # pylint: disable=broad-except
    if listed:
      if isinstance(e, ValueError) and stage == "construct":
        out.label("rejected:listed@construct")
      else:
        out.violate("malformed premade config (%s) raised %s at %s instead of "
                    "ValueError at construction: %s" % (
                        listed, type(e).__name__, stage, str(e)[:200]),
                    kind="wrong-exception", exc=type(e).__name__, stage=stage,
                    **sig)
    else:
      out.violate("valid premade config raised %s at %s: %s" % (
          type(e).__name__, stage, str(e)[:300]), kind="not-total",
                  exc=type(e).__name__, stage=stage, **sig)
    return
  if listed:
    out.violate("malformed premade config (%s) was accepted" % listed,
                kind="listed-accepted", **sig)
  elif not np.all(np.isfinite(y)):
    out.violate("premade model produced non-finite outputs", kind="non-finite",
                what="outputs", **sig)
  else:
    out.label("accepted:total")


def run_case(case):
  out = Outcome()
  if case["target"] == "layer":
    _run_layer(case, out)
  elif case["target"] == "synonym":
    _run_synonym(case, out)
  else:
    _run_premade(case, out)
  return out
