"""C08 - iterative (Dykstra) projection: fixed points, convergence, nearest point."""
import numpy as np
from hypothesis import strategies as st

from vlib import oracles as R
from vlib import strategies as S
from vlib.harness import Outcome, TOL_W, scale_of

ID = "C08"
TITLE = "Iterative projection keeps feasible weights, converges to the L2-nearest point"
RULE = ("Hypothesis draws a small lattice (rank 1-3, or rank 4 of size-2 "
        "dimensions for the pair families, one dimension of size 5-6 in a "
        "third of the single-family cases, prod(sizes) <= 36; thorough <= "
        "81), a valid configuration with ONE constraint family or a random "
        "combination (monotonicity, unimodality, Edgeworth / trapezoid trusts "
        "of both directions, monotonic / range dominance, joint monotonicity, "
        "joint unimodality with 1-2 dimensions in one or two groups), units "
        "1-3 and a kernel (far infeasible at scales 1e-3..1e3 incl. sorted / "
        "constant / zero kernels, KKT-certified feasible/boundary, boundary "
        "plus 1e-3..1e-2*S of noise, or strictly interior with slack >= "
        "0.05*S in every constraint row), or a PWL calibrator configuration "
        "(monotonicity, convexity, one/two-sided bounds, clamps). "
        "project_by_dykstra runs with num_iterations 0 and 1 eagerly, 4 "
        "eagerly or inside tf.function, 1024 inside tf.function (8192 as the "
        "fallback horizon), the strict LatticeConstraints with 1024 "
        "iterations, the PWL projection with 1000 (fixed points: 0, 1, 8 or "
        "1000). Oracle: float64 constraint rows for the largest violation, "
        "KKT-certified NNLS/LDP nearest point. Non-trivial: the kernel "
        "violates the configured set by > 0.05*S (> 1e-4*S for the "
        "near-boundary kernels), or is a non-constant feasible kernel for the "
        "fixed-point clause; distinct by SHA-1 of the case.")
NT_FLOOR = 0.5
BUDGET = {"quick": 96, "thorough": 1050}
TECHNIQUE = ("property-based testing (Hypothesis): differential against a "
             "KKT-certified float64 QP reference (NNLS / Lawson-Hanson LDP) at "
             "finite iteration horizons")
LEVEL_TEXT = ("Generated-input exploration of the Dykstra projections with an "
              "independent, certified nearest-point oracle: feasible kernels "
              "are fixed points, the largest violation falls below 1e-4*S at "
              "1024 iterations (and by 10x from 4 iterations), re-projection "
              "does not move a converged result, the limit equals the certified "
              "Euclidean projection for the exactly-projected families, the "
              "strict layer constraint stays within 2e-3*S of it, and the PWL "
              "projection agrees with the certified projection for "
              "monotonicity + bounds (clamped bounds as equalities).")
LEVEL_NOTE = ("'Tends to zero' / 'limit' are judged at finite horizons (1024, "
              "fallback 8192 iterations) with frozen thresholds calibrated "
              "with a >= 100x margin over measured noise (DESIGN C08); a case "
              "that only passes at the fallback horizon is counted as "
              "slow-convergence, one that fails both is a violation. Shapes "
              "<= 36 (81) vertices. SciPy NNLS is trusted only through the KKT "
              "certificate.")
ASSUMPTIONS = ["finite-horizon thresholds stand in for limits (DESIGN C08)"]

EXACT = ("mono", "unimod", "ew", "tz", "mdom", "jmono")
ALL = ("mono", "unimod", "ew", "tz", "mdom", "rdom", "jmono", "junimod")
K_SMALL, K_BIG, K_FALLBACK = 4, 1024, 8192


def _empty_cfg(sizes):
  n = len(sizes)
  return {"sizes": list(sizes), "mono": [0] * n, "unimod": [0] * n, "ew": [],
          "tz": [], "mdom": [], "rdom": [], "jmono": [], "junimod": [],
          "omin": None, "omax": None}


PAIR_FAMS = ("ew", "tz", "mdom", "rdom", "jmono")
BIG_FAMS = ("mono", "unimod", "ew", "tz", "mdom", "jmono")


def _trim(sizes, maxw, floor, keep=None):
  """Shrinks / drops dimensions other than `keep` until prod(sizes) <= maxw."""
  sizes = list(sizes)
  while int(np.prod(sizes)) > maxw:
    rest = [j for j in range(len(sizes)) if j != keep]
    j = max(rest, key=lambda q: sizes[q])
    if sizes[j] > floor:
      sizes[j] -= 1
    else:
      sizes.pop(j)
      if keep is not None and j < keep:
        keep -= 1
  return sizes


@st.composite
def _single_family_cfg(draw, fam, maxw):
  need3 = fam in ("unimod", "junimod")
  rank = draw(st.sampled_from([1, 2, 2, 3, 3])) if fam == "junimod" else (
      draw(st.integers(1, 3)) if fam in ("mono", "unimod") else
      draw(st.sampled_from([2, 3, 3, 4, 4])))
  # pair families get sizes from {2,2,3,4}: a size-2 dimension next to a
  # larger one exercises the even/odd constraint-group bookkeeping.
  sizes = [draw(st.integers(3, 4)) if need3 else
           draw(st.sampled_from([2, 2, 3, 4])) for _ in range(rank)]
  if rank == 4:
    # two bystander dimensions, non-adjacent pairs such as (0, 3)
    sizes = [2, 2, 2, 2]
    if draw(st.booleans()):
      sizes[draw(st.integers(0, 3))] = 3
  elif fam in BIG_FAMS and draw(st.sampled_from([False, False, True])):
    # one dimension of size 5 or 6: >= 2 constraints in each even/odd group
    # and a unimodal half-length of 3.
    keep = draw(st.integers(0, rank - 1))
    sizes[keep] = draw(st.sampled_from([5, 6]))
    sizes = _trim(sizes, maxw, 3 if need3 else 2, keep)
  while int(np.prod(sizes)) > maxw:
    i = int(np.argmax(sizes))
    if sizes[i] > (3 if need3 else 2):
      sizes[i] -= 1
    else:
      sizes = sizes[:-1]
  rank = len(sizes)
  cfg = _empty_cfg(sizes)
  dims = list(range(rank))
  if fam == "mono":
    cfg["mono"] = [draw(st.integers(0, 1)) for _ in dims]
    if not any(cfg["mono"]):
      cfg["mono"][draw(st.sampled_from(dims))] = 1
  elif fam == "unimod":
    d = draw(st.sampled_from(dims))
    if max(sizes) >= 5 and draw(st.booleans()):
      d = int(np.argmax(sizes))
    cfg["unimod"][d] = draw(st.sampled_from([-1, 1]))
  elif fam in ("ew", "tz"):
    m = draw(st.sampled_from(dims))
    c = draw(st.sampled_from([d for d in dims if d != m]))
    cfg["mono"][m] = 1
    cfg["mono"][c] = draw(st.integers(0, 1))
    cfg[fam] = [[m, c, draw(st.sampled_from([-1, 1]))]]
    rest = [d for d in dims if d not in (m, c)]
    if rest and draw(st.booleans()):
      # a second trust of the same family sharing the main or the conditional
      # feature (each convex set needs its own Dykstra increment).
      o = draw(st.sampled_from(rest))
      if draw(st.booleans()):
        cfg[fam].append([m, o, draw(st.sampled_from([-1, 1]))])
      else:
        cfg["mono"][o] = 1
        cfg[fam].append([o, c, draw(st.sampled_from([-1, 1]))])
  elif fam in ("mdom", "rdom"):
    a = draw(st.sampled_from(dims))
    b = draw(st.sampled_from([d for d in dims if d != a]))
    cfg["mono"][a] = cfg["mono"][b] = 1
    cfg[fam] = [[a, b]]
    rest = [d for d in dims if d not in (a, b)]
    if rest and draw(st.integers(0, 2)) > 0:
      o = draw(st.sampled_from(rest))
      cfg["mono"][o] = 1
      cfg[fam].append(draw(st.sampled_from([[a, o], [a, o], [o, b], [b, o]])))
  elif fam == "jmono":
    a = draw(st.sampled_from(dims))
    b = draw(st.sampled_from([d for d in dims if d != a]))
    cfg["jmono"] = [[a, b]]
    rest = [d for d in dims if d not in (a, b)]
    if rest and draw(st.booleans()):
      o = draw(st.sampled_from(rest))
      cfg["jmono"].append(draw(st.sampled_from([[a, o], [o, b]])))
  else:
    perm = list(draw(st.permutations(dims)))
    if rank >= 2 and draw(st.booleans()):
      # two disjoint groups
      cut = draw(st.integers(1, rank - 1))
      cfg["junimod"] = [
          [perm[:cut], draw(st.sampled_from(["valley", "peak"]))],
          [perm[cut:], draw(st.sampled_from(["valley", "peak"]))]]
    else:
      # a group of 3 dimensions costs > 20 s per case (216 hyperplane
      # projections per iteration are traced): thorough-tier catalog only.
      k = draw(st.sampled_from(list(range(1, min(rank, 2) + 1))))
      cfg["junimod"] = [[perm[:k], draw(st.sampled_from(["valley", "peak"]))]]
  return cfg


LATTICE_KINDS = ["normal", "normal", "normal", "uniform", "uniform", "ints",
                 "ints", "antisorted", "antisorted", "spike", "spike", "ties",
                 "ties", "sorted", "constant", "zeros"]
# raw: far infeasible; feasible: exact projection (boundary); near: boundary +
# 1e-3..1e-2*S of noise; interior: every constraint row has slack >= 0.05*S.
LATTICE_KMODES = ["raw", "raw", "raw", "feasible", "feasible", "near", "near",
                  "interior", "interior"]


@st.composite
def _lattice_case(draw, tier):
  maxw = 36 if tier == "quick" else 81
  fam = draw(st.sampled_from(
      ["mono", "unimod", "ew", "ew", "ew", "tz", "tz", "mdom", "mdom", "mdom", "rdom", "rdom",
       "jmono", "jmono", "junimod", "junimod"] + ["combo"] * 5))
  if fam == "combo":
    sizes = draw(S.lattice_sizes(max_rank=3, min_rank=2,
                                 max_size=4 if tier == "quick" else 5,
                                 max_weights=maxw))
    cfg = draw(S.lattice_config(sizes, approx=True, bounds=False))
    if not _families(cfg):
      cfg["mono"] = [1] * len(sizes)
  else:
    cfg = draw(_single_family_cfg(fam, maxw))
  n = int(np.prod(cfg["sizes"]))
  units = draw(st.sampled_from([1, 1, 2, 3]))
  return {"target": "lattice", "cfg": cfg, "units": units,
          "kmode": draw(st.sampled_from(LATTICE_KMODES)),
          "kernel": draw(S.array_desc(
              kinds=LATTICE_KINDS,
              scales=[1e-3, 1.0, 1.0, 10.0, 1e3], shape=(n, units))),
          "eager": draw(st.booleans()),
          "aux": draw(S.seeds)}


@st.composite
def _pwl_case(draw, tier):
  cfg = draw(S.pwl_config(max_k=6 if tier == "quick" else 10, max_units=2,
                          allow_cyclic=False, iters=(1000,)))
  kmode = draw(st.sampled_from(["raw", "raw", "feasible"]))
  mode = draw(st.sampled_from(["nearest"] * 3 + ["conv", "conv", "free"]))
  if mode == "nearest":
    # the class for which the statement claims the nearest point
    cfg["conv"] = 0
    if cfg["mono"] == 0:
      cfg["mono"] = draw(st.sampled_from([-1, 1]))
    if (cfg["omin"] is None or cfg["omax"] is None) and draw(
        st.integers(0, 3)) > 0:
      lo = cfg["omin"] if cfg["omin"] is not None else (
          cfg["omax"] - 1.0 if cfg["omax"] is not None else 0.0)
      cfg["omin"] = S.f32(lo)
      cfg["omax"] = S.f32(lo + draw(st.sampled_from([0.5, 1.0, 3.0])))
  elif mode == "conv":
    # the CONVEXITY_0/1 Dykstra groups: fixed points in half of these cases,
    # >= 3 keypoints (so that there is a pair of heights), mostly unequal gaps
    # (the projection of a pair weighs the heights by the segment lengths).
    cfg["conv"] = draw(st.sampled_from([-1, 1]))
    kmode = draw(st.sampled_from(["raw", "feasible"]))
    k = draw(st.sampled_from([3, 4, 4, 5, 6]))
    gaps = [draw(st.sampled_from(S.SPACINGS)) for _ in range(k - 1)]
    if draw(st.sampled_from([False, False, False, True])):
      gaps = [gaps[0]] * (k - 1)
    kp = [draw(st.sampled_from([-100.0, -1.0, 0.0, 0.5, 10.0]))]
    for g in gaps:
      kp.append(kp[-1] + g)
    kp = S.f32(kp)
    for i in range(1, k):
      if kp[i] <= kp[i - 1]:   # float32 rounding must keep them increasing
        kp[i] = float(np.nextafter(np.float32(kp[i - 1]), np.float32(np.inf)))
    cfg["keypoints"] = kp
  # clamps are valid for monotone calibrators with the respective bound only.
  for side, bound in (("clamp_min", "omin"), ("clamp_max", "omax")):
    cfg[side] = bool(cfg["mono"] != 0 and cfg[bound] is not None and
                     draw(st.sampled_from([False, True] if mode == "nearest"
                                          else [False, False, True])))
  # a fixed point is a fixed point at every iteration count.
  cfg["iters"] = draw(st.sampled_from([0, 1, 8, 1000])) if (
      kmode == "feasible") else 1000
  rows = len(cfg["keypoints"])
  return {"target": "pwl", "cfg": cfg, "kmode": kmode,
          "kernel": draw(S.array_desc(
              kinds=["normal", "normal", "uniform", "uniform", "ints", "ints",
                     "antisorted", "antisorted", "spike", "spike", "sorted",
                     "zeros"],
              scales=[1e-3, 1.0, 1.0, 10.0, 1e3], shape=(rows, cfg["units"]))),
          "aux": draw(S.seeds)}


def _cat(sizes, mono, **fams):
  cfg = _empty_cfg(sizes)
  cfg["mono"] = list(mono)
  cfg.update(fams)
  return cfg


# Structural patterns every run must contain (kernels stay generated): several
# constraints of one family sharing a dimension, size-2 dimensions next to
# larger ones, both trust directions, both unimodality shapes.
CATALOG = [
    _cat([2, 2, 2], [1, 1, 1], mdom=[[0, 1], [0, 2]]),
    _cat([3, 2, 2], [1, 1, 1], mdom=[[0, 1], [0, 2]]),
    _cat([2, 3, 3], [1, 1, 1], mdom=[[0, 2], [1, 2]]),
    _cat([3, 3, 3], [1, 1, 1], mdom=[[0, 1], [1, 2]]),
    _cat([2, 2, 2], [1, 1, 1], rdom=[[0, 1], [0, 2]]),
    _cat([3, 2, 3], [1, 1, 1], rdom=[[2, 0], [1, 0]]),
    _cat([3, 2], [1, 0], ew=[[0, 1, 1]]),
    _cat([2, 3], [1, 1], ew=[[0, 1, -1]]),
    _cat([4, 2], [1, 0], ew=[[0, 1, -1]]),
    _cat([2, 2, 5], [1, 0, 0], ew=[[0, 2, 1]]),
    _cat([3, 2, 3], [1, 0, 0], ew=[[0, 1, 1], [0, 2, -1]]),
    _cat([2, 3, 2], [1, 1, 0], ew=[[0, 2, 1], [1, 2, 1]]),
    _cat([3, 2], [1, 0], tz=[[0, 1, -1]]),
    _cat([2, 4], [1, 1], tz=[[0, 1, 1]]),
    _cat([3, 2, 3], [1, 0, 0], tz=[[0, 1, 1], [0, 2, 1]]),
    _cat([2, 3, 2], [1, 0, 1], ew=[[0, 1, 1]], tz=[[2, 1, -1]]),
    _cat([3, 3, 2], [0, 0, 0], jmono=[[0, 1], [1, 2]]),
    _cat([2, 3, 3], [0, 0, 0], jmono=[[0, 1], [0, 2]]),
    _cat([5], [0], unimod=[1]),
    _cat([4, 3], [0, 1], unimod=[-1, 0]),
    _cat([3, 3], [0, 0], junimod=[[[0, 1], "valley"]]),
    _cat([4, 3], [0, 0], junimod=[[[1], "peak"]]),
    _cat([3, 2, 4], [0, 1, 0], junimod=[[[0], "peak"], [[2], "valley"]]),
    _cat([6, 2], [1, 1], mdom=[[0, 1]]),
    _cat([2, 2, 2, 2], [1, 0, 0, 1], rdom=[[0, 3]]),
    _cat([4, 3, 2], [1, 1, 1]),
    _cat([3, 3], [1, 1], mdom=[[0, 1]], jmono=[[0, 1]]),
]


CATALOG_THOROUGH = [
    _cat([3, 3, 3], [0, 0, 0], junimod=[[[0, 2, 1], "valley"]]),
]


@st.composite
def _catalog_case(draw, tier):
  cfg = draw(st.sampled_from(
      CATALOG + (CATALOG_THOROUGH if tier == "thorough" else [])))
  n = int(np.prod(cfg["sizes"]))
  units = draw(st.sampled_from([1, 1, 2, 3]))
  return {"target": "lattice", "cfg": cfg, "units": units,
          "kmode": draw(st.sampled_from(["raw", "raw", "raw", "feasible",
                                         "near", "interior"])),
          "kernel": draw(S.array_desc(
              kinds=["normal", "normal", "uniform", "ints", "antisorted"],
              scales=[1e-3, 1.0, 1.0, 10.0, 1e3], shape=(n, units))),
          "eager": draw(st.sampled_from([False, False, False, True])),
          "aux": draw(S.seeds)}


def strategy(tier):
  # PWL cases are ~4x cheaper than lattice cases, so three of seven.
  return st.one_of(_lattice_case(tier), _lattice_case(tier),
                   _lattice_case(tier), _pwl_case(tier), _pwl_case(tier),
                   _pwl_case(tier), _catalog_case(tier))


def _families(cfg):
  fams = []
  for f in ALL:
    if (any(cfg["mono"]) if f == "mono" else any(cfg["unimod"])
        if f == "unimod" else bool(cfg[f])):
      fams.append(f)
  return fams


_FN_CACHE = {}


def _dykstra_fn(cfg, k, eager=False):
  import tensorflow as tf
  from tensorflow_lattice.python import lattice_lib as L
  kw = S.lattice_kwargs(cfg)
  args = dict(
      lattice_sizes=kw["lattice_sizes"], monotonicities=kw["monotonicities"],
      unimodalities=kw.get("unimodalities"),
      edgeworth_trusts=kw.get("edgeworth_trusts"),
      trapezoid_trusts=kw.get("trapezoid_trusts"),
      monotonic_dominances=kw.get("monotonic_dominances"),
      range_dominances=kw.get("range_dominances"),
      joint_monotonicities=kw.get("joint_monotonicities"),
      joint_unimodalities=kw.get("joint_unimodalities"))

  def f(w):
    return L.project_by_dykstra(w, num_iterations=k, **args)
  # eager: the python-level tf.while_loop path (what a user calling the
  # function directly gets); otherwise the traced graph Keras runs in fit().
  return f if eager else tf.function(f)


def _max_violation(cfg, k64):
  v = 0.0
  for u in range(k64.shape[1]):
    d = R.violation_by_family(cfg, k64[:, u])
    v = max([v] + list(d.values()))
  return v


def _rdom_mixed_corner_tight(cfg, k64, tol):
  """True when a range-dominance constraint anchored at a 'mixed' corner is active.

  At the corners (first dominant vertex, last weak vertex) and (last dominant,
  first weak) the shared vertex enters the constraint with coefficient 2, and
  _project_partial_range_dominance moves only the two other vertices: that
  step is not an orthogonal projection (finding F-C08-1).  The flag says the
  step can act on this kernel; it is part of the violation signature so that
  only this mechanism is matched by the recorded finding.
  """
  if not cfg.get("rdom"):
    return False
  w = k64.reshape(list(cfg["sizes"]) + [k64.shape[1]])
  for dom, weak in cfg["rdom"]:
    m = np.moveaxis(w, [dom, weak], [0, 1])
    d, k = m.shape[0], m.shape[1]
    for i, j in ((0, k - 1), (d - 1, 0)):
      diff = (m[i, k - 1] - m[i, 0]) - (m[d - 1, j] - m[0, j])
      if float(np.max(diff)) > -tol:
        return True
  return False


def _interior_kernel(cfg, raw, margin):
  """Nearest kernel to `raw` whose every constraint row has slack >= margin
  (KKT-certified); None when the configured cone has no interior."""
  rows = R.constraint_rows(cfg)
  a = R.rows_matrix(rows, raw.shape[0])
  out = np.zeros(raw.shape)
  for u in range(raw.shape[1]):
    w, info = R.project_polyhedron(a, np.full(a.shape[0], margin),
                                   raw[:, u].astype(np.float64))
    if not info["certified"]:
      return None
    out[:, u] = w
  return out


def _run_lattice(case, out):
  import tensorflow as tf
  import tensorflow_lattice as tfl
  cfg, units = case["cfg"], case["units"]
  fams = _families(cfg)
  n = int(np.prod(cfg["sizes"]))
  raw = S.materialize(case["kernel"], (n, units))
  kmode = case["kmode"]
  eager = bool(case.get("eager"))
  sig = dict(target="lattice", fams="+".join(fams))

  def nearest(k):
    res = np.zeros((n, units))
    for u in range(units):
      w, info = R.lattice_nearest(cfg, k[:, u].astype(np.float64))
      if not info["certified"]:
        return None
      res[:, u] = w
    return res

  # nearest feasible point per unit (all configured families)
  near = nearest(raw)
  if near is None:
    out.discard = "uncertified-reference"
    return
  fixed = kmode == "feasible"
  k32 = raw
  if kmode == "interior":
    ki = _interior_kernel(cfg, raw, 0.05 * scale_of(raw)) if fams else None
    if ki is None:
      kmode = "feasible"            # no interior (implied equalities)
      fixed = True
      out.label("interior:none(implied equalities)->boundary kernel")
    else:
      k32 = ki.astype(np.float32)
      fixed = True
  if kmode == "feasible":
    k32 = near.astype(np.float32)
  elif kmode == "near":
    rs = np.random.RandomState(case["aux"])
    eps = 10.0 ** rs.uniform(-3.0, -2.0) * scale_of(near)
    k32 = (near + eps * rs.uniform(-1, 1, size=near.shape)).astype(np.float32)
    near = nearest(k32)
    if near is None:
      out.discard = "uncertified-reference"
      return
  out.label("lattice", "families:" + ("+".join(fams) or "none"),
            "kernel:" + kmode, "units:%d" % units,
            "rank:%d" % len(cfg["sizes"]))
  if len(fams) == 1:
    out.label("single-family:" + fams[0])
    if max(cfg["sizes"]) >= 5:
      out.label("size>=5:" + fams[0])
  elif len(fams) > 1:
    out.label("combination")
  if max(cfg["sizes"]) >= 5:
    out.label("size>=5")
  if len(cfg["junimod"]) > 1:
    out.label("junimod:two-groups")
  if any(len(g[0]) >= 3 for g in cfg["junimod"]):
    out.label("junimod:3-dims")
  if eager:
    out.label("eager:4-iterations")
  k64 = k32.astype(np.float64)
  s = scale_of(k64)
  v0 = _max_violation(cfg, k64)
  f_small = _dykstra_fn(cfg, K_SMALL, eager=eager)
  f_big = _dykstra_fn(cfg, K_BIG)
  r_small = f_small(tf.constant(k32)).numpy().astype(np.float64)
  r_big = f_big(tf.constant(k32)).numpy().astype(np.float64)
  out.checks += 1
  if not (np.all(np.isfinite(r_small)) and np.all(np.isfinite(r_big))):
    out.violate("non-finite projection result", kind="finite", **sig)
    return
  # iteration counts 0 (early return) and 1, through the eager while_loop
  r_0 = _dykstra_fn(cfg, 0, eager=True)(tf.constant(k32)).numpy().astype(
      np.float64)
  r_1 = _dykstra_fn(cfg, 1, eager=True)(tf.constant(k32)).numpy().astype(
      np.float64)
  out.checks += 1
  if not (np.all(np.isfinite(r_0)) and np.all(np.isfinite(r_1))):
    out.violate("non-finite projection result at 0 / 1 iterations",
                kind="finite", **sig)
    return
  if fixed:
    # (i) fixed point at every horizon
    out.nontrivial = bool(np.ptp(k64) > 0)
    out.label("fixed-point@0,1(eager),4,1024")
    for name, r in (("0", r_0), ("1", r_1), ("4", r_small), ("1024", r_big)):
      out.checks += 1
      moved = float(np.max(np.abs(r - k64)))
      out.info["moved_over_S@" + name] = moved / s
      if moved > TOL_W * s:
        out.violate("%s kernel moved by %.3g (tolerance %.3g) at %s "
                    "iterations" % (kmode, moved, TOL_W * s, name),
                    kind="fixed-point",
                    rdom_mixed_corner_tight=_rdom_mixed_corner_tight(
                        cfg, k64, 10 * TOL_W * s), **sig)
    return
  out.nontrivial = bool(
      fams and v0 > (1e-4 if kmode == "near" else 0.05) * s)
  if not fams:
    out.checks += 1
    if not all(np.array_equal(r, k64) for r in (r_0, r_1, r_small, r_big)):
      out.violate("projection with no constraint changed the kernel",
                  kind="fixed-point", **sig)
    return
  # (ii) convergence of the largest violation
  v_small, v_big = _max_violation(cfg, r_small), _max_violation(cfg, r_big)
  out.info.update(v0=v0 / s, v4=v_small / s, v1024=v_big / s)
  exact = all(f in EXACT for f in fams)
  dist = None
  if exact:
    dist = float(np.max(np.abs(r_big - near)))
    out.info["dist_to_nearest_over_S"] = dist / s

  def conv_ok(vb):
    return vb <= 1e-4 * s and vb <= max(0.1 * v_small, 1e-5 * s)

  ok_conv = conv_ok(v_big)
  ok_near = (dist is None) or dist <= 5e-4 * s
  out.checks += 2
  r_conv = r_big
  if not (ok_conv and ok_near):
    f_fb = _dykstra_fn(cfg, K_FALLBACK)
    r_fb = f_fb(tf.constant(k32)).numpy().astype(np.float64)
    v_fb = _max_violation(cfg, r_fb)
    d_fb = float(np.max(np.abs(r_fb - near))) if exact else None
    out.info.update(v8192=v_fb / s)
    if conv_ok(v_fb) and (d_fb is None or d_fb <= 5e-4 * s):
      out.label("slow-convergence(passed at 8192)")
      r_conv = r_fb
      f_big = f_fb
    else:
      if not conv_ok(v_fb):
        out.violate("largest violation does not vanish: v(4)=%.3g v(1024)=%.3g "
                    "v(8192)=%.3g (S=%.3g)" % (v_small, v_big, v_fb, s),
                    kind="convergence", **sig)
      if d_fb is not None and d_fb > 5e-4 * s:
        out.violate("limit is %.3g away from the certified nearest feasible "
                    "kernel (tolerance %.3g)" % (d_fb, 5e-4 * s),
                    kind="nearest", **sig)
      return
  # (iii) re-projecting a converged result does not move it
  again = f_big(tf.constant(r_conv.astype(np.float32))).numpy().astype(
      np.float64)
  out.checks += 1
  mv = float(np.max(np.abs(again - r_conv)))
  out.info["reprojection_move_over_S"] = mv / s
  if mv > 1e-4 * s:
    out.violate("re-projecting the converged result moves it by %.3g "
                "(tolerance %.3g)" % (mv, 1e-4 * s), kind="idempotence", **sig)
  # (v) strict layer constraint with many iterations stays close
  strict_ok = (any(cfg["mono"]) and all(f in ("mono", "ew", "tz") for f in fams))
  f_c01 = bool(cfg["ew"]) and bool(cfg["tz"]) and any(
      cfg["mono"][t[1]] == 1 for t in cfg["tz"])
  if strict_ok and not f_c01:
    con = tfl.lattice_layer.LatticeConstraints(
        num_projection_iterations=K_BIG, enforce_strict_monotonicity=True,
        **S.lattice_kwargs(cfg))
    rs = tf.function(con.__call__)(tf.constant(k32)).numpy().astype(np.float64)
    out.checks += 1
    ds = float(np.max(np.abs(rs - near)))
    out.info["strict_dist_over_S"] = ds / s
    out.label("strict-layer-constraint")
    if ds > 2e-3 * s:
      out.violate("strict constraint with 1024 iterations is %.3g away from "
                  "the nearest feasible kernel (tolerance %.3g)" %
                  (ds, 2e-3 * s), kind="strict-nearest", **sig)
  elif strict_ok:
    out.label("strict-skipped(F-C01-1 region)")


def _pwl_rows(cfg, rows):
  """(g, h) with g w >= h over w = (bias, heights) for monotonicity + bounds."""
  g, h = [], []
  m = cfg["mono"]
  for i in range(1, rows):
    r = np.zeros(rows)
    r[i] = float(m)
    g.append(r)
    h.append(0.0)
  first = np.zeros(rows)
  first[0] = 1.0
  last = np.ones(rows)
  lo_row, hi_row = (first, last) if m == 1 else (last, first)
  if cfg["omin"] is not None:
    g.append(lo_row.copy())
    h.append(float(cfg["omin"]))
  if cfg["omax"] is not None:
    g.append(-hi_row)
    h.append(-float(cfg["omax"]))
  # a clamped bound is reached: the inequality becomes an equality.
  if cfg["omin"] is not None and cfg.get("clamp_min"):
    g.append(-lo_row)
    h.append(-float(cfg["omin"]))
  if cfg["omax"] is not None and cfg.get("clamp_max"):
    g.append(hi_row.copy())
    h.append(float(cfg["omax"]))
  return np.array(g).reshape(-1, rows), np.array(h)


def _run_pwl(case, out):
  import tensorflow as tf
  from props import c04
  from tensorflow_lattice.python import pwl_calibration_lib as L
  cfg = case["cfg"]
  rows, units = len(cfg["keypoints"]), cfg["units"]
  raw = S.materialize(case["kernel"], (rows, units))
  has_bounds = cfg["omin"] is not None or cfg["omax"] is not None
  out.label("pwl", "mono:%d" % cfg["mono"], "conv:%d" % cfg["conv"],
            "bounded" if has_bounds else "unbounded", "kernel:" + case["kmode"],
            "pwl:conv=%d,kernel=%s" % (cfg["conv"], case["kmode"]))
  clamped = bool(cfg.get("clamp_min") or cfg.get("clamp_max"))
  if clamped:
    out.label("pwl:clamped", "pwl:clamped,kernel=" + case["kmode"])
  # feasible kernels are fixed points at every iteration count; the limit
  # clauses use 1000 iterations.
  iters = int(cfg.get("iters", 1000)) if case["kmode"] == "feasible" else 1000
  if case["kmode"] == "feasible":
    out.label("pwl:fixed-point@iters=%d" % iters)
  sig = dict(target="pwl", mono=cfg["mono"] != 0, conv=cfg["conv"] != 0,
             bounded=has_bounds)
  omin_c, omax_c = c04._bct(cfg)
  omin = cfg["omin"] if cfg["omin"] is not None else (
      cfg["omax"] if cfg["omax"] is not None else 0.0)
  omax = cfg["omax"] if cfg["omax"] is not None else omin
  lens32 = (np.asarray(cfg["keypoints"], np.float32)[1:] -
            np.asarray(cfg["keypoints"], np.float32)[:-1])

  @tf.function
  def proj(w):
    return L.project_all_constraints(
        weights=w, monotonicity=cfg["mono"], output_min=omin, output_max=omax,
        output_min_constraints=omin_c, output_max_constraints=omax_c,
        convexity=cfg["conv"], lengths=tf.constant(lens32),
        num_projection_iterations=iters)

  if case["kmode"] == "feasible":
    fk = c04.feasible_kernel(cfg, rows, case["aux"])
    if fk is None:
      out.discard = "no-feasible-kernel"
      return
    k64 = fk.astype(np.float64)
    s = scale_of(k64, cfg["omin"], cfg["omax"])
    res = proj(tf.constant(fk)).numpy().astype(np.float64)
    out.checks += 1
    out.nontrivial = bool(np.any(k64[1:] != 0))
    moved = float(np.max(np.abs(res - k64)))
    out.info["moved_over_S"] = moved / s
    if moved > TOL_W * s:
      out.violate("feasible PWL kernel moved by %.3g (tolerance %.3g)" %
                  (moved, TOL_W * s), kind="fixed-point", **sig)
    return
  k64 = raw.astype(np.float64)
  s = scale_of(k64, cfg["omin"], cfg["omax"])
  res = proj(tf.constant(raw)).numpy().astype(np.float64)
  out.checks += 1
  if not np.all(np.isfinite(res)):
    out.violate("non-finite PWL projection", kind="finite", **sig)
    return
  in_m = max(max(m.values()) for m in c04.measures(cfg, k64))
  out.nontrivial = bool(in_m > 0.05 * s)
  if cfg["mono"] != 0 and cfg["conv"] == 0 and has_bounds:
    out.label("pwl:nearest-judged")
    if clamped:
      out.label("pwl:nearest-judged,clamped")
    g, h = _pwl_rows(cfg, rows)
    for u in range(units):
      w, info = R.project_polyhedron(g, h, k64[:, u])
      if not info["certified"]:
        out.discard = "uncertified-reference"
        return
      out.checks += 1
      d = float(np.max(np.abs(res[:, u] - w)))
      out.info["dist_to_nearest_over_S"] = d / s
      if d > 5e-4 * s:
        out.violate("PWL projection (monotonicity + bounds, 1000 iterations) "
                    "is %.3g away from the certified nearest feasible kernel "
                    "(tolerance %.3g) in unit %d" % (d, 5e-4 * s, u),
                    kind="nearest", **sig)
        return


def run_case(case):
  out = Outcome()
  try:
    if case["target"] == "lattice":
      _run_lattice(case, out)
    else:
      _run_pwl(case, out)
  except Exception as e:  # pylint: disable=broad-except
    # AutoGraph re-raises errors of converted library code from generated
    # files, so the harness cannot attribute them by traceback; the error text
    # still names the library file.  Same verdict as for an eager library
    # exception; anything else is left to the harness.
    if "/tensorflow_lattice/" not in str(e):
      raise
    out = Outcome()
    out.nontrivial = True
    out.label("exception")
    out.violate("%s: %s" % (type(e).__name__, str(e)[:400]), kind="exception",
                exc=type(e).__name__, where="traced with tf.function")
  return out
