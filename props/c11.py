"""C11 - config and weight round-trips reproduce the same function.

Two case targets mixed by one strategy:

  half A ("object"): one public class with get_config, constructed with
    generated non-default arguments; cfg = obj.get_config(); rebuilt =
    cls.from_config(cfg) under custom_object_scope(get_custom_objects()); the
    rebuilt object must have an equal config and be functionally the same
    (layer outputs / variables / variable constraints / regularisation losses /
    initial weights; constraint result; initializer tensor; regularizer value;
    premade model function).
  half B ("history"): a premade or hand-assembled model, a short history of
    training steps and save_reload(keras|h5|tf) / from_config+set_weights
    operations; after each restore the outputs and variables are preserved and
    a hostile update through the optimizer still leaves the model monotone and
    bounded (props.c03.judge), i.e. the constraints are still attached.
  plus a small "cdf_model" target (a functional model around tfl.layers.CDF)
    that keeps the open finding F-C11-3 visible under a narrow signature.
"""
import enum
import inspect
import json
import os
import shutil
import tempfile

import numpy as np
from hypothesis import strategies as st

from props import c03 as C03
from props.c07 import kfl_config
from vlib import models as M
from vlib import strategies as S
from vlib.harness import HarnessError, Outcome, hash32

ID = "C11"
TITLE = "Config and weight round-trips reproduce the same function"
RULE = ("One Hypothesis strategy mixes three labelled targets. (A, ~91 %) an "
        "object round-trip: a class name drawn from premade.get_custom_objects() "
        "plus CDF, the three PWL regularizers and UniformOutputInitializer (a "
        "registry name without a generator is a harness error), constructor "
        "arguments generated per class with optional ones set (missing "
        "input/output values, single-tuple trusts / dominances, per-dimension "
        "regularizer amounts, string / int / tuple spellings, regularizer "
        "tuples, lists and objects, initializer ids and objects, numpy "
        "keypoints; a quarter of the layers with dtype='float64' - CDF and the "
        "premade models excepted, see the GEN_FLOAT64_* switches); the object "
        "is rebuilt under the tfl custom object scope twice, from get_config() "
        "as is and from get_config() after the JSON encoding that "
        "Model.to_json() / the HDF5 writer apply (tuples -> lists, numpy -> "
        "plain, nested objects -> dicts; not for constraint objects, which "
        "hold live tensors and are never written into a model config), and "
        "compared: config deep-equal; every documented attribute (all named "
        "__init__ parameters, name / dtype / trainable; vars() of the "
        "tfl.configs classes) equal to the original's after mapping the "
        "documented string spellings to ints; and, for the rebuild chosen by "
        "the case (memory | json): layers and premade models: variables, "
        "outputs on generated inputs after the weights were randomised and "
        "copied, per-variable constraint results, regularisation losses, "
        "initial weights under the same seed, RTL structure; constraints / "
        "initializers / regularizers: same tensor.  About a quarter of the layer cases "
        "(all layer classes but Aggregation) then put the generated layer into "
        "a one-layer functional keras Model, save it as .keras, h5 or "
        "SavedModel, reload it and compare outputs, variables, per-variable "
        "constraint results on a random tensor and regularisation losses.  "
        "Every case that carries a premade model description also materialises "
        "a random lattice ensemble twice from equal configs and compares the "
        "lattices. (B, ~8 %) a "
        "model from vlib.models.model_desc with <= 3 (thorough 6) operations "
        "from {sgd/adam step, hostile update, save_reload(.keras | h5 | "
        "SavedModel), from_config+set_weights}; after each restore: outputs on "
        "40 probe rows, variable shapes, per-variable constraint results on a "
        "random tensor and regularisation losses against the saved model, then "
        "a hostile optimizer update on the "
        "restored model followed by the C03 monotonicity/bounds judge. (C, ~1 %) "
        "a functional model around a CDF layer saved and reloaded in one format. "
        "Non-trivial: object built with >= 1 optional argument and compared on "
        "non-degenerate data, or a history that executed >= 1 restore; distinct "
        "by SHA-1 of the case.")
NT_FLOOR = 0.5
BUDGET = {"quick": 300, "thorough": 2500}
TECHNIQUE = ("property-based testing (Hypothesis): round-trip / metamorphic "
             "comparison of original and rebuilt objects over generated "
             "constructor arguments, and generated save/restore histories on "
             "real models with the C03 invariants as oracle")
LEVEL_TEXT = ("Generated-input exploration of every registered tfl Keras object "
              "and config class: thousands of random valid constructor argument "
              "sets per run are serialised with get_config(), rebuilt with "
              "from_config() under the tfl custom objects - directly and after "
              "a JSON encode / decode of the config - and compared with the "
              "original (config, documented attributes, variables, outputs, "
              "constraint / regularizer / initializer results); a few hundred "
              "generated layers are saved and reloaded inside a one-layer model "
              "in the three file formats; about a hundred short training histories "
              "per run save and reload real premade models in the .keras, HDF5 "
              "and SavedModel formats and check outputs, variables and that a "
              "hostile optimizer update is still projected.")
LEVEL_NOTE = ("Equality tolerance 1e-6 relative to max(1, max|value|). Layer "
              "sizes bounded (lattice rank <= 3 quick / 4 thorough, <= 4 model "
              "features quick / 6 thorough). Configs are compared after "
              "normalising numpy / tensor / tuple / enum values. Optimizer state "
              "is not part of the claim. Trusted: tf_keras serialisation, "
              "TensorFlow arithmetic. The single-tuple spelling is only "
              "generated for the Lattice layer (LatticeConstraints documents the "
              "same meaning but rejects it; reported separately). float64 is "
              "generated for the layers except CDF; not for premade models and "
              "not numpy keypoints through .keras files, not float64 Lattice / "
              "RTL layers with a list of regularizers (module switches "
              "GEN_FLOAT64_CDF, GEN_FLOAT64_PREMADE, "
              "GEN_FLOAT64_LATTICE_REGULARIZER_LISTS, "
              "GEN_KERAS_FILE_NUMPY_KEYPOINTS: candidate defects).")
ASSUMPTIONS = ["the JSON form of a config is json.dumps(config, default="
               "tf_keras json_utils.get_json_type), the encoder of "
               "Model.to_json() and of the HDF5 writer",
               "attributes are compared original against rebuilt ('Attributes: "
               "all __init__ arguments'); 'increasing'/'decreasing'/'none', "
               "'valley'/'peak', 'convex'/'concave', 'positive'/'negative' "
               "equal 1/-1/0, tuples equal lists",
               "a float64 layer is fed float64 inputs",
               "hostile updates after a restore reuse props.c03 (same judge, "
               "same signatures); F-C03-2 can therefore show up here too",
               "a violation of the C03 judge after a restore is re-checked on "
               "the never-saved model to tell lost constraints from C03 issues"]

TOL = 1e-6


# ===========================================================================
# generic helpers
def _tf():
  import tensorflow as tf
  import tensorflow_lattice as tfl
  import tf_keras as keras
  return tf, tfl, keras


def _scope():
  tf, tfl, keras = _tf()
  return keras.utils.custom_object_scope(tfl.premade.get_custom_objects())


def _seed(s):
  _, _, keras = _tf()
  keras.utils.set_random_seed(int(s) % (2**31 - 1))


def norm(x):
  """Canonical plain structure of a config value (for deep comparison)."""
  import tensorflow as tf
  if x is None or isinstance(x, bool):
    return x
  if isinstance(x, str):
    return str(x)          # numpy.str_ (random ensembles) is the same string
  if isinstance(x, enum.Enum):
    return {"__enum__": type(x).__name__ + "." + x.name}
  if isinstance(x, (np.bool_,)):
    return bool(x)
  if isinstance(x, (int, np.integer)):
    return int(x)
  if isinstance(x, (float, np.floating)):
    return float(x)
  if isinstance(x, (tf.Tensor, tf.Variable)):
    return norm(x.numpy())
  if isinstance(x, np.ndarray):
    return norm(x.tolist())
  if isinstance(x, dict):
    return {str(k): norm(v) for k, v in x.items()}
  if isinstance(x, (list, tuple)):
    return [norm(v) for v in x]
  if isinstance(x, (tf.dtypes.DType, np.dtype)):
    return str(getattr(x, "name", x))
  if hasattr(x, "get_config"):
    return {"__object__": type(x).__name__, "config": norm(x.get_config())}
  return {"__repr__": type(x).__name__}


def deep_diff(a, b, path=""):
  """None when equal, else the path of the first difference."""
  if isinstance(a, dict) and isinstance(b, dict):
    for k in sorted(set(a) | set(b)):
      if k not in a or k not in b:
        return "%s/%s(missing)" % (path, k)
      d = deep_diff(a[k], b[k], "%s/%s" % (path, k))
      if d:
        return d
    return None
  if isinstance(a, list) and isinstance(b, list):
    if len(a) != len(b):
      return path + "(len)"
    for i, (u, v) in enumerate(zip(a, b)):
      d = deep_diff(u, v, "%s/%d" % (path, i))
      if d:
        return d
    return None
  if isinstance(a, bool) or isinstance(b, bool):
    return None if (isinstance(a, bool) and isinstance(b, bool) and a == b
                    ) else path
  if isinstance(a, (int, float)) and isinstance(b, (int, float)):
    if a == b or (a != a and b != b):
      return None
    return path
  return None if (type(a) == type(b) and a == b) else path


def copy_structure(x):
  """Copies dict / list / tuple containers, keeps leaves (tensors) as is."""
  if isinstance(x, dict):
    return {k: copy_structure(v) for k, v in x.items()}
  if isinstance(x, list):
    return [copy_structure(v) for v in x]
  if isinstance(x, tuple):
    return tuple(copy_structure(v) for v in x)
  return x


def json_trip(cfg):
  """The config as it comes back from a JSON file.

  Model.to_json() and the HDF5 writer encode a model's (nested layer) configs
  with json.dumps(config, default=json_utils.get_json_type): tuples come back
  as lists, numpy scalars / arrays as floats / lists, enums as their value and
  nested objects as {"class_name", "config"} dicts.  Raises TypeError when the
  config holds something that encoder cannot write.
  """
  from tf_keras.src.saving.legacy.saved_model import json_utils
  return json.loads(json.dumps(cfg, default=json_utils.get_json_type))


# documented equivalent spellings of the same constructor argument
VOCAB = {"increasing": 1, "decreasing": -1, "none": 0, "valley": 1, "peak": -1,
         "convex": 1, "concave": -1, "positive": 1, "negative": -1}
_KEEP_KEYS = ("name", "class_name", "__object__", "registered_name", "module",
              "feature_name", "is_missing_name", "vocabulary_list")


def canon(x, key=None):
  """Maps the documented string spellings to their integer form (values only;
  names stay as they are)."""
  if isinstance(x, dict):
    return {k: (v if k in _KEEP_KEYS else canon(v, k)) for k, v in x.items()}
  if isinstance(x, list):
    return [canon(v, key) for v in x]
  if isinstance(x, str) and x in VOCAB:
    return VOCAB[x]
  return x


def _is_plain_config(x):
  """tfl.configs classes: plain attribute holders (vars() is their state)."""
  return (type(x).__module__.endswith("tensorflow_lattice.python.configs") and
          hasattr(x, "__dict__") and not isinstance(x, type))


def attr_value(x):
  """norm() that looks into tfl.configs objects through vars(), not through
  their get_config()."""
  if _is_plain_config(x):
    return {"__vars__": type(x).__name__,
            "vars": {str(k): attr_value(v) for k, v in vars(x).items()}}
  if isinstance(x, dict):
    return {str(k): attr_value(v) for k, v in x.items()}
  if isinstance(x, (list, tuple)):
    return [attr_value(v) for v in x]
  return norm(x)


def attr_view(obj):
  """The documented attributes of an object ("Attributes: all __init__
  arguments"): for a tfl.configs class all of vars(); otherwise every named
  parameter of __init__ that is present as an attribute, plus name / dtype /
  trainable of Keras layers and models."""
  if _is_plain_config(obj):
    return canon(attr_value(obj))
  names = []
  try:
    for pname, par in inspect.signature(type(obj).__init__).parameters.items():
      if pname != "self" and par.kind not in (par.VAR_KEYWORD,
                                              par.VAR_POSITIONAL):
        names.append(pname)
  except (TypeError, ValueError):
    pass
  if hasattr(obj, "trainable_weights"):
    names += ["name", "dtype", "trainable"]
  view = {}
  for n in names:
    if n in view:
      continue
    try:
      view[n] = canon(attr_value(getattr(obj, n)), n)
    except AttributeError:
      continue
  return view


def compare_attrs(obj, rebuilt, name, how, out, sig):
  """Every documented attribute of the rebuilt object equals the original's
  (after mapping equivalent spellings): a key that get_config() drops or
  hard-codes, or that from_config() ignores, shows here even when no
  behavioural probe depends on it."""
  va, vb = attr_view(obj), attr_view(rebuilt)
  out.checks += 1
  d = deep_diff(va, vb)
  if d:
    key = [p for p in d.split("/") if p][:2]
    key = key[-1] if (key and key[0] == "vars" and len(key) > 1) else (
        key[0] if key else "")
    out.violate("attribute %s of the %s rebuilt %s differs from the "
                "original's (%s)" % (d, name, how, _short_at(va, vb, d)),
                kind="attribute", key=key.split("(")[0], **sig)
    return False
  return True


def _short_at(a, b, path):
  for p in [q for q in path.split("/") if q]:
    p = p.split("(")[0]
    try:
      a = a[int(p)] if isinstance(a, list) else a[p]
      b = b[int(p)] if isinstance(b, list) else b[p]
    except (KeyError, IndexError, ValueError, TypeError):
      break
  return ("%r vs %r" % (a, b))[:160]


def flat(y):
  """Flattens a layer output (tensor / list / dict) to a list of float64."""
  import tensorflow as tf
  res = []
  for t in tf.nest.flatten(y, expand_composites=True):
    res.append(np.asarray(t, dtype=np.float64))
  return res


def close(a, b):
  """(ok, measure): arrays equal within TOL relative; NaN equals NaN."""
  a = np.asarray(a, np.float64)
  b = np.asarray(b, np.float64)
  if a.shape != b.shape:
    return False, "shape %s vs %s" % (a.shape, b.shape)
  if a.size == 0:
    return True, 0.0
  both_nan = np.isnan(a) & np.isnan(b)
  fin = np.isfinite(a) & np.isfinite(b)
  same_inf = (~fin) & (~both_nan) & (a == b)
  sc = max(1.0, float(np.max(np.abs(a[fin]))) if fin.any() else 1.0)
  d = np.where(fin, np.abs(a - b), 0.0)
  bad = (~fin) & (~both_nan) & (~same_inf)
  if bad.any():
    return False, "non-finite mismatch"
  m = float(d.max())
  return m <= TOL * sc, m / sc


def all_close(la, lb):
  if len(la) != len(lb):
    return False, "count %d vs %d" % (len(la), len(lb))
  worst = 0.0
  for a, b in zip(la, lb):
    ok, m = close(a, b)
    if not ok:
      return False, m
    worst = max(worst, m)
  return True, worst


def mono_spell(vals, how, dec=True):
  """Spells a list of -1/0/1 monotonicities as ints, strings or a tuple."""
  names = {1: "increasing", 0: "none", -1: "decreasing"}
  if how == "str":
    return [names[v] for v in vals]
  if how == "mixed":
    return [names[v] if i % 2 else v for i, v in enumerate(vals)]
  if how == "tuple":
    return tuple(vals)
  return list(vals)


SPELL = st.sampled_from(["int", "int", "str", "mixed", "tuple"])
AMOUNT = st.sampled_from([0.0, 1e-3, 0.1, 0.5, 1.0, 2.0])
NAME = st.sampled_from([None, None, "my_layer", "tfl_obj_7"])


def amounts(n):
  """Scalar or per-dimension regularisation amount."""
  return st.one_of(AMOUNT, AMOUNT,
                   st.lists(AMOUNT, min_size=n, max_size=n),
                   st.lists(AMOUNT, min_size=n, max_size=n).map(
                       lambda l: {"tuple": l}))


def amt(v):
  return tuple(v["tuple"]) if isinstance(v, dict) else v


# ---- keras initializers / regularizers (ids and objects)
KERAS_INIT = st.one_of(
    st.fixed_dictionaries({"k": st.just("id"), "id": st.sampled_from(
        ["zeros", "ones", "glorot_uniform", "random_normal",
         "random_uniform"])}),
    st.fixed_dictionaries({"k": st.just("Constant"),
                           "value": st.sampled_from([-1.0, 0.25, 0.5, 2.0])}),
    st.fixed_dictionaries({"k": st.just("RandomUniform"),
                           "lo": st.sampled_from([-1.0, 0.0, 0.5]),
                           "width": st.sampled_from([0.5, 1.0, 3.0]),
                           "seed": st.sampled_from([None, 3, 11])}),
    st.fixed_dictionaries({"k": st.just("TruncatedNormal"),
                           "stddev": st.sampled_from([0.1, 1.0]),
                           "seed": st.sampled_from([None, 5])}))


def make_keras_init(spec):
  _, _, keras = _tf()
  k = spec["k"]
  if k == "id":
    return spec["id"]
  if k == "Constant":
    return keras.initializers.Constant(spec["value"])
  if k == "RandomUniform":
    return keras.initializers.RandomUniform(spec["lo"], spec["lo"] +
                                            spec["width"], seed=spec["seed"])
  if k == "TruncatedNormal":
    return keras.initializers.TruncatedNormal(stddev=spec["stddev"],
                                              seed=spec["seed"])
  raise ValueError(k)


KERAS_REG = st.one_of(
    st.fixed_dictionaries({"k": st.just("L1"), "v": AMOUNT}),
    st.fixed_dictionaries({"k": st.just("L2"), "v": AMOUNT}),
    st.fixed_dictionaries({"k": st.just("L1L2"), "l1": AMOUNT, "l2": AMOUNT}))


def make_keras_reg(spec):
  _, _, keras = _tf()
  if spec["k"] == "L1":
    return keras.regularizers.L1(spec["v"])
  if spec["k"] == "L2":
    return keras.regularizers.L2(spec["v"])
  return keras.regularizers.L1L2(l1=spec["l1"], l2=spec["l2"])


def keras_regs():
  """None | one object | list of objects (Linear / Categorical style)."""
  return st.one_of(st.none(), st.none(),
                   st.fixed_dictionaries({"single": KERAS_REG}),
                   st.fixed_dictionaries({"list": st.lists(KERAS_REG, min_size=1,
                                                           max_size=2)}))


def make_keras_regs(spec):
  if spec is None:
    return None
  if "single" in spec:
    return make_keras_reg(spec["single"])
  return [make_keras_reg(s) for s in spec["list"]]


def rand_like(rs, shape, scale=1.0):
  return (rs.normal(size=tuple(shape)) * scale).astype(np.float32)


# ===========================================================================
# comparisons original <-> rebuilt
def _var_desc(v):
  return (tuple(v.shape), str(v.dtype.name), bool(v.trainable))


def compare_layers(a, b, inputs, case, out, sig, after_build=None,
                   project=False):
  """a: original layer/model, b: rebuilt; inputs: list of call arguments."""
  import tensorflow as tf
  rs = np.random.RandomState(case["aux"])
  _seed(case["seed"])
  a(inputs[0])
  _seed(case["seed"])
  b(inputs[0])
  va, vb = list(a.variables), list(b.variables)
  out.checks += 1
  if [_var_desc(v) for v in va] != [_var_desc(v) for v in vb]:
    out.violate("rebuilt %s has different variables: %s vs %s" % (
        sig["cls"], [_var_desc(v) for v in va], [_var_desc(v) for v in vb]),
                kind="variables", **sig)
    return False
  if after_build is not None and not after_build(a, b):
    return False
  out.checks += 1
  ok, m = all_close(a.get_weights(), b.get_weights())
  if not ok:
    out.violate("rebuilt %s starts from different initial weights under the "
                "same seed (%s)" % (sig["cls"], m), kind="initial-weights",
                **sig)
    return False
  for i, (p, q) in enumerate(zip(va, vb)):
    if (p.constraint is None) != (q.constraint is None):
      out.violate("variable %d (%s) of rebuilt %s %s a constraint" % (
          i, p.name, sig["cls"], "lost" if q.constraint is None else "gained"),
                  kind="constraint-presence", **sig)
      return False
  # randomise the weights of the original and copy them over
  new = [rand_like(rs, w.shape, 1.0 if i % 2 else 0.3)
         for i, w in enumerate(a.get_weights())]
  a.set_weights(new)
  if project:
    # premade models feed calibrator outputs into lattices that do not clip:
    # keep the random weights inside the constraints (twice: KFL kernels
    # depend on the scale variable)
    for _ in range(2):
      for p in va:
        if p.constraint is not None:
          p.assign(p.constraint(p))
  b.set_weights(a.get_weights())
  for i, (p, q) in enumerate(zip(va, vb)):
    if p.constraint is None:
      continue
    t = tf.constant(rand_like(rs, p.shape, 2.0).astype(
        p.dtype.as_numpy_dtype))
    ra, rb = p.constraint(t), q.constraint(t)
    out.checks += 1
    ok, m = close(ra, rb)
    if not ok:
      out.violate("constraint of variable %d (%s) of rebuilt %s maps the same "
                  "tensor differently (%s)" % (i, p.name, sig["cls"], m),
                  kind="constraint-result", **sig)
      return False
  nondeg = False
  for x in inputs:
    ya, yb = flat(a(x)), flat(b(x))
    out.checks += 1
    ok, m = all_close(ya, yb)
    if not ok:
      out.violate("rebuilt %s with the original weights computes different "
                  "outputs (%s)" % (sig["cls"], m), kind="outputs", **sig)
      return False
    if any(y.size > 1 and np.ptp(y[np.isfinite(y)]) > 0 for y in ya
           if np.isfinite(y).any()):
      nondeg = True
  la = [np.asarray(l, np.float64) for l in a.losses]
  lb = [np.asarray(l, np.float64) for l in b.losses]
  out.checks += 1
  ok, m = (len(la) == len(lb), "count") if len(la) != len(lb) else close(
      np.sum(la) if la else 0.0, np.sum(lb) if lb else 0.0)
  if not ok:
    out.violate("rebuilt %s has different regularisation losses (%s vs %s)" % (
        sig["cls"], la, lb), kind="losses", **sig)
    return False
  out.info["nondegenerate_outputs"] = nondeg
  return True


def compare_tensor_fn(fa, fb, what, out, sig):
  ta, tb = fa(), fb()
  out.checks += 1
  ok, m = all_close(flat(ta), flat(tb))
  if not ok:
    out.violate("rebuilt %s gives a different %s (%s)" % (sig["cls"], what, m),
                kind=what, **sig)
  return ok


# ===========================================================================
# registry of generators: name -> Entry
class Entry(object):

  def __init__(self, name, kind, strat, make, weight=1.0, **extra):
    self.name, self.kind, self.strat, self.make = name, kind, strat, make
    self.weight = weight
    self.extra = extra


REG = {}

# Non-default Keras base-class arguments for the layer / premade model under
# construction (set by run_object around entry.make and build_premade).
_CTX = {"dtype": None}
# dtype="float64" layers and premade models (documented: **kwargs "passed to
# keras.layers.Layer", premade `dtype` argument).
GEN_FLOAT64_LAYERS = True
# fixed in /repo 067ecf5: CDF(dtype="float64") with the default fixed input
# scaling multiplied a float32 constant with float64 tensors.
GEN_FLOAT64_CDF = True
# fixed in /repo 5857939: a float64 Lattice (also inside RTL) with a LIST of
# kernel regularizers could not be built when one item evaluated to the Python
# constant 0.0 (tf.add_n of float32 and float64).
GEN_FLOAT64_LATTICE_REGULARIZER_LISTS = True
# fixed in /repo 38e8418 / aa72b10: CalibratedLinear(dtype=tf.float64) could
# not be constructed (Concatenate without dtype) and every premade model
# dropped dtype in get_config().
GEN_FLOAT64_PREMADE = True


def _cdf_with_keras_nonneg(name, spec):
  """CDF (also inside ParallelCombination) with learned, monotone scaling."""
  def one(a):
    typ = a.get("scaling_type") or "fixed"
    mono = a.get("scaling_mono")
    mono = "increasing" if mono is None else mono     # the library's default
    return typ != "fixed" and mono not in ("none", 0)
  if name == "CDF":
    return one(spec)
  if name == "ParallelCombination":
    return any(sub["kind"] == "cdf" and one(sub.get("args", sub))
               for sub in spec["subs"])
  return False


def _base_kw():
  return {} if _CTX["dtype"] is None else {"dtype": _CTX["dtype"]}



# ---------------------------------------------------------------- Lattice
FAMILIES = (("ew", "edgeworth_trusts"), ("tz", "trapezoid_trusts"),
            ("mdom", "monotonic_dominances"), ("rdom", "range_dominances"),
            ("jmono", "joint_monotonicities"))


@st.composite
def lattice_cfg(draw, tier, single_ok=True):
  big = tier == "thorough"
  sizes = draw(S.lattice_sizes(max_rank=4 if big else 3,
                               max_size=4 if big else 3,
                               max_weights=128 if big else 36))
  cfg = draw(S.lattice_config(sizes))
  single = bool(single_ok and draw(st.integers(0, 2)) == 0)
  if single:
    for key, _ in FAMILIES:
      cfg[key] = cfg[key][:1]
    cfg["junimod"] = cfg["junimod"][:1]
    n = len(sizes)
    if n >= 2 and not any(cfg[k] for k, _ in FAMILIES):
      # make sure the single-tuple spelling has something to spell
      mono_dims = [i for i in range(n) if cfg["mono"][i]]
      if mono_dims:
        m = mono_dims[0]
        c = [i for i in range(n) if i != m][0]
        cfg[draw(st.sampled_from(["ew", "tz"]))] = [
            [m, c, draw(st.sampled_from([1, -1]))]]
      if len(mono_dims) >= 2:
        cfg[draw(st.sampled_from(["mdom", "rdom"]))] = [mono_dims[:2]]
      cfg["jmono"] = [[0, 1]]
  sp = {"mono": draw(SPELL), "unimod": draw(st.sampled_from(["int", "str"])),
        "dir_str": draw(st.booleans()), "sizes_tuple": draw(st.booleans()),
        "single": single}
  return {"cfg": cfg, "sp": sp}


def lattice_kwargs(spec):
  """Lattice / LatticeConstraints kwargs in the drawn spelling."""
  cfg, sp = spec["cfg"], spec["sp"]
  kw = S.lattice_kwargs(cfg)
  how = sp["mono"]
  kw["monotonicities"] = mono_spell(cfg["mono"], how)
  if "unimodalities" in kw and sp["unimod"] == "str":
    kw["unimodalities"] = [{1: "valley", -1: "peak", 0: "none"}[u]
                           for u in cfg["unimod"]]
  if sp["dir_str"]:
    for key in ("edgeworth_trusts", "trapezoid_trusts"):
      if key in kw:
        kw[key] = [(m, c, "positive" if d == 1 else "negative")
                   for m, c, d in kw[key]]
  if sp["single"]:
    for _, key in FAMILIES + (("junimod", "joint_unimodalities"),):
      if key in kw and len(kw[key]) == 1:
        kw[key] = kw[key][0]
  if sp["sizes_tuple"]:
    kw["lattice_sizes"] = tuple(kw["lattice_sizes"])
  return kw


def _n_opt_lattice(cfg):
  return sum(1 for k in ("ew", "tz", "mdom", "rdom", "jmono", "junimod") if
             cfg[k]) + int(any(cfg["mono"])) + int(any(cfg["unimod"])) + int(
                 cfg["omin"] is not None) + int(cfg["omax"] is not None)


@st.composite
def lattice_reg_item(draw, n):
  k = draw(st.sampled_from(["tuple", "tuple", "obj", "keras"]))
  if k == "keras":
    return {"k": "keras", "spec": draw(KERAS_REG)}
  return {"k": k, "name": draw(st.sampled_from(
      ["torsion", "laplacian", "Torsion", "LAPLACIAN"] if k == "tuple" else
      ["torsion", "laplacian"])), "l1": draw(amounts(n)),
          "l2": draw(amounts(n))}


def lattice_regs(n):
  return st.one_of(st.none(), st.none(),
                   st.fixed_dictionaries({"single": lattice_reg_item(n)}),
                   st.fixed_dictionaries({"list": st.lists(lattice_reg_item(n),
                                                           min_size=1,
                                                           max_size=3)}))


def make_lattice_reg_item(item, sizes):
  from tensorflow_lattice.python import lattice_layer as LL
  if item["k"] == "keras":
    return make_keras_reg(item["spec"])
  l1, l2 = amt(item["l1"]), amt(item["l2"])
  if item["k"] == "tuple":
    return (item["name"], l1, l2)
  cls = LL.TorsionRegularizer if item["name"] == "torsion" else (
      LL.LaplacianRegularizer)
  return cls(lattice_sizes=list(sizes), l1=l1, l2=l2)


def make_lattice_regs(spec, sizes):
  if spec is None:
    return None
  if "single" in spec:
    return make_lattice_reg_item(spec["single"], sizes)
  return [make_lattice_reg_item(i, sizes) for i in spec["list"]]


@st.composite
def lattice_init(draw, cfg, force=None):
  sizes = cfg["sizes"]
  k = force or draw(st.sampled_from(["default", "id", "id", "linear_obj",
                                     "rmono_obj", "keras"]))
  if k == "default":
    return None
  if k == "id":
    return {"k": "id", "id": draw(st.sampled_from(
        ["linear_initializer", "random_monotonic_initializer",
         "random_uniform_or_linear_initializer", "LinearInitializer",
         "RandomMonotonicInitializer"]))}
  if k == "keras":
    return {"k": "keras", "spec": draw(KERAS_INIT)}
  lo = draw(st.sampled_from([-2.0, 0.0, 0.5]))
  spec = {"k": k, "omin": lo, "omax": lo + draw(st.sampled_from([0.5, 1.0, 4.0])),
          "unimod": None}
  if draw(st.booleans()):
    spec["unimod"] = [draw(st.sampled_from([0, 0, 1, -1])) if s >= 3 else 0
                      for s in sizes]
  if k == "linear_obj":
    spec["mono"] = [0 if (spec["unimod"] and spec["unimod"][i]) else
                    draw(st.integers(0, 1)) for i in range(len(sizes))]
    spec["spell"] = draw(SPELL)
  return spec


def make_lattice_init(spec, sizes):
  from tensorflow_lattice.python import lattice_layer as LL
  if spec["k"] == "id":
    return spec["id"]
  if spec["k"] == "keras":
    return make_keras_init(spec["spec"])
  if spec["k"] == "linear_obj":
    return LL.LinearInitializer(
        lattice_sizes=sizes,
        monotonicities=mono_spell(spec["mono"], spec["spell"]),
        output_min=spec["omin"], output_max=spec["omax"],
        unimodalities=spec["unimod"])
  return LL.RandomMonotonicInitializer(
      lattice_sizes=sizes, output_min=spec["omin"],
      output_max=spec["omax"], unimodalities=spec["unimod"])


@st.composite
def lattice_layer_spec(draw, tier):
  base = draw(lattice_cfg(tier))
  cfg = base["cfg"]
  n = len(cfg["sizes"])
  base.update({
      "units": draw(st.sampled_from([1, 1, 2, 3])),
      "iters": draw(st.sampled_from([None, 0, 1, 4, 10])),
      "every_step": draw(st.sampled_from([None, True, False])),
      "clip": draw(st.sampled_from([None, True, False])),
      "interp": draw(st.sampled_from([None, "hypercube", "simplex"])),
      "init": draw(lattice_init(cfg)),
      "reg": draw(lattice_regs(n)),
      "name": draw(NAME),
      "list_input": draw(st.integers(0, 3)) == 0,
  })
  return base


def make_lattice_layer(spec):
  _, tfl, _ = _tf()
  cfg = spec["cfg"]
  kw = lattice_kwargs(spec)
  n_opt = _n_opt_lattice(cfg)
  kw["units"] = spec["units"]
  for key, arg in (("iters", "num_projection_iterations"),
                   ("every_step", "monotonic_at_every_step"),
                   ("clip", "clip_inputs"), ("interp", "interpolation"),
                   ("name", "name")):
    if spec[key] is not None:
      kw[arg] = spec[key]
      n_opt += 1
  if spec["init"] is not None:
    kw["kernel_initializer"] = make_lattice_init(spec["init"], cfg["sizes"])
    n_opt += 1
  if spec["reg"] is not None:
    kw["kernel_regularizer"] = make_lattice_regs(spec["reg"], cfg["sizes"])
    n_opt += 1
  kw.update(_base_kw())
  return tfl.layers.Lattice(**kw), n_opt + int(spec["units"] > 1)


def lattice_inputs(spec, rs):
  sizes, u = spec["cfg"]["sizes"], spec["units"]
  res = []
  for b in (5, 3):
    shape = (b, len(sizes)) if u == 1 else (b, u, len(sizes))
    x = rs.uniform(-0.6, 1.0, size=shape) * np.asarray(sizes)
    x[0] = np.round(x[0])
    if spec["clip"] is False:      # unclipped lattices take in-range inputs
      x = np.clip(x, 0.0, np.asarray(sizes) - 1.0)
    x = x.astype(np.float32)
    if spec.get("list_input"):
      x = [x[..., i:i + 1] for i in range(len(sizes))]
    res.append(x)
  return res


REG["Lattice"] = Entry("Lattice", "layer", lattice_layer_spec,
                       make_lattice_layer, 3.0, inputs=lattice_inputs)


@st.composite
def lattice_constraints_spec(draw, tier):
  base = draw(lattice_cfg(tier, single_ok=False))
  base.update({"units": draw(st.sampled_from([1, 2])),
               "iters": draw(st.sampled_from([None, 0, 3, 10])),
               "strict": draw(st.sampled_from([None, True, False]))})
  return base


def make_lattice_constraints(spec):
  from tensorflow_lattice.python import lattice_layer as LL
  kw = lattice_kwargs(spec)
  n_opt = _n_opt_lattice(spec["cfg"])
  if spec["iters"] is not None:
    kw["num_projection_iterations"] = spec["iters"]
    n_opt += 1
  if spec["strict"] is not None:
    kw["enforce_strict_monotonicity"] = spec["strict"]
    n_opt += 1
  return LL.LatticeConstraints(**kw), n_opt


def lattice_weights(spec, rs):
  n = int(np.prod(spec["cfg"]["sizes"]))
  return rand_like(rs, (n, spec["units"]), 2.0)


REG["LatticeConstraints"] = Entry(
    "LatticeConstraints", "constraint", lattice_constraints_spec,
    make_lattice_constraints, 2.0, tensor=lattice_weights)


@st.composite
def lattice_initializer_spec(draw, tier, which):
  sizes = draw(S.lattice_sizes(max_rank=3, max_size=4, max_weights=64))
  cfg = {"sizes": sizes}
  spec = draw(lattice_init(cfg, force=which))
  spec.update({"sizes": sizes, "sizes_tuple": draw(st.booleans()),
               "units": draw(st.integers(1, 3))})
  return spec


def make_lattice_initializer(spec):
  sizes = tuple(spec["sizes"]) if spec["sizes_tuple"] else spec["sizes"]
  obj = make_lattice_init(spec, sizes)
  return obj, 1 + int(spec["unimod"] is not None)


def lattice_init_call(obj, spec):
  import tensorflow as tf
  n = int(np.prod(spec["sizes"]))
  return obj(shape=(n, spec["units"]), dtype=tf.float32)


REG["LinearInitializer"] = Entry(
    "LinearInitializer", "initializer",
    lambda tier: lattice_initializer_spec(tier, "linear_obj"),
    make_lattice_initializer, call=lattice_init_call)
REG["RandomMonotonicInitializer"] = Entry(
    "RandomMonotonicInitializer", "initializer",
    lambda tier: lattice_initializer_spec(tier, "rmono_obj"),
    make_lattice_initializer, call=lattice_init_call)


def lattice_regularizer_spec(name):
  @st.composite
  def strat(draw, tier):
    sizes = draw(S.lattice_sizes(max_rank=3, max_size=4, max_weights=64))
    return {"name": name, "sizes": sizes, "sizes_tuple": draw(st.booleans()),
            "l1": draw(amounts(len(sizes))), "l2": draw(amounts(len(sizes))),
            "units": draw(st.integers(1, 3))}
  return strat


def make_lattice_regularizer(spec):
  from tensorflow_lattice.python import lattice_layer as LL
  cls = LL.TorsionRegularizer if spec["name"] == "torsion" else (
      LL.LaplacianRegularizer)
  sizes = tuple(spec["sizes"]) if spec["sizes_tuple"] else list(spec["sizes"])
  return cls(lattice_sizes=sizes, l1=amt(spec["l1"]), l2=amt(spec["l2"])), 2


def lattice_reg_weights(spec, rs):
  return rand_like(rs, (int(np.prod(spec["sizes"])), spec["units"]), 2.0)


REG["TorsionRegularizer"] = Entry(
    "TorsionRegularizer", "regularizer", lattice_regularizer_spec("torsion"),
    make_lattice_regularizer, tensor=lattice_reg_weights)
REG["LaplacianRegularizer"] = Entry(
    "LaplacianRegularizer", "regularizer",
    lattice_regularizer_spec("laplacian"), make_lattice_regularizer,
    tensor=lattice_reg_weights)


# ---------------------------------------------------------------- PWL
MONO_NAMES = {1: "increasing", 0: "none", -1: "decreasing"}
CONV_NAMES = {1: "convex", 0: "none", -1: "concave"}


@st.composite
def pwl_reg_item(draw):
  k = draw(st.sampled_from(["tuple", "tuple", "obj", "keras"]))
  if k == "keras":
    return {"k": "keras", "spec": draw(KERAS_REG)}
  return {"k": k, "name": draw(st.sampled_from(
      ["laplacian", "hessian", "wrinkle", "Hessian"] if k == "tuple" else
      ["laplacian", "hessian", "wrinkle"])), "l1": draw(AMOUNT),
          "l2": draw(AMOUNT)}


PWL_REGS = st.one_of(st.none(), st.none(),
                     st.fixed_dictionaries({"single": pwl_reg_item()}),
                     st.fixed_dictionaries({"list": st.lists(
                         pwl_reg_item(), min_size=1, max_size=3)}))


def _pwl_reg_cls(name):
  from tensorflow_lattice.python import pwl_calibration_layer as PL
  return {"laplacian": PL.LaplacianRegularizer,
          "hessian": PL.HessianRegularizer,
          "wrinkle": PL.WrinkleRegularizer}[name]


def make_pwl_reg_item(item, cyclic):
  if item["k"] == "keras":
    return make_keras_reg(item["spec"])
  if item["k"] == "tuple":
    return (item["name"], item["l1"], item["l2"])
  return _pwl_reg_cls(item["name"])(l1=item["l1"], l2=item["l2"],
                                    is_cyclic=cyclic)


def make_pwl_regs(spec, cyclic):
  if spec is None:
    return None
  if "single" in spec:
    return make_pwl_reg_item(spec["single"], cyclic)
  return [make_pwl_reg_item(i, cyclic) for i in spec["list"]]


@st.composite
def pwl_layer_spec(draw, tier):
  cfg = draw(S.pwl_config(max_k=8 if tier == "thorough" else 6))
  kp = cfg["keypoints"]
  missing = draw(st.sampled_from(["none", "none", "value", "value", "pair"]))
  spec = {
      "cfg": cfg,
      "missing": missing,
      "missing_in": draw(st.sampled_from([-1000.0, kp[0] - 1.0, -1.0]))
                    if missing == "value" else None,
      "missing_out": draw(st.sampled_from([None, 0.0, 0.5, -3.0, 7.0]))
                     if missing != "none" else None,
      "kp_type": "learned_interior" if (cfg["conv"] == 0 and
                                        draw(st.integers(0, 2)) == 0) else (
                                            draw(st.sampled_from([None,
                                                                  "fixed"]))),
      "kp_spell": draw(st.sampled_from(["list", "tuple", "ndarray"])),
      "mono_str": draw(st.booleans()), "conv_str": draw(st.booleans()),
      "init": draw(st.one_of(
          st.none(),
          st.fixed_dictionaries({"k": st.sampled_from(
              ["equal_heights", "equal_slopes", "uniform_obj",
               "uniform_obj_kp"])}),
          st.fixed_dictionaries({"k": st.just("keras"), "spec": KERAS_INIT}))),
      "reg": draw(PWL_REGS),
      "split": draw(st.sampled_from([None, False, True])),
      "name": draw(NAME),
      "wide_input": draw(st.booleans()),
  }
  return spec


def _kp(spec):
  kp = spec["cfg"]["keypoints"]
  if spec["kp_spell"] == "tuple":
    return tuple(kp)
  if spec["kp_spell"] == "ndarray":
    return np.asarray(kp, dtype=np.float32)
  return list(kp)


def make_pwl_layer(spec):
  _, tfl, _ = _tf()
  from tensorflow_lattice.python import pwl_calibration_layer as PL
  cfg = spec["cfg"]
  kw = S.pwl_layer_kwargs(cfg)
  n_opt = sum(1 for k in ("omin", "omax") if cfg[k] is not None) + sum(
      1 for k in ("clamp_min", "clamp_max", "mono", "conv", "cyclic") if cfg[k]
  ) + 1 + int(cfg["units"] > 1)
  kw["input_keypoints"] = _kp(spec)
  if spec["mono_str"]:
    kw["monotonicity"] = MONO_NAMES[cfg["mono"]]
  if spec["conv_str"]:
    kw["convexity"] = CONV_NAMES[cfg["conv"]]
  if spec["missing"] != "none":
    kw["impute_missing"] = True
    n_opt += 1
    if spec["missing_in"] is not None:
      kw["missing_input_value"] = spec["missing_in"]
    if spec["missing_out"] is not None:
      kw["missing_output_value"] = spec["missing_out"]
      n_opt += 1
  if spec["kp_type"] is not None:
    kw["input_keypoints_type"] = spec["kp_type"]
    n_opt += 1
  init = spec["init"]
  if init is not None:
    n_opt += 1
    if init["k"] in ("equal_heights", "equal_slopes"):
      kw["kernel_initializer"] = init["k"]
    elif init["k"] == "keras":
      kw["kernel_initializer"] = make_keras_init(init["spec"])
    else:
      kps = list(cfg["keypoints"][:-1] if cfg["cyclic"] else cfg["keypoints"])
      kw["kernel_initializer"] = PL.UniformOutputInitializer(
          output_min=-1.5, output_max=2.5,
          monotonicity=MONO_NAMES[cfg["mono"]] if spec["mono_str"] else
          cfg["mono"], keypoints=kps if init["k"] == "uniform_obj_kp" else None)
  if spec["reg"] is not None:
    kw["kernel_regularizer"] = make_pwl_regs(spec["reg"], cfg["cyclic"])
    n_opt += 1
  if spec["split"] is not None:
    kw["split_outputs"] = spec["split"]
  if spec["name"] is not None:
    kw["name"] = spec["name"]
  kw.update(_base_kw())
  return tfl.layers.PWLCalibration(**kw), n_opt


def pwl_inputs(spec, rs):
  cfg = spec["cfg"]
  kp = np.asarray(cfg["keypoints"], np.float64)
  span = kp[-1] - kp[0]
  res = []
  for b in (6, 4):
    cols = cfg["units"] if spec["wide_input"] else 1
    x = rs.uniform(kp[0] - 0.5 * span, kp[-1] + 0.5 * span, size=(b, cols))
    x[0, 0] = kp[rs.randint(len(kp))]
    x = x.astype(np.float32)
    if spec["missing"] == "value":
      x[rs.rand(b, cols) < 0.3] = spec["missing_in"]
      x[1, 0] = spec["missing_in"]
    if spec["missing"] == "pair":
      miss = (rs.rand(b, cols) < 0.4).astype(np.float32)
      miss[1, 0] = 1.0
      x = [x, miss]
    res.append(x)
  return res


REG["PWLCalibration"] = Entry("PWLCalibration", "layer", pwl_layer_spec,
                              make_pwl_layer, 3.0, inputs=pwl_inputs)


@st.composite
def uniform_init_spec(draw, tier):
  kp = draw(S.pwl_keypoints(max_k=6))
  lo = draw(st.sampled_from([-10.0, 0.0, 0.5]))
  return {"omin": lo, "omax": lo + draw(st.sampled_from([0.0, 1.0, 3.0])),
          "mono": draw(st.sampled_from([-1, 0, 1])),
          "mono_str": draw(st.booleans()),
          "keypoints": draw(st.sampled_from([None, "list", "tuple"])),
          "kp": kp, "units": draw(st.integers(1, 3))}


def make_uniform_init(spec):
  from tensorflow_lattice.python import pwl_calibration_layer as PL
  kps = None
  if spec["keypoints"] == "list":
    kps = list(spec["kp"])
  elif spec["keypoints"] == "tuple":
    kps = tuple(spec["kp"])
  return PL.UniformOutputInitializer(
      output_min=spec["omin"], output_max=spec["omax"],
      monotonicity=MONO_NAMES[spec["mono"]] if spec["mono_str"] else
      spec["mono"], keypoints=kps), 1 + int(kps is not None)


def uniform_init_call(obj, spec):
  import tensorflow as tf
  return obj(shape=(len(spec["kp"]), spec["units"]), dtype=tf.float32)


REG["UniformOutputInitializer"] = Entry(
    "UniformOutputInitializer", "initializer", uniform_init_spec,
    make_uniform_init, call=uniform_init_call, extra_public=True)


@st.composite
def pwl_constraints_spec(draw, tier):
  cfg = draw(S.pwl_config(max_k=6, allow_cyclic=False))
  return {"cfg": cfg, "mono_str": draw(st.booleans()),
          "conv_str": draw(st.booleans()),
          "lengths": draw(st.sampled_from(["list", "tensor"])) if cfg["conv"]
                     else draw(st.sampled_from([None, "list", "tensor"])),
          "iters": draw(st.sampled_from([None, 0, 3, 8]))}


def make_pwl_constraints(spec):
  import tensorflow as tf
  from tensorflow_lattice.python import pwl_calibration_layer as PL
  from tensorflow_lattice.python import pwl_calibration_lib as PLIB
  cfg = spec["cfg"]
  B = PLIB.BoundConstraintsType
  kw = {"monotonicity": MONO_NAMES[cfg["mono"]] if spec["mono_str"] else
                        cfg["mono"],
        "convexity": CONV_NAMES[cfg["conv"]] if spec["conv_str"] else
                     cfg["conv"],
        "output_min": cfg["omin"], "output_max": cfg["omax"],
        "output_min_constraints": B.NONE if cfg["omin"] is None else (
            B.CLAMPED if cfg["clamp_min"] else B.BOUND),
        "output_max_constraints": B.NONE if cfg["omax"] is None else (
            B.CLAMPED if cfg["clamp_max"] else B.BOUND)}
  lengths = np.diff(np.asarray(cfg["keypoints"], np.float32))
  if spec["lengths"] == "list":
    kw["lengths"] = [float(v) for v in lengths]
  elif spec["lengths"] == "tensor":
    kw["lengths"] = tf.constant(lengths)
  if spec["iters"] is not None:
    kw["num_projection_iterations"] = spec["iters"]
  return PL.PWLCalibrationConstraints(**kw), sum(
      1 for v in (cfg["mono"], cfg["conv"], cfg["omin"], cfg["omax"],
                  spec["lengths"], spec["iters"]) if v)


def pwl_weights(spec, rs):
  cfg = spec["cfg"]
  return rand_like(rs, (len(cfg["keypoints"]), cfg["units"]), 2.0)


REG["PWLCalibrationConstraints"] = Entry(
    "PWLCalibrationConstraints", "constraint", pwl_constraints_spec,
    make_pwl_constraints, 2.0, tensor=pwl_weights)


@st.composite
def naive_bounds_spec(draw, tier):
  bm = draw(st.sampled_from(["min", "max", "both", "both", "none"]))
  lo = draw(st.sampled_from([-10.0, 0.0, 0.5]))
  return {"lo": lo if bm in ("min", "both") else None,
          "hi": lo + draw(st.sampled_from([0.0, 1.0, 100.0]))
                if bm in ("max", "both") else None,
          "units": draw(st.integers(1, 3))}


def make_naive_bounds(spec):
  from tensorflow_lattice.python import pwl_calibration_layer as PL
  return PL.NaiveBoundsConstraints(lower_bound=spec["lo"],
                                   upper_bound=spec["hi"]), int(
                                       spec["lo"] is not None) + int(
                                           spec["hi"] is not None)


REG["NaiveBoundsConstraints"] = Entry(
    "NaiveBoundsConstraints", "constraint", naive_bounds_spec,
    make_naive_bounds, 0.6,
    tensor=lambda spec, rs: rand_like(rs, (1, spec["units"]), 20.0))


def pwl_regularizer_spec(name):
  @st.composite
  def strat(draw, tier):
    return {"name": name, "l1": draw(AMOUNT), "l2": draw(AMOUNT),
            "cyclic": draw(st.sampled_from([None, False, True])),
            "k": draw(st.integers(2, 7)), "units": draw(st.integers(1, 3))}
  return strat


def make_pwl_regularizer(spec):
  kw = {"l1": spec["l1"], "l2": spec["l2"]}
  if spec["cyclic"] is not None:
    kw["is_cyclic"] = spec["cyclic"]
  return _pwl_reg_cls(spec["name"])(**kw), 2 + int(bool(spec["cyclic"]))


for _n in ("laplacian", "hessian", "wrinkle"):
  _key = "PWL" + _n.capitalize() + "Regularizer"
  REG[_key] = Entry(
      _key, "regularizer", pwl_regularizer_spec(_n), make_pwl_regularizer, 0.7,
      tensor=lambda spec, rs: rand_like(rs, (spec["k"], spec["units"]), 2.0),
      extra_public=True)


# ---------------------------------------------------------------- Linear
def _bounds_spell(vals, how):
  if vals is None:
    return None
  v = ["none" if (x is None and how == "str") else x for x in vals]
  return tuple(v) if how == "tuple" else v


@st.composite
def linear_layer_spec(draw, tier):
  cfg = draw(S.linear_config(max_dims=6))
  return {"cfg": cfg, "mono": draw(SPELL),
          "single_mono": draw(st.booleans()),
          "bounds": draw(st.sampled_from(["list", "str", "tuple"])),
          "kinit": draw(st.one_of(st.none(), KERAS_INIT)),
          "binit": draw(st.one_of(st.none(), KERAS_INIT)),
          "kreg": draw(keras_regs()), "breg": draw(keras_regs()),
          "name": draw(NAME)}


def linear_kwargs(spec, layer=True):
  cfg = spec["cfg"]
  kw = S.linear_kwargs(cfg)
  kw["monotonicities"] = mono_spell(cfg["mono"], spec["mono"])
  if layer and spec.get("single_mono") and len(set(cfg["mono"])) == 1:
    kw["monotonicities"] = mono_spell(cfg["mono"][:1], spec["mono"])[0]
  for key in ("input_min", "input_max"):
    if key in kw:
      kw[key] = _bounds_spell(kw[key], spec["bounds"])
  return kw


def _n_opt_linear(cfg):
  return sum(1 for k in ("mono_dom", "range_dom", "norm") if cfg[k]) + int(
      any(cfg["mono"])) + int(any(v is not None for v in cfg["input_min"] +
                                  cfg["input_max"]))


def make_linear_layer(spec):
  _, tfl, _ = _tf()
  cfg = spec["cfg"]
  kw = linear_kwargs(spec)
  n_opt = _n_opt_linear(cfg) + int(cfg["units"] > 1) + int(not cfg["use_bias"])
  if spec["kinit"] is not None:
    kw["kernel_initializer"] = make_keras_init(spec["kinit"])
    n_opt += 1
  if spec["binit"] is not None and cfg["use_bias"]:
    kw["bias_initializer"] = make_keras_init(spec["binit"])
    n_opt += 1
  if spec["kreg"] is not None:
    kw["kernel_regularizer"] = make_keras_regs(spec["kreg"])
    n_opt += 1
  if spec["breg"] is not None and cfg["use_bias"]:
    kw["bias_regularizer"] = make_keras_regs(spec["breg"])
    n_opt += 1
  if spec["name"] is not None:
    kw["name"] = spec["name"]
  kw.update(_base_kw())
  return tfl.layers.Linear(num_input_dims=cfg["dims"], units=cfg["units"],
                           use_bias=cfg["use_bias"], **kw), n_opt


def linear_inputs(spec, rs):
  cfg = spec["cfg"]
  d, u = cfg["dims"], cfg["units"]
  res = []
  for b in (5, 3):
    shape = (b, d) if u == 1 else (b, u, d)
    x = rs.normal(size=shape) * rs.choice([1.0, 10.0, 2000.0], size=shape)
    res.append(x.astype(np.float32))
  return res


REG["Linear"] = Entry("Linear", "layer", linear_layer_spec, make_linear_layer,
                      3.0, inputs=linear_inputs)


@st.composite
def linear_constraints_spec(draw, tier):
  return {"cfg": draw(S.linear_config(max_dims=6)), "mono": draw(SPELL),
          "bounds": draw(st.sampled_from(["list", "str", "tuple"]))}


def make_linear_constraints(spec):
  from tensorflow_lattice.python import linear_layer as LIN
  return LIN.LinearConstraints(**linear_kwargs(spec, layer=False)), (
      _n_opt_linear(spec["cfg"]))


REG["LinearConstraints"] = Entry(
    "LinearConstraints", "constraint", linear_constraints_spec,
    make_linear_constraints, 2.0,
    tensor=lambda spec, rs: rand_like(rs, (spec["cfg"]["dims"],
                                           spec["cfg"]["units"]), 2.0))


# ---------------------------------------------------------------- Categorical
@st.composite
def categorical_cfg(draw):
  nb = draw(st.integers(2, 5))
  bm = draw(st.sampled_from(["none", "min", "max", "both", "both"]))
  lo = draw(st.sampled_from([-10.0, 0.0, 0.5]))
  pairs = draw(S.dag_pairs(nb, max_edges=4, allow_duplicates=False))
  return {"nb": nb, "units": draw(st.integers(1, 3)),
          "omin": lo if bm in ("min", "both") else None,
          "omax": lo + draw(st.sampled_from([0.0, 1.0, 5.0]))
                  if bm in ("max", "both") else None,
          "pairs": pairs, "pair_lists": draw(st.booleans())}


def _pairs(cfg):
  if not cfg["pairs"]:
    return None
  return [list(p) if cfg["pair_lists"] else tuple(p) for p in cfg["pairs"]]


@st.composite
def categorical_layer_spec(draw, tier):
  return {"cfg": draw(categorical_cfg()),
          "init": draw(st.one_of(
              st.none(),
              st.fixed_dictionaries({"k": st.sampled_from(["uniform",
                                                           "constant"])}),
              st.fixed_dictionaries({"k": st.just("keras"),
                                     "spec": KERAS_INIT}))),
          "reg": draw(keras_regs()),
          "default": draw(st.sampled_from([None, None, -1, 7, -1.0, 0, 0.0, 1])),
          "split": draw(st.sampled_from([None, False, True])),
          "name": draw(NAME), "wide_input": draw(st.booleans()),
          "int_input": draw(st.booleans())}


def make_categorical_layer(spec):
  _, tfl, _ = _tf()
  cfg = spec["cfg"]
  kw = {"num_buckets": cfg["nb"], "units": cfg["units"],
        "output_min": cfg["omin"], "output_max": cfg["omax"],
        "monotonicities": _pairs(cfg)}
  n_opt = sum(1 for v in (cfg["omin"], cfg["omax"], cfg["pairs"]) if
              v not in (None, [])) + int(cfg["units"] > 1)
  if spec["init"] is not None:
    kw["kernel_initializer"] = (make_keras_init(spec["init"]["spec"])
                                if spec["init"]["k"] == "keras" else
                                spec["init"]["k"])
    n_opt += 1
  if spec["reg"] is not None:
    kw["kernel_regularizer"] = make_keras_regs(spec["reg"])
    n_opt += 1
  if spec["default"] is not None:
    kw["default_input_value"] = spec["default"]
    n_opt += 1
  if spec["split"] is not None:
    kw["split_outputs"] = spec["split"]
  if spec["name"] is not None:
    kw["name"] = spec["name"]
  kw.update(_base_kw())
  return tfl.layers.CategoricalCalibration(**kw), n_opt


def categorical_inputs(spec, rs):
  cfg = spec["cfg"]
  res = []
  for b in (6, 4):
    cols = cfg["units"] if spec["wide_input"] else 1
    x = rs.randint(0, cfg["nb"], size=(b, cols)).astype(np.float64)
    if spec["default"] is not None:
      x[rs.rand(b, cols) < 0.3] = spec["default"]
      x[0, 0] = spec["default"]
    res.append(x.astype(np.int32 if spec["int_input"] else np.float32))
  return res


REG["CategoricalCalibration"] = Entry(
    "CategoricalCalibration", "layer", categorical_layer_spec,
    make_categorical_layer, 2.0, inputs=categorical_inputs)


@st.composite
def categorical_constraints_spec(draw, tier):
  return {"cfg": draw(categorical_cfg())}


def make_categorical_constraints(spec):
  from tensorflow_lattice.python import categorical_calibration_layer as CL
  cfg = spec["cfg"]
  return CL.CategoricalCalibrationConstraints(
      output_min=cfg["omin"], output_max=cfg["omax"],
      monotonicities=_pairs(cfg)), sum(
          1 for v in (cfg["omin"], cfg["omax"], cfg["pairs"]) if
          v not in (None, []))


REG["CategoricalCalibrationConstraints"] = Entry(
    "CategoricalCalibrationConstraints", "constraint",
    categorical_constraints_spec, make_categorical_constraints, 1.0,
    tensor=lambda spec, rs: rand_like(rs, (spec["cfg"]["nb"],
                                           spec["cfg"]["units"]), 8.0))


# ---------------------------------------------------------------- KFL
@st.composite
def kfl_init_spec(draw, dims, force=None):
  k = force or draw(st.sampled_from(["default", "id", "obj", "keras"]))
  if k == "default":
    return None
  if k == "id":
    return {"k": "id", "id": draw(st.sampled_from(
        ["kfl_random_monotonic_initializer", "KFLRandomMonotonicInitializer"]))}
  if k == "keras":
    return {"k": "keras", "spec": draw(KERAS_INIT)}
  lo = draw(st.sampled_from([0.1, 0.5, 1.0]))
  return {"k": "obj", "mono": [draw(st.integers(0, 1)) for _ in range(dims)],
          "spell": draw(SPELL), "init_min": lo,
          "init_max": lo + draw(st.sampled_from([0.5, 1.0])),
          "seed": draw(st.sampled_from([None, 1, 42])),
          "defaults": draw(st.booleans())}


def make_kfl_init(spec):
  from tensorflow_lattice.python import kronecker_factored_lattice_layer as KL
  if spec["k"] == "id":
    return spec["id"]
  if spec["k"] == "keras":
    return make_keras_init(spec["spec"])
  if spec["defaults"]:
    return KL.KFLRandomMonotonicInitializer(
        monotonicities=mono_spell(spec["mono"], spec["spell"]))
  return KL.KFLRandomMonotonicInitializer(
      monotonicities=mono_spell(spec["mono"], spec["spell"]),
      init_min=spec["init_min"], init_max=spec["init_max"], seed=spec["seed"])


@st.composite
def kfl_layer_spec(draw, tier):
  cfg = draw(kfl_config(tier))
  return {"cfg": cfg, "mono": draw(SPELL),
          "init": draw(kfl_init_spec(cfg["dims"])),
          "scale_init": draw(st.sampled_from(
              [None, "scale_initializer", "ScaleInitializer", "obj", "ones"])),
          "name": draw(NAME)}


def make_kfl_layer(spec):
  _, tfl, _ = _tf()
  from tensorflow_lattice.python import kronecker_factored_lattice_layer as KL
  cfg = spec["cfg"]
  kw = dict(lattice_sizes=cfg["size"], units=cfg["units"],
            num_terms=cfg["terms"], output_min=cfg["omin"],
            output_max=cfg["omax"], clip_inputs=cfg["clip"])
  n_opt = sum(1 for v in (cfg["omin"], cfg["omax"]) if v is not None) + int(
      cfg["units"] > 1) + int(cfg["terms"] != 2) + int(not cfg["clip"])
  if any(cfg["mono"]) or spec["mono"] != "int":
    kw["monotonicities"] = mono_spell(cfg["mono"], spec["mono"])
    n_opt += 1
  if spec["init"] is not None:
    kw["kernel_initializer"] = make_kfl_init(spec["init"])
    n_opt += 1
  si = spec["scale_init"]
  if si is not None:
    kw["scale_initializer"] = KL.ScaleInitializer(-1.0, 3.0) if si == "obj" \
        else si
    n_opt += 1
  if spec["name"] is not None:
    kw["name"] = spec["name"]
  kw.update(_base_kw())
  return tfl.layers.KroneckerFactoredLattice(**kw), n_opt


def kfl_inputs(spec, rs):
  cfg = spec["cfg"]
  d, u = cfg["dims"], cfg["units"]
  res = []
  for b in (5, 3):
    shape = (b, d) if u == 1 else (b, u, d)
    x = rs.uniform(-0.6, cfg["size"] - 0.4, size=shape)
    x[0] = np.round(x[0])
    if not cfg["clip"]:
      x = np.clip(x, 0.0, cfg["size"] - 1.0)
    res.append(x.astype(np.float32))
  return res


REG["KroneckerFactoredLattice"] = Entry(
    "KroneckerFactoredLattice", "layer", kfl_layer_spec, make_kfl_layer, 2.0,
    inputs=kfl_inputs)


@st.composite
def kfl_initializer_spec(draw, tier):
  dims = draw(st.integers(1, 4))
  spec = draw(kfl_init_spec(dims, force="obj"))
  spec.update({"dims": dims, "size": draw(st.integers(2, 4)),
               "units": draw(st.integers(1, 3)),
               "terms": draw(st.integers(1, 3)), "aux": draw(S.seeds)})
  return spec


def kfl_init_call(obj, spec):
  import tensorflow as tf
  rs = np.random.RandomState(spec["aux"])
  scale = tf.constant(rs.choice([-1.0, 1.0, 0.5], size=(spec["units"],
                                                        spec["terms"])
                                ).astype(np.float32))
  return obj(shape=(1, spec["size"], spec["units"] * spec["dims"],
                    spec["terms"]), scale=scale, dtype=tf.float32)


REG["KFLRandomMonotonicInitializer"] = Entry(
    "KFLRandomMonotonicInitializer", "initializer", kfl_initializer_spec,
    lambda spec: (make_kfl_init(spec), 1 + 3 * int(not spec["defaults"])),
    call=kfl_init_call)


@st.composite
def bounds_pair_spec(draw, tier):
  bm = draw(st.sampled_from(["none", "min", "max", "both", "both"]))
  lo = draw(st.sampled_from([-10.0, -1.0, 0.0, 0.5]))
  return {"omin": lo if bm in ("min", "both") else None,
          "omax": lo + draw(st.sampled_from([0.5, 1.0, 100.0]))
                  if bm in ("max", "both") else None,
          "units": draw(st.integers(1, 3)), "terms": draw(st.integers(1, 4))}


def _make_pair(cls_name):
  def make(spec):
    from tensorflow_lattice.python import kronecker_factored_lattice_layer as KL
    return getattr(KL, cls_name)(output_min=spec["omin"],
                                 output_max=spec["omax"]), int(
                                     spec["omin"] is not None) + int(
                                         spec["omax"] is not None)
  return make


def _pair_init_call(bias):
  def call(obj, spec):
    import tensorflow as tf
    shape = (spec["units"],) if bias else (spec["units"], spec["terms"])
    return obj(shape=shape, dtype=tf.float32)
  return call


REG["ScaleInitializer"] = Entry(
    "ScaleInitializer", "initializer", bounds_pair_spec,
    _make_pair("ScaleInitializer"), 0.6, call=_pair_init_call(False))
REG["BiasInitializer"] = Entry(
    "BiasInitializer", "initializer", bounds_pair_spec,
    _make_pair("BiasInitializer"), 0.6, call=_pair_init_call(True))
REG["ScaleConstraints"] = Entry(
    "ScaleConstraints", "constraint", bounds_pair_spec,
    _make_pair("ScaleConstraints"), 0.6,
    tensor=lambda spec, rs: rand_like(rs, (spec["units"], spec["terms"]), 5.0))


@st.composite
def kfl_constraints_spec(draw, tier):
  cfg = draw(kfl_config(tier))
  return {"cfg": cfg, "mono": draw(SPELL),
          "scale_var": draw(st.booleans()), "aux": draw(S.seeds)}


def make_kfl_constraints(spec):
  import tensorflow as tf
  from tensorflow_lattice.python import kronecker_factored_lattice_layer as KL
  cfg = spec["cfg"]
  rs = np.random.RandomState(spec["aux"])
  scale = rs.choice([-2.0, -0.5, 0.5, 1.0], size=(cfg["units"], cfg["terms"])
                    ).astype(np.float32)
  scale = tf.Variable(scale) if spec["scale_var"] else tf.constant(scale)
  return KL.KroneckerFactoredLatticeConstraints(
      units=cfg["units"], scale=scale,
      monotonicities=mono_spell(cfg["mono"], spec["mono"]),
      output_min=cfg["omin"], output_max=cfg["omax"]), 1 + sum(
          1 for v in (cfg["omin"], cfg["omax"]) if v is not None)


REG["KroneckerFactoredLatticeConstraints"] = Entry(
    "KroneckerFactoredLatticeConstraints", "constraint", kfl_constraints_spec,
    make_kfl_constraints, 1.0,
    tensor=lambda spec, rs: rand_like(
        rs, (1, spec["cfg"]["size"], spec["cfg"]["units"] * spec["cfg"]["dims"],
             spec["cfg"]["terms"]), 2.0))


# ---------------------------------------------------------------- CDF
@st.composite
def cdf_spec(draw, tier):
  factor = draw(st.sampled_from([1, 1, 2, 3]))
  return {"nk": draw(st.integers(1, 5)),
          "units": factor * draw(st.integers(1, 2)),
          "input_dim": factor * draw(st.integers(1, 3)),
          "factor": factor,
          "activation": draw(st.sampled_from([None, "relu6", "sigmoid"])),
          "reduction": draw(st.sampled_from([None, "mean", "geometric_mean",
                                             "none"])),
          "scaling_init": draw(st.sampled_from([None, 0.5, 3, 10.0])),
          "scaling_type": draw(st.sampled_from(
              [None, "fixed", "learned_shared", "learned_per_input"])),
          "scaling_mono": draw(st.sampled_from(
              [None, "increasing", "none", 0, 1])),
          "init": draw(st.one_of(st.none(), KERAS_INIT)),
          "name": draw(NAME)}


def make_cdf(spec):
  _, tfl, _ = _tf()
  kw = {"num_keypoints": spec["nk"], "units": spec["units"],
        "sparsity_factor": spec["factor"]}
  n_opt = int(spec["units"] > 1) + int(spec["factor"] > 1)
  for key, arg in (("activation", "activation"), ("reduction", "reduction"),
                   ("scaling_init", "input_scaling_init"),
                   ("scaling_type", "input_scaling_type"),
                   ("scaling_mono", "input_scaling_monotonicity"),
                   ("name", "name")):
    if spec[key] is not None:
      kw[arg] = spec[key]
      n_opt += 1
  if spec["init"] is not None:
    kw["kernel_initializer"] = make_keras_init(spec["init"])
    n_opt += 1
  kw.update(_base_kw())
  return tfl.layers.CDF(**kw), n_opt


def cdf_inputs(spec, rs):
  return [rs.uniform(-0.5, 1.5, size=(b, spec["input_dim"])).astype(np.float32)
          for b in (5, 3)]


REG["CDF"] = Entry("CDF", "layer", cdf_spec, make_cdf, 1.5, inputs=cdf_inputs,
                   extra_public=True)


# ---------------------------------------------------------------- RTL
@st.composite
def rtl_spec(draw, tier):
  form = draw(st.sampled_from(["dict", "dict", "dict", "tensor"]))
  groups = {}
  if form == "tensor":
    groups["unconstrained"] = draw(st.integers(2, 5))
  else:
    keys = draw(st.sampled_from([["unconstrained"], ["increasing"],
                                 ["increasing", "unconstrained"],
                                 ["increasing", "unconstrained"]]))
    for k in keys:
      if draw(st.integers(0, 2)) == 0:
        groups[k] = draw(st.integers(1, 4))            # one dense tensor
      else:
        groups[k] = draw(st.lists(st.integers(1, 3), min_size=1, max_size=3))
  total = sum(v if isinstance(v, int) else sum(v) for v in groups.values())
  rank = draw(st.integers(1, min(3, total)))
  nl = draw(st.integers(1, 4))
  while nl * rank < total:
    nl += 1
  param = draw(st.sampled_from(["all_vertices", "all_vertices",
                                "kronecker_factored"]))
  kfl = param == "kronecker_factored"
  bm = draw(st.sampled_from(["none", "min", "max", "both", "both"]))
  lo = draw(st.sampled_from([-1.0, 0.0, 0.5]))
  reg_item = st.tuples(st.sampled_from(["torsion", "laplacian"]),
                       st.sampled_from([0.0, 1e-3, 0.5]),
                       st.sampled_from([0.0, 1e-2, 1.0])).map(list)
  reg = None
  if not kfl:
    reg = draw(st.one_of(
        st.none(),
        st.fixed_dictionaries({"single": reg_item,
                               "as": st.sampled_from(["tuple", "list"])}),
        st.fixed_dictionaries({"list": st.lists(reg_item, min_size=1,
                                                max_size=2),
                               "as": st.sampled_from(["tuple", "list"])})))
  init_range = draw(st.booleans())
  return {
      "form": form, "groups": groups, "rank": rank, "nl": nl,
      "size": draw(st.sampled_from([None, 2, 2, 3])),
      "omin": lo if bm in ("min", "both") else None,
      "omax": lo + draw(st.sampled_from([1.0, 4.0]))
              if bm in ("max", "both") else None,
      "init_min": 0.25 if init_range else None,
      "init_max": 0.75 if init_range else None,
      "separate": draw(st.sampled_from([None, False, True])),
      "seed": draw(st.sampled_from([None, 0, 1, 7, 123, 99999])),
      "iters": draw(st.sampled_from([None, 2])),
      "every_step": draw(st.sampled_from([None, False])),
      "clip": draw(st.sampled_from([None, False])),
      "interp": draw(st.sampled_from([None, "simplex"])),
      "param": None if (param == "all_vertices" and draw(st.booleans()))
               else param,
      "terms": draw(st.sampled_from([None, 1, 3])),
      "avoid": draw(st.sampled_from([None, False])),
      "init": "kfl_random_monotonic_initializer" if kfl else draw(
          st.sampled_from([None, "linear_initializer",
                           "random_monotonic_initializer"])),
      "reg": reg,
      "average": draw(st.sampled_from([None, False, True])),
      "name": draw(NAME)}


def make_rtl(spec):
  _, tfl, _ = _tf()
  kw = {"num_lattices": spec["nl"], "lattice_rank": spec["rank"]}
  n_opt = 0
  for key, arg in (("size", "lattice_size"), ("omin", "output_min"),
                   ("omax", "output_max"), ("init_min", "init_min"),
                   ("init_max", "init_max"), ("separate", "separate_outputs"),
                   ("seed", "random_seed"),
                   ("iters", "num_projection_iterations"),
                   ("every_step", "monotonic_at_every_step"),
                   ("clip", "clip_inputs"), ("interp", "interpolation"),
                   ("param", "parameterization"), ("terms", "num_terms"),
                   ("avoid", "avoid_intragroup_interaction"),
                   ("init", "kernel_initializer"),
                   ("average", "average_outputs"), ("name", "name")):
    if spec[key] is not None:
      kw[arg] = spec[key]
      n_opt += 1
  reg = spec["reg"]
  if reg is not None:
    conv = tuple if reg["as"] == "tuple" else list
    if "single" in reg:
      kw["kernel_regularizer"] = conv(reg["single"])
    else:
      kw["kernel_regularizer"] = [conv(r) for r in reg["list"]]
    n_opt += 1
  kw.update(_base_kw())
  return tfl.layers.RTL(**kw), n_opt


def rtl_inputs(spec, rs):
  size = spec["size"] or 2
  res = []
  for b in (5, 3):
    def t(width):
      v = rs.uniform(-0.3, size - 0.7, size=(b, width))
      if spec["clip"] is False:
        v = np.clip(v, 0.0, size - 1.0)
      return v.astype(np.float32)
    if spec["form"] == "tensor":
      res.append(t(spec["groups"]["unconstrained"]))
      continue
    x = {}
    for k in sorted(spec["groups"]):
      g = spec["groups"][k]
      x[k] = t(g) if isinstance(g, int) else [t(w) for w in g]
    res.append(x)
  return res


def rtl_after_build(out, sig):
  def check(a, b):
    out.checks += 1
    sa, sb = norm(a._rtl_structure), norm(b._rtl_structure)  # pylint: disable=protected-access
    if deep_diff(sa, sb):
      out.violate("rebuilt RTL derives a different lattice structure from its "
                  "random_seed: %s vs %s" % (sa, sb), kind="rtl-structure",
                  **sig)
      return False
    return True
  return check


REG["RTL"] = Entry("RTL", "layer", rtl_spec, make_rtl, 3.0, inputs=rtl_inputs,
                   after_build=rtl_after_build)


# ---------------------------------------------------------------- combination
@st.composite
def parallel_spec(draw, tier):
  n = draw(st.integers(1, 4))
  subs = []
  for _ in range(n):
    kind = draw(st.sampled_from(["pwl", "pwl", "cat", "linear", "cdf_rare"]))
    if kind == "cdf_rare" and draw(st.integers(0, 3)) > 0:
      kind = "pwl"
    if kind == "pwl":
      s = draw(pwl_layer_spec(tier))
      s["cfg"]["units"] = 1
      s["split"] = None
      if s["missing"] == "pair":
        s["missing"], s["missing_in"] = "value", -1000.0
      s["name"] = None
      subs.append({"kind": "pwl", "spec": s})
    elif kind == "cat":
      s = draw(categorical_layer_spec(tier))
      s["cfg"]["units"] = 1
      s["split"], s["name"] = None, None
      subs.append({"kind": "cat", "spec": s})
    elif kind == "linear":
      subs.append({"kind": "linear", "mono": draw(st.sampled_from([0, 1, -1]))})
    else:
      subs.append({"kind": "cdf", "nk": draw(st.integers(1, 4))})
  return {"subs": subs, "single_output": draw(st.sampled_from([None, True,
                                                               False])),
          "ctor": draw(st.sampled_from(["list", "append"])),
          "list_input": draw(st.booleans()), "name": draw(NAME)}


def make_parallel(spec):
  _, tfl, _ = _tf()
  layers = []
  for s in spec["subs"]:
    if s["kind"] == "pwl":
      layers.append(make_pwl_layer(s["spec"])[0])
    elif s["kind"] == "cat":
      layers.append(make_categorical_layer(s["spec"])[0])
    elif s["kind"] == "linear":
      layers.append(tfl.layers.Linear(num_input_dims=1,
                                      monotonicities=[s["mono"]],
                                      **_base_kw()))
    else:
      layers.append(tfl.layers.CDF(num_keypoints=s["nk"], units=1,
                                   **_base_kw()))
  kw = {}
  if spec["single_output"] is not None:
    kw["single_output"] = spec["single_output"]
  if spec["name"] is not None:
    kw["name"] = spec["name"]
  kw.update(_base_kw())
  if spec["ctor"] == "list":
    comb = tfl.layers.ParallelCombination(layers, **kw)
  else:
    comb = tfl.layers.ParallelCombination(**kw)
    for l in layers:
      comb.append(l)
  return comb, 1 + len(kw)


def parallel_inputs(spec, rs):
  res = []
  for b in (5, 3):
    cols = []
    for s in spec["subs"]:
      if s["kind"] == "pwl":
        one = dict(s["spec"], wide_input=False)
        cols.append(pwl_inputs(one, rs)[0][:b])
      elif s["kind"] == "cat":
        one = dict(s["spec"], wide_input=False, int_input=False)
        cols.append(categorical_inputs(one, rs)[0][:b])
      else:
        cols.append(rs.uniform(-1, 2, size=(b, 1)).astype(np.float32))
    if spec["list_input"]:
      res.append(cols)
    else:
      res.append(np.concatenate(cols, axis=1).astype(np.float32))
  return res


REG["ParallelCombination"] = Entry(
    "ParallelCombination", "layer", parallel_spec, make_parallel, 2.0,
    inputs=parallel_inputs)


@st.composite
def aggregation_spec(draw, tier):
  inner = draw(st.sampled_from(["premade", "premade", "premade", "linear",
                                "lattice", "pwl_linear", "sequential"]))
  spec = {"dims": draw(st.integers(1, 3)), "inner": inner,
          "mono": draw(st.sampled_from([0, 1])), "name": draw(NAME)}
  if inner == "premade":
    desc = draw(M.model_desc(tier, kinds=["lattice"]))
    desc["features"] = desc["features"][:2]
    desc["trust"] = desc["dominance"] = None
    spec["desc_inner"] = desc
  return spec


def make_aggregation(spec):
  _, tfl, keras = _tf()
  d = spec["dims"]
  kw = {} if spec["name"] is None else {"name": spec["name"]}
  if spec["inner"] == "premade":
    # as premade.AggregateFunction does: a registered CalibratedLattice model
    # (built under the seed run_object has just set, like the rebuilt one)
    model = tfl.premade.CalibratedLattice(M.model_config(spec["desc_inner"]))
    return tfl.layers.Aggregation(model, **kw), 1 + len(kw)
  if spec["inner"] == "sequential":
    model = keras.Sequential([
        keras.layers.InputLayer(input_shape=(d,)),
        tfl.layers.Linear(num_input_dims=d, monotonicities=[spec["mono"]] * d)])
    return tfl.layers.Aggregation(model, **kw), 1 + len(kw)
  inp = keras.layers.Input(shape=(d,))
  if spec["inner"] == "linear":
    y = tfl.layers.Linear(num_input_dims=d, monotonicities=[spec["mono"]] * d,
                          input_min=[0.0] * d, input_max=[1.0] * d)(inp)
  elif spec["inner"] == "lattice":
    y = tfl.layers.Lattice(lattice_sizes=[2] * d,
                           monotonicities=[spec["mono"]] * d, output_min=0.0,
                           output_max=1.0,
                           kernel_initializer="random_monotonic_initializer")(
                               inp)
  else:
    comb = tfl.layers.ParallelCombination([
        tfl.layers.PWLCalibration(input_keypoints=[0.0, 0.5, 1.0],
                                  monotonicity=spec["mono"], output_min=0.0,
                                  output_max=1.0) for _ in range(d)])
    y = tfl.layers.Linear(num_input_dims=d, normalization_order=1,
                          monotonicities=[1] * d)(comb(inp))
  model = keras.Model(inputs=inp, outputs=y)
  return tfl.layers.Aggregation(model, **kw), 1 + len(kw)


def aggregation_inputs(spec, rs):
  import tensorflow as tf
  if spec["inner"] == "premade":
    return aggregate_inputs({"desc": spec["desc_inner"]}, rs)
  res = []
  for b in (4, 3):
    lens = rs.randint(1, 4, size=b)
    vals = rs.uniform(-0.2, 1.2, size=(int(lens.sum()), spec["dims"])
                      ).astype(np.float32)
    res.append(tf.RaggedTensor.from_row_lengths(vals, lens))
  return res


REG["Aggregation"] = Entry("Aggregation", "layer", aggregation_spec,
                           make_aggregation, 1.0, inputs=aggregation_inputs,
                           project=True)


# ---------------------------------------------------------------- configs
REG_NAMES = ["calib_laplacian", "calib_hessian", "calib_wrinkle", "laplacian",
             "torsion", "output_calib_hessian", "output_calib_wrinkle"]


@st.composite
def regularizer_config_spec(draw, tier=None, names=None):
  spec = {"name": draw(st.sampled_from(names or REG_NAMES))}
  how = draw(st.integers(0, 3))
  if how != 0:
    spec["l1"] = draw(AMOUNT)
  if how != 1:
    spec["l2"] = draw(AMOUNT)
  return spec


def make_regularizer_config(spec):
  _, tfl, _ = _tf()
  return tfl.configs.RegularizerConfig(**spec), len(spec) - 1


@st.composite
def trust_config_spec(draw, tier=None):
  spec = {"feature_name": draw(st.sampled_from(["f0", "f1", "rating"]))}
  if draw(st.booleans()):
    spec["trust_type"] = draw(st.sampled_from(["edgeworth", "trapezoid"]))
  if draw(st.booleans()):
    spec["direction"] = draw(st.sampled_from(["positive", "negative", 1, -1]))
  return spec


def make_trust_config(spec):
  _, tfl, _ = _tf()
  return tfl.configs.TrustConfig(**spec), len(spec) - 1


@st.composite
def dominance_config_spec(draw, tier=None):
  spec = {"feature_name": draw(st.sampled_from(["f0", "f1", "clicks"]))}
  if draw(st.booleans()):
    spec["dominance_type"] = "monotonic"
  return spec


def make_dominance_config(spec):
  _, tfl, _ = _tf()
  return tfl.configs.DominanceConfig(**spec), len(spec) - 1


STANDALONE_NUMERIC_FIELDS = ["unimodality", "pwl_calibration_always_monotonic",
                             "pwl_calibration_clip_min",
                             "pwl_calibration_clip_max", "is_missing_name"]


@st.composite
def feature_config_spec(draw, tier=None):
  spec = {"name": draw(st.sampled_from(["f0", "age", "thal"]))}

  def opt(key, strat, p=2):
    if draw(st.integers(0, p)) == 0:
      spec[key] = draw(strat)

  categorical = draw(st.integers(0, 2)) == 0
  opt("is_missing_name", st.sampled_from(["f0_missing", None]))
  opt("default_value", st.sampled_from([-1, -1.0, 0.0, None]))
  opt("lattice_size", st.integers(2, 5))
  if categorical:
    nb = draw(st.integers(2, 5))
    spec["num_buckets"] = nb
    opt("vocabulary_list", st.just(["v%d" % i for i in range(nb)]))
    if "vocabulary_list" in spec:
      opt("monotonicity", st.just([["v0", "v1"]]), 1)
    else:
      opt("monotonicity", S.dag_pairs(nb, max_edges=3).map(
          lambda ps: [tuple(p) for p in ps] or "none"), 1)
  else:
    opt("monotonicity", st.sampled_from(["increasing", "decreasing", "none", 1,
                                         -1, 0]), 1)
    opt("unimodality", st.sampled_from(["valley", "peak", "none", 1, -1, 0]))
    opt("pwl_calibration_always_monotonic", st.booleans())
    opt("pwl_calibration_convexity", st.sampled_from(["convex", "concave", 1,
                                                      -1, 0]))
    opt("pwl_calibration_num_keypoints", st.integers(2, 20))
    opt("pwl_calibration_input_keypoints", st.one_of(
        st.sampled_from(["quantiles", "uniform"]), S.pwl_keypoints(max_k=6),
        S.pwl_keypoints(max_k=6).map(lambda k: {"ndarray": k})), 1)
    opt("pwl_calibration_input_keypoints_type",
        st.sampled_from(["fixed", "learned_interior"]))
    opt("pwl_calibration_clip_min", st.sampled_from([-1.0, 0.0]))
    opt("pwl_calibration_clip_max", st.sampled_from([1.0, 100.0]))
    opt("pwl_calibration_clamp_min", st.booleans())
    opt("pwl_calibration_clamp_max", st.booleans())
  # fields that no premade model of this module exercises (only this
  # stand-alone round trip sees them): one of them is always non-default
  forced = draw(_spread(["is_missing_name", "vocabulary_list"] if categorical
                        else STANDALONE_NUMERIC_FIELDS, "fc-field"))
  if forced == "is_missing_name":
    spec[forced] = "f0_missing"
  elif forced == "vocabulary_list":
    spec[forced] = ["v%d" % i for i in range(spec["num_buckets"])]
    if isinstance(spec.get("monotonicity"), list):
      spec["monotonicity"] = [["v0", "v1"]]
  elif forced == "unimodality":
    spec[forced] = draw(st.sampled_from(["valley", "peak", 1, -1]))
    spec.pop("monotonicity", None)
  elif forced == "pwl_calibration_always_monotonic":
    spec[forced] = True
  elif forced == "pwl_calibration_clip_min":
    spec[forced] = draw(st.sampled_from([-1.0, 0.0]))
  elif forced == "pwl_calibration_clip_max":
    spec[forced] = draw(st.sampled_from([1.0, 100.0]))
  opt("reflects_trust_in", st.lists(trust_config_spec(), min_size=0,
                                    max_size=2))
  opt("dominates", st.lists(dominance_config_spec(), min_size=0, max_size=2))
  opt("regularizer_configs", st.lists(regularizer_config_spec(), min_size=0,
                                      max_size=3))
  return spec


def make_feature_config(spec):
  _, tfl, _ = _tf()
  kw = dict(spec)
  if isinstance(kw.get("pwl_calibration_input_keypoints"), dict):
    kw["pwl_calibration_input_keypoints"] = np.asarray(
        kw["pwl_calibration_input_keypoints"]["ndarray"])
  if "reflects_trust_in" in kw:
    kw["reflects_trust_in"] = [make_trust_config(s)[0]
                               for s in kw["reflects_trust_in"]]
  if "dominates" in kw:
    kw["dominates"] = [make_dominance_config(s)[0] for s in kw["dominates"]]
  if "regularizer_configs" in kw:
    kw["regularizer_configs"] = [make_regularizer_config(s)[0]
                                 for s in kw["regularizer_configs"]]
  return tfl.configs.FeatureConfig(**kw), len(spec) - 1


REG["RegularizerConfig"] = Entry("RegularizerConfig", "config",
                                 regularizer_config_spec,
                                 make_regularizer_config, 0.5)
REG["TrustConfig"] = Entry("TrustConfig", "config", trust_config_spec,
                           make_trust_config, 0.5)
REG["DominanceConfig"] = Entry("DominanceConfig", "config",
                               dominance_config_spec, make_dominance_config,
                               0.4)
REG["FeatureConfig"] = Entry("FeatureConfig", "config", feature_config_spec,
                             make_feature_config, 3.0)


# ---------------------------------------------------------------- models
MODEL_KINDS = {
    "CalibratedLinear": ["linear"],
    "CalibratedLattice": ["lattice"],
    "CalibratedLatticeEnsemble": ["ensemble_explicit", "ensemble_random",
                                  "ensemble_rtl"],
}


def model_spec(kinds):
  @st.composite
  def strat(draw, tier):
    desc = draw(M.model_desc(tier, kinds=kinds))
    names = ["calib_laplacian", "calib_hessian", "calib_wrinkle"]
    if desc["parameterization"] == "all_vertices":
      names += ["output_calib_hessian"]
      if desc["kind"] != "linear":
        names += ["laplacian", "torsion"]
    return {"desc": desc,
            "regs": draw(st.lists(regularizer_config_spec(names=names),
                                  min_size=0, max_size=2)),
            "feat_regs": draw(st.lists(regularizer_config_spec(
                names=["calib_laplacian", "calib_hessian", "calib_wrinkle"]),
                                       min_size=0, max_size=1)),
            "name": draw(NAME)}
  return strat


def build_model_config(spec):
  desc = spec["desc"]
  cfg = M.model_config(desc)
  if spec["regs"]:
    cfg.regularizer_configs = [make_regularizer_config(s)[0]
                               for s in spec["regs"]]
  if spec["feat_regs"]:
    for i, fc in enumerate(cfg.feature_configs):
      if i % 2 == 0 and not fc.num_buckets:
        fc.regularizer_configs = [make_regularizer_config(s)[0]
                                  for s in spec["feat_regs"]]
  return cfg


def premade_cls(cfg):
  _, tfl, _ = _tf()
  return {"CalibratedLinearConfig": tfl.premade.CalibratedLinear,
          "CalibratedLatticeConfig": tfl.premade.CalibratedLattice,
          "CalibratedLatticeEnsembleConfig":
              tfl.premade.CalibratedLatticeEnsemble,
          "AggregateFunctionConfig": tfl.premade.AggregateFunction}[
              type(cfg).__name__]


def build_premade(cfg, seed, name=None):
  _seed(seed)
  kw = {} if name is None else {"name": name}
  kw.update(_base_kw())
  return premade_cls(cfg)(cfg, **kw)


def make_model_config(spec):
  desc = spec["desc"]
  return build_model_config(spec), 3 + len(spec["regs"]) + int(
      desc["omin"] is not None) + int(desc["output_calibration"])


def make_model(spec):
  cfg, n = make_model_config(spec)
  return build_premade(cfg, spec["desc"]["seed"], spec["name"]), n


def model_inputs(spec, rs):
  desc = spec["desc"]
  xs = [M.base_points(desc, 12, int(rs.randint(1 << 30))), C03._probe_plan(  # pylint: disable=protected-access
      desc, desc["seed"])[2][:12]]
  return [M.model_inputs(desc, x) for x in xs]


for _name, _kinds in MODEL_KINDS.items():
  REG[_name] = Entry(_name, "model", model_spec(_kinds), make_model, 0.45,
                     inputs=model_inputs)
  REG[_name + "Config"] = Entry(_name + "Config", "modelcfg",
                                model_spec(_kinds), make_model_config, 0.45,
                                inputs=model_inputs)


@st.composite
def aggregate_spec(draw, tier):
  desc = draw(M.model_desc(tier, kinds=["lattice"]))
  desc["parameterization"] = "all_vertices"
  mc = draw(st.booleans())
  return {"desc": desc,
          "regs": draw(st.lists(regularizer_config_spec(
              names=["calib_hessian", "calib_laplacian", "torsion",
                     "laplacian"]), min_size=0, max_size=2)),
          "feat_regs": [],
          "middle_dimension": draw(st.sampled_from([None, 1, 2, 3])),
          "middle_lattice_size": draw(st.sampled_from([None, 2, 3])),
          "middle_calibration": mc,
          "middle_calibration_num_keypoints": draw(st.sampled_from(
              [None, 2, 5])),
          "middle_calibration_input_keypoints_type": draw(st.sampled_from(
              [None, "fixed", "learned_interior"])),
          # None is the default but PWLCalibration rejects it (reported aside)
          "middle_monotonicity": draw(st.sampled_from(
              ["increasing", 1, "none", 0])) if mc else None,
          # without middle calibration the middle lattice (clip_inputs=False)
          # gets inputs in [-1, 1]: simplex interpolation crashes on negatives
          "middle_lattice_interpolation": draw(st.sampled_from(
              [None, "hypercube", "simplex"] if mc else [None, "hypercube"])),
          "aggregation_lattice_interpolation": draw(st.sampled_from(
              [None, "hypercube", "simplex"])),
          "name": draw(NAME)}


def make_aggregate_config(spec):
  _, tfl, _ = _tf()
  desc = spec["desc"]
  kw = dict(feature_configs=M._feature_configs(desc),  # pylint: disable=protected-access
            output_min=desc["omin"], output_max=desc["omax"],
            output_calibration=desc["output_calibration"],
            output_calibration_num_keypoints=len(desc["output_init"]),
            output_initialization=list(desc["output_init"]),
            output_calibration_input_keypoints_type=desc["output_kp_type"])
  n_opt = 2
  for key in ("middle_dimension", "middle_lattice_size",
              "middle_calibration_num_keypoints",
              "middle_calibration_input_keypoints_type", "middle_monotonicity",
              "middle_lattice_interpolation",
              "aggregation_lattice_interpolation"):
    if spec[key] is not None:
      kw[key] = spec[key]
      n_opt += 1
  if spec["middle_calibration"]:
    kw["middle_calibration"] = True
  if spec["regs"]:
    kw["regularizer_configs"] = [make_regularizer_config(s)[0]
                                 for s in spec["regs"]]
  return tfl.configs.AggregateFunctionConfig(**kw), n_opt


def make_aggregate_model(spec):
  cfg, n = make_aggregate_config(spec)
  return build_premade(cfg, spec["desc"]["seed"], spec["name"]), n


def aggregate_inputs(spec, rs):
  import tensorflow as tf
  desc = spec["desc"]
  res = []
  for b in (4, 3):
    lens = rs.randint(1, 4, size=b)
    x = M.base_points(desc, int(lens.sum()), int(rs.randint(1 << 30)))
    cols = []
    for j, f in enumerate(desc["features"]):
      v = x[:, j].astype(np.int32 if f["type"] == "categorical" else
                         np.float32)
      cols.append(tf.RaggedTensor.from_row_lengths(v, lens))
    res.append(cols)
  return res


REG["AggregateFunction"] = Entry("AggregateFunction", "model", aggregate_spec,
                                 make_aggregate_model, 0.45,
                                 inputs=aggregate_inputs)
REG["AggregateFunctionConfig"] = Entry(
    "AggregateFunctionConfig", "modelcfg", aggregate_spec,
    make_aggregate_config, 0.45, inputs=aggregate_inputs)

EXTRA_PUBLIC = sorted(n for n, e in REG.items() if e.extra.get("extra_public"))


# ===========================================================================
# half A driver
def _mentions_cdf(x):
  if isinstance(x, dict):
    return x.get("class_name") == "CDF" or any(_mentions_cdf(v)
                                               for v in x.values())
  if isinstance(x, list):
    return any(_mentions_cdf(v) for v in x)
  return False


def spec_labels(name, spec):
  """Quantifier classes present in one generated argument set."""
  labs = []
  sp = spec.get("sp") if isinstance(spec, dict) else None
  if sp and sp.get("single") and any(
      len(spec["cfg"][k]) == 1 for k in ("ew", "tz", "mdom", "rdom", "jmono",
                                         "junimod")):
    labs.append("arg:single-tuple-trust-or-dominance")
  text = repr(spec)
  if "'tuple': [" in text or ("'l1': [" in text or "'l2': [" in text):
    labs.append("arg:per-dimension-amounts")
  if isinstance(spec, dict):
    if spec.get("missing_out") is not None:
      labs.append("arg:missing-output-value")
    if spec.get("missing") == "pair":
      labs.append("arg:is-missing-tensor")
    if spec.get("missing") == "value":
      labs.append("arg:missing-input-value")
    reg = spec.get("reg") or spec.get("kreg")
    if isinstance(reg, dict):
      items = [reg["single"]] if "single" in reg else reg["list"]
      labs.append("arg:regularizer-%s" % ("single" if "single" in reg
                                          else "list"))
      for it in items:
        if isinstance(it, dict):
          labs.append("arg:regularizer-as-%s" % it.get("k", "keras"))
    init = spec.get("init")
    if isinstance(init, dict):
      labs.append("arg:initializer-%s" % (
          "id" if init.get("k") in ("id", "equal_heights", "equal_slopes",
                                    "uniform", "constant") else "object"))
    for key in ("mono", "mono_str", "conv_str"):
      if spec.get(key) in ("str", "mixed", True):
        labs.append("arg:string-spelling")
        break
    if spec.get("kp_spell") == "ndarray":
      labs.append("arg:numpy-keypoints")
    if spec.get("kp_type") == "learned_interior":
      labs.append("arg:learned-interior-keypoints")
    if name == "RTL":
      labs.append("rtl:%s" % (spec["param"] or "all_vertices"))
      labs.append("rtl:seed-%s" % ("default" if spec["seed"] is None
                                   else "given"))
    if name == "FeatureConfig":
      defaults = {"unimodality": ("none", 0), "is_missing_name": (None,),
                  "pwl_calibration_always_monotonic": (False,),
                  "pwl_calibration_clip_min": (None,),
                  "pwl_calibration_clip_max": (None,),
                  "vocabulary_list": (None,)}
      for key in sorted(defaults):
        if key in spec and spec[key] not in defaults[key]:
          labs.append("feature-config-field:" + key)
    if "desc" in spec:
      labs.append("model:" + spec["desc"]["kind"])
      labs.append("param:" + spec["desc"]["parameterization"])
  return labs


_REGISTRY_OK = []


def _extra_public_classes():
  from tensorflow_lattice.python import cdf_layer as CDFL
  from tensorflow_lattice.python import pwl_calibration_layer as PL
  return {"CDF": CDFL.CDF, "PWLLaplacianRegularizer": PL.LaplacianRegularizer,
          "PWLHessianRegularizer": PL.HessianRegularizer,
          "PWLWrinkleRegularizer": PL.WrinkleRegularizer,
          "UniformOutputInitializer": PL.UniformOutputInitializer}


def check_registry():
  """Every registered custom object and every public class with get_config in
  the layer / config / premade modules must have a generator here."""
  import importlib
  import inspect
  _, tfl, _ = _tf()
  registry = tfl.premade.get_custom_objects()
  if _REGISTRY_OK:
    return registry
  missing = sorted(n for n in registry if n not in REG)
  extras = _extra_public_classes()
  missing += sorted(n for n in extras if n not in REG)
  if sorted(extras) != EXTRA_PUBLIC:
    raise HarnessError("extra public classes out of sync: %s vs %s" % (
        sorted(extras), EXTRA_PUBLIC))
  covered = set(registry.values()) | set(extras.values())
  for mod in ("aggregation_layer", "categorical_calibration_layer",
              "cdf_layer", "configs", "kronecker_factored_lattice_layer",
              "lattice_layer", "linear_layer", "parallel_combination_layer",
              "premade", "pwl_calibration_layer", "rtl_layer"):
    m = importlib.import_module("tensorflow_lattice.python." + mod)
    for cname, c in inspect.getmembers(m, inspect.isclass):
      if (c.__module__ == m.__name__ and not cname.startswith("_") and
          callable(getattr(c, "get_config", None)) and c not in covered):
        missing.append("%s.%s" % (mod, cname))
  if missing:
    raise HarnessError("C11 has no generator for the public classes %s; add "
                       "one to props/c11.py" % missing)
  _REGISTRY_OK.append(True)
  return registry


def _rebuild(cls, cfg, cfg_in, cfg_norm, build_seed, how, name, spec, obj,
             out, sig):
  """cls.from_config(cfg_in) + type and config equality; None on violation."""
  tf, tfl, keras = _tf()
  sig = dict(sig) if how == "memory" else dict(sig, via=how)
  # objects that create their weights while being constructed (models) are
  # rebuilt under the seed the original was constructed with
  _seed(build_seed)
  try:
    with _scope():
      rebuilt = cls.from_config(copy_structure(cfg_in))
  except Exception as e:  # pylint: disable=broad-except
    out.checks += 1
    if _mentions_cdf(cfg_norm):
      try:
        with _scope():
          with keras.utils.custom_object_scope({"CDF": tfl.layers.CDF}):
            cls.from_config(copy_structure(cfg_in))
        out.violate("%s containing a CDF layer cannot be rebuilt from its "
                    "config with get_custom_objects() (%s: %s); works once CDF "
                    "is added to the scope" % (name, type(e).__name__,
                                               str(e)[:120]),
                    kind="cdf-not-reloadable", format="from_config")
        return None
      except Exception:  # pylint: disable=broad-except
        pass
    if name == "Aggregation" and spec["inner"] != "premade":
      try:
        with _scope():
          with keras.utils.custom_object_scope(
              {"Functional": keras.Model, "Sequential": keras.Sequential}):
            cls.from_config(copy_structure(cfg_in))
        out.violate("Aggregation around a plain keras %s model cannot be "
                    "rebuilt from its config (%s: %s); works once the keras "
                    "model class is added to the custom objects" % (
                        type(obj.model).__name__, type(e).__name__,
                        str(e)[:100]),
                    kind="aggregation-plain-model-not-deserialisable",
                    inner=type(obj.model).__name__)
        return None
      except Exception:  # pylint: disable=broad-except
        pass
    out.violate("%s.from_config(%s) failed: %s: %s" % (
        name, "get_config()" if how == "memory" else
        "JSON-encoded get_config()", type(e).__name__, str(e)[:300]),
                kind="from_config", exc=type(e).__name__, **sig)
    return None
  out.checks += 2
  if type(rebuilt) is not cls:
    out.violate("from_config returned a %s" % type(rebuilt).__name__,
                kind="from_config-type", **sig)
    return None
  try:
    cfg2 = rebuilt.get_config()
  except Exception as e:  # pylint: disable=broad-except
    out.violate("get_config() of the rebuilt %s fails: %s: %s" % (
        name, type(e).__name__, str(e)[:200]), kind="rebuilt-get_config",
                exc=type(e).__name__, **sig)
    return None
  d = deep_diff(cfg_norm, norm(cfg2))
  if d:
    out.violate("config of %s rebuilt %s differs at %s" % (
        name, "from its config" if how == "memory" else
        "from its JSON-encoded config", d),
                kind="config", key=d.split("/")[1].split("(")[0], **sig)
    return None
  return rebuilt


def run_object(case, out):
  tf, tfl, keras = _tf()
  registry = check_registry()
  name, spec = case["cls"], case["args"]
  entry = REG[name]
  out.label("half:A-object", "cls:" + name, "kind:" + entry.kind)
  out.label(*spec_labels(name, spec))
  rs = np.random.RandomState(case["aux"])
  sig = {"cls": name}
  _seed(case["seed"])
  dtype = case.get("dtype")
  if dtype is not None and not (
      GEN_FLOAT64_PREMADE if entry.kind in ("model", "modelcfg") else
      GEN_FLOAT64_LAYERS):
    dtype = None
  if dtype is not None and not GEN_FLOAT64_CDF and (
      name == "CDF" or (name == "ParallelCombination" and any(
          sub["kind"] == "cdf" for sub in spec["subs"]))):
    dtype = None
  if dtype is not None and _cdf_with_keras_nonneg(name, spec):
    # tf_keras' NonNeg constraint multiplies the weight with a floatx()
    # (float32) mask and cannot be applied to a float64 variable at all: a
    # Keras limitation, not a behaviour of tensorflow_lattice.  CDF layers whose
    # learned scaling carries that constraint stay float32.
    dtype = None
    out.label("dtype:float64-not-used(keras NonNeg on learned CDF scaling)")
  if (dtype is not None and not GEN_FLOAT64_LATTICE_REGULARIZER_LISTS and
      name in ("Lattice", "RTL") and isinstance(spec.get("reg"), dict) and
      len(spec["reg"].get("list") or []) >= 2):
    dtype = None
  _CTX["dtype"] = dtype
  try:
    _run_object(case, out, entry, registry, name, spec, rs, sig)
  finally:
    _CTX["dtype"] = None


# candidate defect C11-4 (see the widening report): a PWLCalibration layer
# constructed with a numpy array of input_keypoints (the documented
# np.linspace usage) keeps the array in get_config(); a model containing it
# saves to a .keras file but cannot be loaded back (from_config receives the
# {"class_name": "__numpy__"} dict).  While False, such layers go through the
# HDF5 format instead of .keras in the wrapped-model step.
GEN_KERAS_FILE_NUMPY_KEYPOINTS = True


def _numpy_keypoints(name, spec):
  if name == "PWLCalibration":
    return spec.get("kp_spell") == "ndarray"
  if name == "ParallelCombination":
    return any(sub["kind"] == "pwl" and sub["spec"].get("kp_spell") == "ndarray"
               for sub in spec["subs"])
  return False


def _cast_inputs(inputs):
  """A float64 layer is fed float64 inputs (Linear's input_spec requires it)."""
  import tensorflow as tf
  if _CTX["dtype"] is None:
    return inputs
  return tf.nest.map_structure(
      lambda a: a.astype(_CTX["dtype"]) if (isinstance(a, np.ndarray) and
                                            a.dtype == np.float32) else a,
      inputs)


def _random_ensemble_probe(desc, aux, out, sig):
  """A random lattice ensemble is a function of its config (random_seed)
  alone: two equal configs materialised by set_random_lattice_ensemble, with
  the global numpy stream somewhere else in between, get the same lattices."""
  _, tfl, _ = _tf()
  nf = len(desc["features"])
  rank = desc.get("lattice_rank") or min(2, nf)
  nl = desc.get("num_lattices") or 2
  while nl * rank < nf:
    nl += 1
  got = []
  for k in range(2):
    cfg = tfl.configs.CalibratedLatticeEnsembleConfig(
        feature_configs=M._feature_configs(desc),  # pylint: disable=protected-access
        lattices="random", num_lattices=nl, lattice_rank=rank,
        random_seed=desc["seed"])
    np.random.seed((aux + 7 * k) % (2**32 - 1))
    tfl.premade_lib.set_random_lattice_ensemble(cfg)
    got.append(norm(cfg.lattices))
  out.checks += 1
  out.label("random-ensemble:materialised-twice")
  if deep_diff(got[0], got[1]):
    out.violate("set_random_lattice_ensemble gives different lattices for two "
                "equal configs (random_seed=%s): %s vs %s" % (
                    desc["seed"], got[0], got[1]),
                kind="random-ensemble-structure", **sig)
    return False
  return True


def _run_object(case, out, entry, registry, name, spec, rs, sig):
  tf, tfl, keras = _tf()
  if _CTX["dtype"] is not None:
    out.label("dtype:" + _CTX["dtype"])
  obj, n_opt = entry.make(spec)
  cls = type(obj)
  if name in registry and registry[name] is not cls:
    raise HarnessError("generator for %s built a %s" % (name, cls))
  out.nontrivial = n_opt >= 1
  out.info["optional_args"] = n_opt
  if isinstance(spec, dict) and "desc" in spec:
    if not _random_ensemble_probe(spec["desc"], case["aux"], out, sig):
      return
  cfg = obj.get_config()
  cfg_norm = norm(cfg)
  kind = entry.kind
  via = case.get("via", "memory")
  heavy = kind in ("model", "modelcfg")
  build_seed = (spec["desc"]["seed"] if isinstance(spec, dict) and "desc" in spec
                else case["seed"])
  rebuilt = None
  # two rebuilds: from the in-memory config and from the config as it comes
  # back from a JSON file (what Model.to_json / the HDF5 writer store); both
  # are compared on config and attributes, the one named by case["via"] also
  # functionally (premade models are only rebuilt that one way: cost).
  if kind == "constraint":
    # constraint objects hold live tensors / variables / enums and are never
    # written into a model's config (the layers re-create them in build())
    via = "memory"
  out.label("roundtrip:" + via)
  for how in ("memory", "json"):
    if (heavy and how != via) or (kind == "constraint" and how == "json"):
      continue
    if how == "json":
      out.checks += 1
      try:
        cfg_in = json_trip(cfg)
      except (TypeError, ValueError) as e:
        out.violate("get_config() of %s cannot be written to JSON as "
                    "Model.to_json() / model.save() do: %s" % (
                        name, str(e)[:200]), kind="config-not-json", **sig)
        return
    else:
      cfg_in = copy_structure(cfg)
    one = _rebuild(cls, cfg, cfg_in, cfg_norm, build_seed, how, name, spec, obj,
                   out, sig)
    if one is None:
      return
    if not compare_attrs(obj, one, name, "from its config" if how == "memory"
                         else "from its JSON-encoded config", out,
                         dict(sig, via=how)):
      return
    if how == via:
      rebuilt = one
  kind = entry.kind
  if kind == "config":
    return
  if kind in ("layer", "model"):
    ab = entry.extra.get("after_build")
    inputs = _cast_inputs(entry.extra["inputs"](spec, rs))
    same = compare_layers(obj, rebuilt, inputs, case, out,
                          sig, after_build=ab(out, sig) if ab else None,
                          project=kind == "model" or entry.extra.get("project"))
    if same and kind == "layer" and case.get("wrap"):
      fmt = case["wrap"]
      if (fmt == "keras" and not GEN_KERAS_FILE_NUMPY_KEYPOINTS and
          _numpy_keypoints(name, spec)):
        fmt = "h5"
      run_wrapped(obj, inputs, fmt, name, out)
  elif kind == "modelcfg":
    seed = spec["desc"]["seed"]
    ma = build_premade(obj, seed, spec["name"])
    mb = build_premade(rebuilt, seed, spec["name"])
    compare_layers(ma, mb, _cast_inputs(entry.extra["inputs"](spec, rs)), case,
                   out, sig, project=True)
  elif kind in ("constraint", "regularizer"):
    t = entry.extra["tensor"](spec, rs)
    what = "constraint-result" if kind == "constraint" else "regularizer-value"
    compare_tensor_fn(lambda: obj(tf.constant(t)),
                      lambda: rebuilt(tf.constant(t)), what, out, sig)
    if not np.any(t):
      out.nontrivial = False
  elif kind == "initializer":
    call = entry.extra["call"]

    def run(o):
      _seed(case["seed"])
      return call(o, spec)
    compare_tensor_fn(lambda: run(obj), lambda: run(rebuilt),
                      "initializer-tensor", out, sig)
  else:
    raise HarnessError("unknown kind %s" % kind)


# ===========================================================================
# half B: save / restore histories
FORMATS = ["keras", "h5", "tf"]


def _save_load(model, fmt, tmp, extra_objects=None):
  """Saves and reloads; returns (model2, None) or (None, (stage, exc))."""
  import warnings
  _, tfl, keras = _tf()
  co = tfl.premade.get_custom_objects()
  if extra_objects:
    co = dict(co, **extra_objects)
  path = os.path.join(tmp, {"keras": "model.keras", "h5": "model.h5",
                            "tf": "saved_model"}[fmt])
  if os.path.isdir(path):
    shutil.rmtree(path)
  elif os.path.exists(path):
    os.remove(path)
  with warnings.catch_warnings():
    warnings.simplefilter("ignore")
    try:
      if fmt == "tf":
        model.save(path, save_format="tf")
      else:
        model.save(path)
    except Exception as e:  # pylint: disable=broad-except
      return None, ("save", e)
    try:
      return keras.models.load_model(path, custom_objects=co), None
    except Exception as e:  # pylint: disable=broad-except
      return None, ("load", e)


def compare_restored(old, new, seed, what, out, sig, prefix="restore"):
  """Constraint results on one random tensor per constrained variable and the
  regularisation losses of a restored model against the model that was saved
  (same weights): a restore that silently drops or changes trust / dominance /
  clamp / convexity / norm constraints or a regularizer shows here."""
  import tensorflow as tf
  rs = np.random.RandomState(int(seed) % (2**31 - 1))
  va, vb = list(old.weights), list(new.weights)
  for i, (p, q) in enumerate(zip(va, vb)):
    ca = getattr(p, "constraint", None)
    cb = getattr(q, "constraint", None)
    out.checks += 1
    if (ca is None) != (cb is None):
      out.violate("variable %d (%s) %s its constraint in the %s" % (
          i, p.name, "lost" if cb is None else "gained", what),
                  kind=prefix + "-constraint-presence", **sig)
      return False
    if ca is None:
      continue
    t = tf.constant(rand_like(rs, p.shape, 2.0).astype(p.dtype.as_numpy_dtype))
    ok, m = close(ca(t), cb(t))
    if not ok:
      out.violate("the constraint of variable %d (%s) maps the same tensor "
                  "differently after the %s (%s)" % (i, p.name, what, m),
                  kind=prefix + "-constraint-result", **sig)
      return False
  la = [np.asarray(l, np.float64) for l in old.losses]
  lb = [np.asarray(l, np.float64) for l in new.losses]
  out.checks += 1
  ok, m = close(np.sum(la) if la else 0.0, np.sum(lb) if lb else 0.0)
  if not ok:
    out.violate("regularisation losses changed by the %s: %s vs %s" % (
        what, [float(np.sum(l)) for l in la], [float(np.sum(l)) for l in lb]),
                kind=prefix + "-losses", **sig)
    return False
  return True


def run_wrapped(layer, inputs, fmt, name, out):
  """The generated layer as the only layer of a functional keras Model, saved
  to a file in one format and reloaded: outputs, variables, per-variable
  constraint results and regularisation losses are preserved."""
  import tensorflow as tf
  _, _, keras = _tf()
  out.label("wrapped-model:" + fmt, "wrapped-model-cls:" + name)
  sig = {"cls": name, "format": fmt, "wrapped": True}
  x0 = inputs[0]
  flat_in = [keras.Input(shape=a.shape[1:], dtype=a.dtype)
             for a in tf.nest.flatten(x0)]
  y = layer(tf.nest.pack_sequence_as(x0, flat_in))
  model = keras.Model(inputs=flat_in, outputs=y)
  feeds = [[np.asarray(a) for a in tf.nest.flatten(x)] for x in inputs]
  before = [flat(model(f)) for f in feeds]
  tmp = tempfile.mkdtemp(prefix="verif-c11-")
  try:
    m2, err = _save_load(model, fmt, tmp)
    out.checks += 1
    if err is not None:
      out.violate("%s of a one-layer model around a valid %s in format %s "
                  "failed: %s: %s" % (err[0], name, fmt, type(err[1]).__name__,
                                      str(err[1])[:300]),
                  kind="wrapped-restore-failed", stage=err[0],
                  exc=type(err[1]).__name__, **sig)
      return
    sa = [(tuple(w.shape), w.dtype.name) for w in model.weights]
    sb = [(tuple(w.shape), w.dtype.name) for w in m2.weights]
    out.checks += 1
    if sa != sb:
      out.violate("one-layer model around %s restored from %s has different "
                  "variables: %s vs %s" % (name, fmt, sb, sa),
                  kind="wrapped-restore-variables", **sig)
      return
    for f, b in zip(feeds, before):
      out.checks += 1
      ok, m = all_close(b, flat(m2(f)))
      if not ok:
        out.violate("outputs of a one-layer model around %s changed by the %s "
                    "restore (%s)" % (name, fmt, m),
                    kind="wrapped-restore-outputs", **sig)
        return
    compare_restored(model, m2, len(sa) + 17, "%s restore of a one-layer "
                     "model around %s" % (fmt, name), out, sig,
                     prefix="wrapped-restore")
  finally:
    shutil.rmtree(tmp, ignore_errors=True)


def _restore(sim, op, out, tmp):
  """One save_reload / from_config op. Returns False to end the history."""
  desc = sim.desc
  fmt = op["format"]
  sig = dict(format=fmt, model=desc["kind"], param=desc["parameterization"])
  before = sim.f(sim.x)
  before_m = sim.f(sim.xm)
  old = sim.model
  if fmt == "from_config":
    try:
      with _scope():
        m2 = type(old).from_config(old.get_config())
    except Exception as e:  # pylint: disable=broad-except
      out.violate("model.from_config(get_config()) failed: %s: %s" % (
          type(e).__name__, str(e)[:300]), kind="restore-failed", stage="load",
                  exc=type(e).__name__, **sig)
      return False
    shapes_new = [tuple(w.shape) for w in m2.get_weights()]
    shapes_old = [tuple(w.shape) for w in old.get_weights()]
    if shapes_new == shapes_old:
      m2.set_weights(old.get_weights())
  else:
    m2, err = _save_load(old, fmt, tmp)
    if err is not None:
      out.violate("%s of a valid model in format %s failed: %s: %s" % (
          err[0], fmt, type(err[1]).__name__, str(err[1])[:300]),
                  kind="restore-failed", stage=err[0],
                  exc=type(err[1]).__name__, **sig)
      return False
    shapes_new = [tuple(w.shape) for w in m2.get_weights()]
    shapes_old = [tuple(w.shape) for w in old.get_weights()]
  out.checks += 1
  if shapes_new != shapes_old:
    out.violate("restored model has different variables: %s vs %s" % (
        shapes_new, shapes_old), kind="restore-variables", **sig)
    return False
  sim.model = m2
  sim.sgd, sim.adam = {}, None
  for b, x, what in ((before, sim.x, "probe rows"),
                     (before_m, sim.xm, "missing-value rows")):
    after = sim.f(x)
    out.checks += 1
    ok, m = close(b, after)
    if not ok:
      out.violate("outputs on the %s changed by the restore (%s)" % (what, m),
                  kind="restore-outputs", **sig)
      return False
  # same constraints and regularizers attached (file formats: the restored
  # model went through the layers' get_config / from_config)
  if not compare_restored(old, m2, desc["seed"], "%s restore" % fmt, out, sig):
    return False
  # constraints still attached: hostile update through the optimizer + judge
  w0 = m2.get_weights()
  tmp_out = Outcome()
  try:
    sim.hostile_update(op["hostile"])
    if not sim.finite():
      out.label("ended:non-finite-weights")
      return False
    C03.judge(sim, tmp_out, "a hostile update after %s restore" % fmt)
  except Exception as e:  # pylint: disable=broad-except
    # the same update on the never-saved model must work for this to count
    ctrl = C03.Sim(desc)
    ctrl.model.set_weights(w0)
    ctrl.hostile_update(op["hostile"])
    out.violate("an optimizer update of the restored model fails although the "
                "same update works on the original: %s: %s" % (
                    type(e).__name__, str(e)[:200]),
                kind="restored-model-update-fails", exc=type(e).__name__,
                pair_constraints=bool(desc.get("trust") or
                                      desc.get("dominance")), **sig)
    return False
  out.checks += tmp_out.checks
  for v in tmp_out.violations:
    if v["sig"].get("collapsed_average"):
      out.violations.append(v)          # F-C03-2, signature unchanged
      continue
    ctrl = C03.Sim(desc)
    ctrl.model.set_weights(w0)
    ctrl.hostile_update(op["hostile"])
    ctrl_out = Outcome()
    C03.judge(ctrl, ctrl_out, "control")
    v["sig"].update(after_restore=fmt, reloaded_only=not ctrl_out.violations)
    out.violations.append(v)
  return not tmp_out.violations


def run_history(case, out):
  desc, ops = case["desc"], case["ops"]
  check_registry()
  out.label("half:B-history", "model:" + desc["kind"],
            "param:" + desc["parameterization"])
  sim = C03.Sim(desc)
  restores = 0
  tmp = tempfile.mkdtemp(prefix="verif-c11-")
  try:
    for i, op in enumerate(ops):
      name = op["op"]
      if name in ("sgd_step", "adam_step"):
        out.label("op:" + name)
        sim.train_step(op)
      elif name == "hostile_update":
        out.label("op:" + name)
        sim.hostile_update(op)
      elif name == "restore":
        out.label("op:restore-" + op["format"],
                  "restore-at-step:%d" % min(i, 2))
        if not _restore(sim, op, out, tmp):
          restores += 1
          break
        restores += 1
        continue
      else:
        raise ValueError(name)
      if not sim.finite():
        out.label("ended:non-finite-weights")
        break
  finally:
    shutil.rmtree(tmp, ignore_errors=True)
  out.nontrivial = restores > 0
  out.info["restores"] = restores


# ---- functional model around a CDF layer (F-C11-3 stays visible)
def run_cdf_model(case, out):
  tf, tfl, keras = _tf()
  spec = case["cdf"]
  out.label("half:C-cdf-model")
  _seed(case["seed"])
  rs = np.random.RandomState(case["aux"])
  inp = keras.layers.Input(shape=(spec["input_dim"],))
  layer, _ = make_cdf(spec)
  y = layer(inp)
  if case["head"] and spec["reduction"] != "none":
    y = tfl.layers.Linear(num_input_dims=spec["units"],
                          monotonicities=[1] * spec["units"])(y)
  model = keras.Model(inp, y)
  x = cdf_inputs(spec, rs)[0]
  if case["train"]:
    opt = keras.optimizers.SGD(learning_rate=0.1)
    with tf.GradientTape() as tape:
      loss = tf.reduce_mean(model(x, training=True))
    tv = model.trainable_variables
    opt.apply_gradients(zip(tape.gradient(loss, tv), tv))
  before = flat(model(x))
  out.nontrivial = True
  tmp = tempfile.mkdtemp(prefix="verif-c11-")
  try:
    for fmt in FORMATS:
      _cdf_restore(model, fmt, tmp, x, before, out)
  finally:
    shutil.rmtree(tmp, ignore_errors=True)


def _cdf_restore(model, fmt, tmp, x, before, out):
  _, tfl, _ = _tf()
  m2, err = _save_load(model, fmt, tmp)
  out.checks += 1
  out.label("cdf-format:" + fmt)
  if err is not None:
    m3, err3 = _save_load(model, fmt, tmp, {"CDF": tfl.layers.CDF})
    if err3 is None and all_close(before, flat(m3(x)))[0]:
      out.violate("a model with a tfl.layers.CDF layer cannot be %sed in "
                  "format %s with get_custom_objects() (%s: %s); it reloads "
                  "once CDF is added to the custom objects" % (
                      err[0], fmt, type(err[1]).__name__, str(err[1])[:150]),
                  kind="cdf-not-reloadable", format=fmt)
    else:
      out.violate("%s of a CDF model in format %s failed: %s: %s" % (
          err[0], fmt, type(err[1]).__name__, str(err[1])[:300]),
                  kind="restore-failed", stage=err[0],
                  exc=type(err[1]).__name__, format=fmt, model="cdf")
    return
  out.checks += 3
  ok, m = all_close(before, flat(m2(x)))
  if not ok:
    out.violate("outputs of a CDF model changed by the %s restore (%s)" % (
        fmt, m), kind="restore-outputs", format=fmt, model="cdf")
    return
  sa = [tuple(w.shape) for w in model.get_weights()]
  sb = [tuple(w.shape) for w in m2.get_weights()]
  if sorted(sa) != sorted(sb):
    out.violate("restored CDF model has different variables %s vs %s" % (
        sb, sa), kind="restore-variables", format=fmt, model="cdf")
    return
  ca = sorted(tuple(v.shape) for v in model.variables
              if v.constraint is not None)
  cb = sorted(tuple(v.shape) for v in m2.variables
              if getattr(v, "constraint", None) is not None)
  if ca != cb:
    # the SavedModel loader revives an unregistered layer without its Python
    # class: the variables come back without their constraints
    out.violate("variable constraints of a CDF model are lost by the %s "
                "restore (constrained shapes %s -> %s)" % (fmt, ca, cb),
                kind="cdf-not-reloadable", format=fmt, lost="constraints")


def run_case(case):
  out = Outcome()
  target = case["target"]
  if target == "object":
    run_object(case, out)
  elif target == "history":
    run_history(case, out)
  elif target == "cdf_model":
    run_cdf_model(case, out)
  else:
    raise HarnessError("unknown target %r" % (target,))
  return out


# ===========================================================================
# strategy
def _weighted_names():
  names = []
  for n in sorted(REG):
    names += [n] * max(1, int(round(REG[n].weight * 20)))
  return names


def _spread(items, tag):
  """Near-uniform choice: Hypothesis prefers small integers / first elements,
  so a drawn 31-bit number is hashed before it indexes the list."""
  items = list(items)
  return st.tuples(S.seeds, st.integers(0, 10**6), st.integers(0, 255)).map(
      lambda u: items[hash32(tag, *u) % len(items)])


_WRAPS = [None] * 7 + list(FORMATS)
_DTYPES = [None, None, None, "float64"]


def _expand_mode(case):
  """via / wrap / dtype from one drawn number (one draw keeps the cases small
  for Hypothesis): rebuild route, one-layer-model file format (layers only),
  dtype (layers and premade models)."""
  n, r = case["cls"], case.pop("mode")
  kind = REG[n].kind
  case["via"] = ["memory", "json"][r % 2]
  case["wrap"] = (_WRAPS[(r // 2) % len(_WRAPS)]
                  if kind == "layer" and n != "Aggregation" else None)
  case["dtype"] = (_DTYPES[(r // (2 * len(_WRAPS))) % len(_DTYPES)]
                   if kind in ("layer", "model", "modelcfg") and
                   n not in ("Aggregation", "AggregateFunction",
                             "AggregateFunctionConfig") else None)
  return case


def object_case(tier, name=None):
  pick = st.just(name) if name else _spread(_weighted_names(), "cls")
  return pick.flatmap(lambda n: st.fixed_dictionaries({
      "target": st.just("object"), "cls": st.just(n),
      "args": REG[n].strat(tier), "seed": st.integers(0, 10**6),
      "aux": S.seeds,
      "mode": _spread(range(2 * len(_WRAPS) * len(_DTYPES)), "mode")}).map(
          _expand_mode))


op_restore = st.fixed_dictionaries({
    "op": st.just("restore"),
    "format": _spread(["keras", "h5", "tf", "from_config"], "fmt"),
    "hostile": C03.op_hostile})
op_train = st.one_of(C03.op_sgd, C03.op_adam, C03.op_hostile)


@st.composite
def history_case(draw, tier):
  # hand-assembled stacks are the only models whose reload goes through the
  # layers' own get_config (premade models are rebuilt from their model_config)
  desc = draw(M.model_desc(tier, kinds=M.KINDS + ["stack_lattice",
                                                  "stack_linear"] * 2))
  max_ops = 3 if tier == "quick" else 6
  nb = draw(_spread([0, 1, 1, 2, 2] if tier == "quick" else
                    [0, 1, 2, 3, 4, 5], "n-before"))
  before = draw(st.lists(op_train, min_size=nb, max_size=nb))
  ops = before + [draw(op_restore)]
  rest = max_ops - len(ops)
  if rest > 0:
    ops += draw(st.lists(st.one_of(op_train, op_restore), min_size=0,
                         max_size=rest))
  return {"target": "history", "desc": desc, "ops": ops}


@st.composite
def cdf_model_case(draw, tier):
  return {"target": "cdf_model", "cdf": draw(cdf_spec(tier)),
          "head": draw(st.booleans()), "train": draw(st.booleans()),
          "seed": draw(st.integers(0, 10**6)), "aux": draw(S.seeds)}


def strategy(tier):
  return _spread(range(1000), "target").flatmap(
      lambda r: history_case(tier) if r < 80 else
      cdf_model_case(tier) if r < 90 else object_case(tier))
