"""C10 - freshly built layers already satisfy their monotonicity and bound
constraints and pass their own assert_constraints()."""
import itertools
import os

import numpy as np
from hypothesis import strategies as st

from props.c07 import (OutputShape, build_kfl, format_inputs, kfl_config,
                       spell_monotonicities)
from vlib import oracles as R
from vlib import strategies as S
from vlib.harness import Outcome, TOL_MONO_F, TOL_W, scale_of

ID = "C10"
TITLE = ("Freshly built layers already satisfy their monotonicity and bound "
         "constraints")
RULE = ("Hypothesis draws a layer kind and a valid configuration. Lattice "
        "(~47%): rank 1-4, sizes 2-4 (thorough rank <= 5, sizes <= 6), one "
        "unimodal / jointly unimodal dimension of 5-7 vertices in half of the "
        "unimodal cases, units 1-3, monotonicity subsets, unimodalities and "
        "joint unimodalities (incl. one group covering all features), the "
        "all-unconstrained case, monotonicities / unimodalities spelled as "
        "int lists, documented strings, tuples or mixed, bounds {none, min, "
        "max, both} incl. negative ranges, a bound equal to 0, output_max <= "
        "0 and output_min >= 1 alone, initializer id {linear_initializer, "
        "LinearInitializer, random_monotonic_initializer, "
        "RandomMonotonicInitializer, default (left out or named "
        "random_uniform_or_linear_initializer / "
        "RandomUniformOrLinearInitializer)} used by name or built with an "
        "explicit init_min/init_max through create_kernel_initializer / "
        "LinearInitializer / RandomMonotonicInitializer, a TF/NumPy seed; "
        "shape 'mono_trust' (linear ids only) adds Edgeworth trusts, "
        "trapezoid trusts with a non-monotone conditional dimension, range "
        "dominances, monotonic dominances whose dominant dimension has at "
        "most as many vertices as the weak one, and joint monotonicities "
        "(directions as ints or 'positive'/'negative'). PWLCalibration "
        "(~21%): 2-8 keypoints (thorough 16) with gaps from 2e-4 to 100 given "
        "as list / tuple / float32 or float64 ndarray, fixed or "
        "learned_interior keypoints, units 1-5, equal_heights / equal_slopes "
        "by name or as a UniformOutputInitializer object with an explicit "
        "range, monotonicity -1/0/1 and convexity as ints or strings, cyclic, "
        "clamps, one/two-sided and zero-width bounds. "
        "KroneckerFactoredLattice (~16%): props/c07 wide configurations "
        "(lattice_sizes 2-6, dims 1-6, spellings, input formats, units "
        "receiving different points, 1e-3 wide bounds), default or explicit "
        "initialisation range, kernel / scale initializer ids by name, the "
        "initializer's seed argument. CategoricalCalibration (~16%): 2-6 "
        "buckets, uniform / constant / a Keras RandomUniform object, bounds, "
        "up to 6 monotonic pairs as tuples or lists, default_input_value. The "
        "layer is built, its fresh weights are compared with the float64 "
        "shape documented for the initializer, with the layer's monotonicity, "
        "bound and (mono_trust) trust/dominance constraints, "
        "assert_constraints() is called, and for monotonicity+bound-only "
        "configurations the variable constraint must return the weights "
        "unchanged. Non-trivial: the layer has a monotonicity, unimodality or "
        "bound constraint or an explicit initialisation range and its fresh "
        "weights are not all equal; distinct by SHA-1 of the case.")
NT_FLOOR = 0.6
BUDGET = {"quick": 500, "thorough": 5000}
ASSUMPTIONS = [
    "assert_constraints() uses an absolute eps=1e-6; when it fails on fresh "
    "weights it is called again with eps=2e-5*S and only that second failure "
    "is a violation (the first is counted in the class "
    "'*:assert-default-eps-rounding')",
    "explicit init_min/init_max are drawn inside the layer's output bounds "
    "(KroneckerFactoredLattice: inside [0, 1] when the layer is bounded, "
    "non-negative otherwise; a PWL UniformOutputInitializer object starts / "
    "ends at a clamped bound)",
    "the Lattice default initializer's documented fallback to Keras "
    "random_uniform (one joint-unimodality group over all features) is "
    "generated; its bound violations carry the narrow signature {kind: "
    "bounds, layer: lattice, init: default, keras_random_uniform: true} "
    "(known finding)",
    "trust / dominance configurations include three regions the lattice "
    "initializers do not satisfy (trapezoid trust with a monotone conditional "
    "dimension, monotonic dominance with more vertices along the dominant "
    "dimension, any trust with the random monotonic initializer; switches "
    "GEN_TZ_MONOTONE_COND / GEN_MDOM_LARGER_DOMINANT / GEN_TRUST_RANDOM_INIT); "
    "their violations carry {kind: trust, initializer_ignores_constraint: "
    "true} (known finding F-C10-5), any other trust violation of a fresh "
    "kernel has that flag false and is reported"]
TECHNIQUE = ("property-based testing (Hypothesis): generated layer "
             "configurations, initializers and seeds against float64 shape "
             "references written from the initializer documentation")
LEVEL_TEXT = ("Generated-input exploration of layer construction: thousands of "
              "valid Lattice / PWLCalibration / KroneckerFactoredLattice / "
              "CategoricalCalibration configurations, hyper-parameter "
              "spellings, initializer ids and objects, explicit "
              "initialisation ranges and random seeds per run; the fresh "
              "weights of the real layer are compared clause by clause with "
              "the documented initial shape, with the layer's monotonicity, "
              "bound and trust constraints (float64 inequality rows), with "
              "the layer's own assert_constraints() and with the variable "
              "constraint (identity on the initial kernel). "
              "KroneckerFactoredLattice is judged as a function on the full "
              "half-integer grid. Cannot show absence.")
LEVEL_NOTE = ("Tolerance 2e-5*S (S=max(1,|weights|,|bounds|)) for weight "
              "clauses, 1e-5 relative for the function-level KFL clauses; the "
              "ordering of the random monotonic initializer is exact. Sizes "
              "bounded as stated in the rule. Trusted: TensorFlow random "
              "number generation seeded per case.")

# One region in which a fresh layer breaks the statement is reported with a
# narrow signature (known finding): the Lattice default initializer falls back
# to Keras random_uniform when one joint-unimodality group covers all features
# and then ignores the output bounds.  Setting this variable keeps the
# generator out of it (used to audit mutants against a quiet baseline before
# the finding was recorded); it is never set by ./check.
_SKIP_SUSPECTS = bool(os.environ.get("VERIF_C10_SKIP_SUSPECTS"))

OMIN_POOL = [-10.0, -1.0, 0.0, 0.5, 1.0, 2.5, 100.0]
OMAX_POOL = [-10.0, -1.5, 0.0, 0.25, 1.0, 7.0, 100.0]
WIDTHS = [0.5, 1.0, 3.0, 1000.0]
LINEAR_IDS = ("linear_initializer", "LinearInitializer")
RANDOM_IDS = ("random_monotonic_initializer", "RandomMonotonicInitializer")
# documented spellings of the hyper-parameters (the int spelling is the
# historical one)
VEC_SPELLS = ["ints", "ints", "strings", "tuple", "mixed"]
DEFAULT_ID_SPELLS = ["omit", "omit", "random_uniform_or_linear_initializer",
                     "RandomUniformOrLinearInitializer"]
MONO_WORD = {1: "increasing", 0: "none", -1: "decreasing"}
UNIMOD_WORD = {1: "valley", 0: "none", -1: "peak"}
CONV_WORD = {1: "convex", 0: "none", -1: "concave"}
TRUST_WORD = {1: "positive", -1: "negative"}
# keypoint gaps down to 2e-4 (neighbouring quantile keypoints): equal_slopes
# then has heights of very different sizes
SPACINGS_FINE = [2e-4, 1e-3, 1e-2, 0.5, 1.0, 1.0, 3.0, 100.0]

# Candidate-defect regions (see the widening report): configurations the
# library accepts but whose fresh linear / random-monotonic kernel does not
# satisfy the configured trust / dominance constraint.  Kept out of the
# generator so that the check is quiet.
GEN_TZ_MONOTONE_COND = True     # trapezoid trust whose conditional dim is monotone
GEN_MDOM_LARGER_DOMINANT = True  # monotonic dominance, dominant size > weak size
GEN_TRUST_RANDOM_INIT = True    # trusts/dominances + random_monotonic_initializer


def spell_vector(v, spell, words):
  """List/tuple of ints or documented strings for an int vector."""
  v = [int(x) for x in v]
  if spell == "strings":
    return [words[x] for x in v]
  if spell == "tuple":
    return tuple(v)
  if spell == "mixed":
    return [words[x] if i % 2 == 0 else x for i, x in enumerate(v)]
  return list(v)


# ------------------------------------------------------------------ strategy
@st.composite
def _bounds(draw, modes=("none", "min", "max", "both", "both")):
  bm = draw(st.sampled_from(modes))
  if bm == "none":
    return None, None
  if bm == "min":
    return S.f32(draw(st.sampled_from(OMIN_POOL))), None
  if bm == "max":
    return None, S.f32(draw(st.sampled_from(OMAX_POOL)))
  lo = draw(st.sampled_from(OMIN_POOL))
  return S.f32(lo), S.f32(lo + draw(st.sampled_from(WIDTHS)))


@st.composite
def _explicit_range(draw, omin, omax):
  """Initialisation range inside the output bounds."""
  w = draw(st.sampled_from([0.5, 1.0, 2.0, 100.0]))
  if omin is not None and omax is not None:
    span = omax - omin
    a = omin + span * draw(st.sampled_from([0.0, 0.25]))
    b = omax - span * draw(st.sampled_from([0.0, 0.25]))
  elif omin is not None:
    a = omin + draw(st.sampled_from([0.0, 1.0]))
    b = a + w
  elif omax is not None:
    b = omax - draw(st.sampled_from([0.0, 1.0]))
    a = b - w
  else:
    a = draw(st.sampled_from([-100.0, -3.0, 0.0, 0.5, 20.0]))
    b = a + w
  return [S.f32(a), S.f32(b)]


def _shrink_to(sizes, floor, limit):
  """Reduces the largest reducible sizes until prod(sizes) <= limit."""
  sizes = list(sizes)
  while int(np.prod(sizes)) > limit:
    cand = [i for i in range(len(sizes)) if sizes[i] > floor[i]]
    if not cand:
      break
    i = max(cand, key=lambda j: sizes[j])
    sizes[i] -= 1
  return sizes


@st.composite
def _trusts(draw, sizes, mono, init_random):
  """Trust / dominance / joint-monotonicity constraints that the documented
  linear initialisation (an additive function with equal total rise per
  monotone dimension, constant along the others) satisfies: Edgeworth trust
  with equality; trapezoid trust when the conditional dimension is not
  monotone (equality); range dominance (equality); monotonic dominance when
  the dominant dimension has at most as many vertices as the weak one; joint
  monotonicity of any two dimensions."""
  n = len(sizes)
  mono_dims = [d for d in range(n) if mono[d]]
  mains = [d for d in mono_dims if draw(st.booleans())] or [mono_dims[0]]
  conds = [d for d in range(n) if d not in mains]
  tz_pool = conds if GEN_TZ_MONOTONE_COND else [d for d in conds
                                                if not mono[d]]
  t = {"ew": [], "tz": [], "mdom": [], "rdom": [], "jmono": []}
  fams = draw(st.lists(st.sampled_from(["ew", "tz", "mdom", "rdom", "jmono"]),
                       min_size=1, max_size=3, unique=True))
  dirs = {}
  for fam in fams:
    pool = conds if fam == "ew" else tz_pool
    if fam in ("ew", "tz") and pool:
      for _ in range(draw(st.integers(1, 2))):
        m, c = draw(st.sampled_from(mains)), draw(st.sampled_from(pool))
        dr = draw(st.sampled_from([-1, 1]))
        dr = dirs.setdefault((m, c), dr)
        if [m, c, dr] not in t[fam]:
          t[fam].append([m, c, dr])
    elif fam == "rdom" and len(mono_dims) >= 2:
      sub = draw(S.dag_pairs(len(mono_dims), max_edges=2,
                             allow_duplicates=False))
      t["rdom"] = [[mono_dims[a], mono_dims[b]] for a, b in sub]
    elif fam == "mdom" and len(mono_dims) >= 2:
      order = (list(draw(st.permutations(mono_dims)))
               if GEN_MDOM_LARGER_DOMINANT else
               sorted(mono_dims, key=lambda d: (sizes[d], d)))
      for _ in range(draw(st.integers(1, 2))):
        a = draw(st.integers(0, len(order) - 2))
        b = draw(st.integers(a + 1, len(order) - 1))
        if [order[a], order[b]] not in t["mdom"]:
          t["mdom"].append([order[a], order[b]])
    elif fam == "jmono":
      for _ in range(draw(st.integers(1, 2))):
        a = draw(st.integers(0, n - 1))
        b = draw(st.integers(0, n - 2))
        b = b if b < a else b + 1
        if [a, b] not in t["jmono"] and [b, a] not in t["jmono"]:
          t["jmono"].append([a, b])
  if not any(t.values()):
    t["jmono"].append([0, 1])
  return t


@st.composite
def _lattice_case(draw, tier):
  big = tier == "thorough"
  sizes = draw(S.lattice_sizes(max_rank=5 if big else 4,
                               max_size=6 if big else 4,
                               max_weights=2048 if big else 256))
  shape = draw(st.sampled_from(["mono_only", "mono_only", "mono_only", "unimod",
                                "unimod", "unimod", "free", "junimod_all",
                                "mono_trust", "mono_trust"]))
  n = len(sizes)
  mono, unimod, junimod = [0] * n, [0] * n, []
  trusts = None
  if shape == "junimod_all":
    sizes = [max(3, s) for s in sizes[:3]]
    n = len(sizes)
    if draw(st.booleans()):
      # one long dimension: the unimodal profile has interior points
      sizes[draw(st.integers(0, n - 1))] = draw(st.integers(5, 7))
    mono, unimod = [0] * n, [0] * n
    junimod = [[list(draw(st.permutations(list(range(n))))),
                draw(st.sampled_from(["valley", "peak"]))]]
  elif shape == "mono_trust":
    if n < 2:
      sizes = sizes + [draw(st.integers(2, 4))]
      n = 2
    mono = [draw(st.sampled_from([1, 1, 0])) for _ in range(n)]
    if not any(mono):
      mono[draw(st.integers(0, n - 1))] = 1
    unimod = [0] * n
    trusts = draw(_trusts(sizes, mono, False))
  elif shape != "free":
    mm = draw(st.sampled_from(["all", "some", "some"] if shape == "mono_only"
                              else ["some", "some", "none"]))
    mono = [1 if mm == "all" else 0 if mm == "none" else draw(st.integers(0, 1))
            for _ in range(n)]
    if shape == "mono_only" and not any(mono):
      mono[draw(st.integers(0, n - 1))] = 1
    if shape == "unimod":
      free = [d for d in range(n) if not mono[d]]
      if not free:
        mono[0] = 0
        free = [0]
      if all(sizes[d] < 3 for d in free):
        sizes[free[0]] = 3
      cand = [d for d in free if sizes[d] >= 3]
      joint_pool = []
      for d in cand:
        role = draw(st.sampled_from(["uni", "uni", "joint", "none"]))
        if role == "uni":
          unimod[d] = draw(st.sampled_from([-1, 1]))
        elif role == "joint":
          joint_pool.append(d)
      if not any(unimod) and not joint_pool:
        unimod[cand[0]] = draw(st.sampled_from([-1, 1]))
      shaped = [d for d in cand if unimod[d] or d in joint_pool]
      while joint_pool:
        k = draw(st.integers(1, len(joint_pool)))
        junimod.append([joint_pool[:k],
                        draw(st.sampled_from(["valley", "peak"]))])
        joint_pool = joint_pool[k:]
      if draw(st.booleans()):
        # one long unimodal dimension (5-7 vertices): the documented profile
        # has interior points and, for odd sizes, a single extreme vertex
        d = draw(st.sampled_from(shaped))
        sizes[d] = draw(st.integers(5, 7))
        floor = [sizes[i] if i == d else 3 if i in shaped else 2
                 for i in range(n)]
        sizes = _shrink_to(sizes, floor, 2048 if big else 512)
  omin, omax = draw(_bounds())
  ids = ["linear_initializer", "linear_initializer", "LinearInitializer",
         "random_monotonic_initializer", "random_monotonic_initializer",
         "RandomMonotonicInitializer", "default", "default"]
  if trusts is not None and not GEN_TRUST_RANDOM_INIT:
    ids = [i for i in ids if i not in RANDOM_IDS]
  init_id = draw(st.sampled_from(ids))
  via = draw(st.sampled_from(["none", "none", "none", "create", "class"]))
  if (_SKIP_SUSPECTS and init_id == "default" and len(junimod) == 1 and
      len(junimod[0][0]) == n):
    init_id = "linear_initializer"
  cfg = {"sizes": [int(s) for s in sizes], "mono": mono, "unimod": unimod,
         "junimod": junimod, "omin": omin, "omax": omax}
  if trusts is not None:
    cfg.update(trusts)
  return {"kind": "lattice", "cfg": cfg, "shape": shape,
          "units": draw(st.sampled_from([1, 1, 2, 3])),
          "init_id": init_id, "via": via,
          "init": draw(_explicit_range(omin, omax)) if via != "none" else None,
          "none_spelling": draw(st.booleans()),
          "mono_spell": draw(st.sampled_from(VEC_SPELLS)),
          "unimod_spell": draw(st.sampled_from(VEC_SPELLS)),
          "trust_spell": draw(st.sampled_from(["ints", "strings"])),
          "default_id": draw(st.sampled_from(DEFAULT_ID_SPELLS)),
          "iters": draw(st.sampled_from([0, 1, 10])),
          "strict": draw(st.booleans()),
          "seed": draw(S.seeds)}


@st.composite
def _pwl_case(draw, tier):
  fine = draw(st.booleans())
  cfg = draw(S.pwl_config(max_k=16 if tier == "thorough" else 8,
                          max_units=5, iters=(0, 1, 8),
                          spacings=SPACINGS_FINE if fine else None))
  omin, omax = draw(_bounds(modes=("none", "min", "max", "both", "both",
                                   "both", "both", "both")))
  if omin is not None and omax is not None and draw(st.integers(0, 11)) == 0:
    omax = omin                      # zero-width range is accepted
  cfg["omin"], cfg["omax"] = omin, omax
  mono = cfg["mono"]
  cfg["clamp_min"] = bool(mono != 0 and omin is not None and
                          draw(st.booleans()))
  cfg["clamp_max"] = bool(mono != 0 and omax is not None and
                          draw(st.booleans()))
  init = draw(st.sampled_from(["equal_heights", "equal_slopes"]))
  # the initializer by name (the layer derives its range from the bounds) or
  # as a UniformOutputInitializer object with an explicit range inside the
  # bounds (a clamped bound is part of the range)
  via = draw(st.sampled_from(["name", "name", "object"]))
  rng = None
  if via == "object":
    rng = draw(_explicit_range(omin, omax))
    if omin is not None and (cfg["clamp_min"] or omin == omax):
      rng[0] = omin
    if omax is not None and (cfg["clamp_max"] or omin == omax):
      rng[1] = omax
  kp_type = "fixed"
  if cfg["conv"] == 0 and draw(st.integers(0, 2)) == 0:
    kp_type = "learned_interior"     # only valid without convexity
  return {"kind": "pwl", "cfg": cfg, "init_id": init, "via": via, "init": rng,
          "kp_container": draw(st.sampled_from(
              ["list", "list", "tuple", "ndarray32", "ndarray64"])),
          "kp_type": kp_type, "fine": fine,
          "mono_spell": draw(st.sampled_from(["int", "int", "string"])),
          "conv_spell": draw(st.sampled_from(["int", "int", "string"])),
          "seed": draw(S.seeds)}


@st.composite
def _kfl_case(draw, tier):
  cfg = draw(kfl_config(tier, wide=True))
  via = draw(st.sampled_from(["none", "none", "none", "create", "class"]))
  init = None
  if via != "none":
    bounded = cfg["omin"] is not None or cfg["omax"] is not None
    init = draw(st.sampled_from(
        [[0.0, 1.0], [0.2, 0.4], [0.0, 0.5], [0.5, 1.0]] if bounded else
        [[0.5, 1.5], [0.0, 3.0], [1.0, 2.0], [0.1, 0.2]]))
    init = S.f32(init)
  return {"kind": "kfl", "cfg": cfg, "via": via, "init": init,
          # initializer ids passed by name (None = argument left out)
          "kernel_id": draw(st.sampled_from(
              [None, None, "kfl_random_monotonic_initializer",
               "KFLRandomMonotonicInitializer"])),
          "scale_id": draw(st.sampled_from(
              [None, None, "scale_initializer", "ScaleInitializer"])),
          "init_seed_arg": draw(st.sampled_from([None, 0, 7, 12345])),
          "seed": draw(S.seeds)}


@st.composite
def _cat_case(draw, tier):
  nb = draw(st.integers(2, 10 if tier == "thorough" else 6))
  omin, omax = draw(_bounds(modes=("none", "min", "max", "min", "max", "both",
                                   "both", "both")))
  pairs = draw(S.dag_pairs(nb, max_edges=6, allow_duplicates=False)) if draw(
      st.booleans()) else []
  # 'keras-object': any Keras initializer object is documented; the layer
  # passes the initial value through its constraint
  init = draw(st.sampled_from(["uniform", "uniform", "constant",
                               "keras-object"]))
  return {"kind": "cat", "num_buckets": nb,
          "units": draw(st.sampled_from([1, 1, 2, 3])), "omin": omin,
          "omax": omax, "pairs": pairs, "init_id": init,
          "pair_container": draw(st.sampled_from(["tuple", "tuple", "list"])),
          "default_input_value": draw(st.sampled_from([None, None, -1, 99])),
          "seed": draw(S.seeds)}


KIND_MIX = ["lattice"] * 9 + ["pwl"] * 4 + ["kfl"] * 3 + ["cat"] * 3


@st.composite
def _case(draw, tier):
  kind = draw(st.sampled_from(KIND_MIX))
  return draw({"lattice": _lattice_case, "pwl": _pwl_case, "kfl": _kfl_case,
               "cat": _cat_case}[kind](tier))


def strategy(tier):
  return _case(tier)


# --------------------------------------------------------- float64 references
def default_range(omin, omax):
  """Default initialisation range of the Lattice initializers: the output
  bounds where given, else [0, 1]; a lone upper bound c <= 0 gives [c-1, c] and
  a lone lower bound c >= 1 gives [c, c+1] so that the range is never empty."""
  lo = omin if omin is not None else (
      0.0 if omax is None or omax > 0.0 else omax - 1.0)
  hi = omax if omax is not None else (
      1.0 if omin is None or omin < 1.0 else omin + 1.0)
  return float(lo), float(hi)


def profile(kind, size, dr):
  """Documented 1-d profile of the linear initializer along one dimension."""
  i = np.arange(size, dtype=np.float64)
  if kind == "flat":
    return np.zeros(size)
  if kind == "mono":
    return dr * i / (size - 1.0)
  h = (size + 1) // 2       # vertices of the decreasing part of a valley
  v = np.zeros(size)
  v[:h] = dr * (1.0 - i[:h] / (h - 1.0))
  v[size - h:] = dr * np.arange(h) / (h - 1.0)
  return v if kind == "valley" else dr - v


def dim_kinds(cfg):
  kinds = []
  for d in range(len(cfg["sizes"])):
    k = "flat"
    if cfg["mono"][d]:
      k = "mono"
    elif cfg["unimod"][d]:
      k = "valley" if cfg["unimod"][d] == 1 else "peak"
    for dims, direction in cfg["junimod"]:
      if d in dims:
        k = direction
    kinds.append(k)
  return kinds


def pwl_init_bounds(omin, omax):
  """Initialisation bounds of PWLCalibration: the output bounds; a missing
  bound is replaced by the other one, both missing give [0, 0]."""
  a = omin if omin is not None else (omax if omax is not None else 0.0)
  b = omax if omax is not None else (omin if omin is not None else 0.0)
  return float(a), float(b)


def _bounds_label(omin, omax):
  return ("none" if omin is None and omax is None else
          "min" if omax is None else "max" if omin is None else "both")


def _bound_excess(w, omin, omax):
  v = 0.0
  if omin is not None:
    v = max(v, float(omin - np.min(w)))
  if omax is not None:
    v = max(v, float(np.max(w) - omax))
  return v


def _call_assert(lyr, out, scale, tag, **sig):
  """assert_constraints() of the layer; True when it passed."""
  import tensorflow as tf
  out.checks += 1
  try:
    lyr.assert_constraints()
    return True
  except tf.errors.InvalidArgumentError as e:
    first = str(e)
  try:
    lyr.assert_constraints(eps=TOL_W * scale)
    out.label(tag + ":assert-default-eps-rounding")
    return True
  except tf.errors.InvalidArgumentError:
    pass
  out.violate("assert_constraints() fails on the freshly built layer: %s" %
              " ".join(first.split())[:260], kind="assert", **sig)
  return False


def _check_unchanged(var, out, tag, what, **sig):
  import tensorflow as tf
  if var.constraint is None:
    return
  w = var.numpy().astype(np.float64)
  c = var.constraint(tf.identity(var)).numpy().astype(np.float64)
  out.checks += 1
  out.label(tag + ":unchanged-clause")
  s = scale_of(w, c)
  err = float(np.max(np.abs(c - w))) if np.all(np.isfinite(c)) else np.inf
  out.info["unchanged_err_over_tol"] = err / (TOL_W * s)
  if not err <= TOL_W * s:
    out.violate("the %s constraint moves the initial %s by %.3g (tolerance "
                "%.3g)" % (what, what, err, TOL_W * s), kind="unchanged",
                **sig)


# ---------------------------------------------------------------- Lattice
TRUST_KEYS = (("ew", "edgeworth_trusts"), ("tz", "trapezoid_trusts"),
              ("mdom", "monotonic_dominances"), ("rdom", "range_dominances"),
              ("jmono", "joint_monotonicities"))


def _has_trusts(cfg):
  return any(cfg.get(k) for k, _ in TRUST_KEYS)


def _build_lattice(case):
  import tensorflow as tf
  import tensorflow_lattice as tfl
  from tensorflow_lattice.python import lattice_layer as ll
  cfg = case["cfg"]
  sizes, n = list(cfg["sizes"]), len(cfg["sizes"])
  none_ok = case["none_spelling"]
  mspell = case.get("mono_spell", "ints")
  uspell = case.get("unimod_spell", "ints")
  mono = None if (none_ok and not any(cfg["mono"])) else spell_vector(
      cfg["mono"], mspell, MONO_WORD)
  unimod = None if (none_ok and not any(cfg["unimod"])) else spell_vector(
      cfg["unimod"], uspell, UNIMOD_WORD)
  junimod = [(tuple(d), s) for d, s in cfg["junimod"]] or None
  kw = dict(lattice_sizes=sizes, units=case["units"], monotonicities=mono,
            unimodalities=unimod, joint_unimodalities=junimod,
            output_min=cfg["omin"], output_max=cfg["omax"],
            num_projection_iterations=case["iters"],
            monotonic_at_every_step=case["strict"])
  words = case.get("trust_spell", "ints") == "strings"
  for key, name in TRUST_KEYS:
    if cfg.get(key):
      kw[name] = [tuple(t[:2]) + ((TRUST_WORD[t[2]] if words else t[2]),)
                  if len(t) == 3 else tuple(t) for t in cfg[key]]
  iid, via = case["init_id"], case["via"]
  default_id = case.get("default_id", "omit")
  lib_id = iid
  if iid == "default":
    lib_id = ("random_uniform_or_linear_initializer" if default_id == "omit"
              else default_id)
  if via == "none":
    if iid != "default":
      kw["kernel_initializer"] = iid
    elif default_id != "omit":
      kw["kernel_initializer"] = default_id
  elif via == "create":
    kw["kernel_initializer"] = ll.create_kernel_initializer(
        lib_id, sizes, mono, cfg["omin"], cfg["omax"], unimod, junimod,
        init_min=case["init"][0], init_max=case["init"][1])
  else:
    allu = spell_vector([{"flat": 0, "mono": 0, "valley": 1, "peak": -1}[k]
                         for k in dim_kinds(cfg)], uspell, UNIMOD_WORD)
    if iid in RANDOM_IDS:
      kw["kernel_initializer"] = ll.RandomMonotonicInitializer(
          sizes, case["init"][0], case["init"][1], unimodalities=allu)
    else:
      kw["kernel_initializer"] = ll.LinearInitializer(
          sizes, spell_vector(cfg["mono"], mspell, MONO_WORD),
          case["init"][0], case["init"][1], unimodalities=allu)
  layer = tfl.layers.Lattice(**kw)
  layer.build(tf.TensorShape((None, n) if case["units"] == 1 else
                             (None, case["units"], n)))
  return layer


def _lattice_family(case):
  iid = case["init_id"]
  if iid in LINEAR_IDS:
    return "linear"
  if iid in RANDOM_IDS:
    return "random"
  cfg = case["cfg"]
  covers_all = (len(cfg["junimod"]) == 1 and
                set(cfg["junimod"][0][0]) == set(range(len(cfg["sizes"]))))
  if covers_all and case["via"] != "class":
    return "keras-uniform"     # documented fallback of the default id
  return "linear"


def _run_lattice(case, out):
  cfg = case["cfg"]
  sizes, units = list(cfg["sizes"]), case["units"]
  omin, omax = cfg["omin"], cfg["omax"]
  fam = _lattice_family(case)
  layer = _build_lattice(case)
  k32 = layer.kernel.numpy()
  kern = np.moveaxis(k32.astype(np.float64).reshape(sizes + [units]), -1, 0)
  lo, hi = (tuple(case["init"]) if case["via"] != "none" else
            default_range(omin, omax))
  constrained = bool(any(cfg["mono"]) or any(cfg["unimod"]) or cfg["junimod"])
  out.label("lattice", "lattice:init=" + fam + (
      "(default-id)" if case["init_id"] == "default" else ""),
            "lattice:via=" + case["via"], "lattice:shape=" + case["shape"],
            "lattice:bounds=" + _bounds_label(omin, omax),
            "lattice:units=%d" % units)
  if omin is None and omax is not None and omax <= 0:
    out.label("lattice:bounds=max<=0-alone")
  if omax is None and omin is not None and omin >= 1:
    out.label("lattice:bounds=min>=1-alone")
  if omax is not None and omax <= 0:
    out.label("lattice:negative-range")
  if 0.0 in (omin, omax):
    out.label("lattice:a-bound-is-0")
  spells = set()
  if any(cfg["mono"]) or not case["none_spelling"]:
    spells.add(case.get("mono_spell", "ints"))
  if any(cfg["unimod"]) or not case["none_spelling"] or case["via"] == "class":
    spells.add(case.get("unimod_spell", "ints"))
  for sp in sorted(spells - {"ints"}):
    out.label("lattice:spelling=" + sp)
  if case["init_id"] == "default" and case["via"] != "class" and case.get(
      "default_id", "omit") != "omit":
    out.label("lattice:default-id-by-name=" + case["default_id"])
  shaped_dims = [d for d, k in enumerate(dim_kinds(cfg))
                 if k in ("valley", "peak")]
  if any(sizes[d] >= 5 for d in shaped_dims):
    out.label("lattice:unimodal-dim-size>=5",
              "lattice:unimodal-dim-size=%s" % (
                  "odd" if any(sizes[d] in (5, 7) for d in shaped_dims)
                  else "even"))
  for key, _ in TRUST_KEYS:
    if cfg.get(key):
      out.label("lattice:trust=" + key)
  if _has_trusts(cfg) and case.get("trust_spell") == "strings" and (
      cfg.get("ew") or cfg.get("tz")):
    out.label("lattice:trust-direction-as-string")
  sig = dict(layer="lattice", init="default" if case["init_id"] == "default"
             else fam)
  if fam == "keras-uniform":
    sig["keras_random_uniform"] = True
  out.nontrivial = bool((constrained or omin is not None or omax is not None or
                         case["via"] != "none") and np.ptp(kern) > 0)
  out.checks += 1
  if k32.shape != (int(np.prod(sizes)), units) or not np.all(
      np.isfinite(kern)):
    out.violate("fresh kernel has shape %s / non-finite values" %
                (k32.shape,), kind="finite", **sig)
    return
  s_init = scale_of(lo, hi)
  tol = TOL_W * s_init

  # ---- documented shape of the initializer
  if fam == "linear":
    kinds = dim_kinds(cfg)
    if all(k == "flat" for k in kinds):
      kinds = ["mono"] * len(sizes)       # documented all-unconstrained case
      out.label("lattice:linear-all-unconstrained")
    dr = (hi - lo) / sum(k != "flat" for k in kinds)
    for d, kd in enumerate(kinds):
      got = np.moveaxis(np.diff(kern, axis=d + 1), d + 1, 0).reshape(
          sizes[d] - 1, -1)
      want = np.diff(profile(kd, sizes[d], dr))[:, None]
      out.checks += 1
      err = float(np.max(np.abs(got - want)))
      if err > tol:
        clause = {"flat": "constant", "mono": "linear"}.get(kd, "unimodal")
        out.violate(
            "linear initializer: along %s dimension %d (size %d) the steps "
            "differ from the documented profile by %.3g; line 0 = %s, "
            "documented steps %s" % (
                kd, d, sizes[d], err,
                np.round(np.moveaxis(kern[0], d, 0).reshape(
                    sizes[d], -1)[:, 0], 5).tolist(),
                np.round(want[:, 0], 5).tolist()),
            kind="shape-" + clause, **sig)
        return
    out.checks += 1
    if abs(kern.min() - lo) > tol or abs(kern.max() - hi) > tol:
      out.violate("linear initializer: kernel range [%r, %r] differs from the "
                  "initialisation range [%r, %r]" % (
                      float(kern.min()), float(kern.max()), lo, hi),
                  kind="init-range", **sig)
      return
  elif fam == "random":
    for d in range(len(sizes)):
      out.checks += 1
      dmin = float(np.min(np.diff(kern, axis=d + 1)))
      if dmin < 0:
        out.violate("random monotonic initializer: kernel decreases by %.3g "
                    "along dimension %d" % (-dmin, d), kind="random-order",
                    **sig)
        return
    out.checks += 1
    if kern.min() < lo - tol or kern.max() > hi + tol:
      out.violate("random monotonic initializer: kernel range [%r, %r] leaves "
                  "the initialisation range [%r, %r]" % (
                      float(kern.min()), float(kern.max()), lo, hi),
                  kind="init-range", **sig)
      return

  # ---- the layer's own monotonicity and bound constraints
  s_w = scale_of(kern, omin, omax)
  ok = True
  for d, m in enumerate(cfg["mono"]):
    if m:
      out.checks += 1
      dmin = float(np.min(np.diff(kern, axis=d + 1)))
      if dmin < -TOL_W * s_w:
        ok = False
        out.violate("fresh kernel decreases by %.3g along increasing "
                    "dimension %d" % (-dmin, d), kind="monotonicity", **sig)
        break
  out.checks += 1
  exc = _bound_excess(kern, omin, omax)
  if exc > TOL_W * s_w:
    ok = False
    out.violate("fresh kernel range [%r, %r] is outside the output bounds "
                "[%r, %r]" % (float(kern.min()), float(kern.max()), omin,
                              omax), kind="bounds", **sig)
  if _has_trusts(cfg):
    # float64 reference of the configured trust / dominance / joint
    # monotonicity inequalities (vlib.oracles rows), per unit
    full = dict(cfg)
    worst = {}
    for u in range(units):
      for famname, v in R.violation_by_family(
          full, kern[u], families=["ew", "tz", "mdom", "rdom", "jmono"]).items():
        if famname != "bounds":
          worst[famname] = max(worst.get(famname, 0.0), v)
    for famname in sorted(worst):
      out.checks += 1
      if worst[famname] > TOL_W * s_w:
        ok = False
        # mechanism of finding F-C10-5: the lattice initializers do not look at
        # trusts / dominances.  The linear one breaks a trapezoid trust whose
        # conditional dimension is monotone and a monotonic dominance whose
        # dominant dimension has more vertices than the weak one; the random
        # monotonic one may break any of them.
        ignored = bool(
            fam == "random" or
            (famname == "tz" and any(cfg["mono"][c] for _, c, _ in cfg["tz"]))
            or (famname == "mdom" and any(
                sizes[a] > sizes[b] for a, b in cfg["mdom"])))
        out.violate("fresh kernel violates the configured %s constraint by "
                    "%.3g (sizes %s, monotonicities %s, %s=%s)" % (
                        famname, worst[famname], sizes, cfg["mono"], famname,
                        cfg.get(famname)), kind="trust", family=famname,
                    initializer_ignores_constraint=ignored, **sig)
  if not ok:
    return
  _call_assert(layer, out, s_w, "lattice", **sig)
  if not any(cfg["unimod"]) and not cfg["junimod"] and not _has_trusts(cfg):
    _check_unchanged(layer.kernel, out, "lattice", "kernel", **sig)


# ---------------------------------------------------------------- PWL
def _run_pwl(case, out):
  import tensorflow as tf
  import tensorflow_lattice as tfl
  cfg = case["cfg"]
  kp = np.asarray(cfg["keypoints"], np.float64)
  units, mono, cyc = cfg["units"], cfg["mono"], cfg["cyclic"]
  omin, omax = cfg["omin"], cfg["omax"]
  init = case["init_id"]
  out.label("pwl", "pwl:" + init, "pwl:mono=%d" % mono,
            "pwl:bounds=" + _bounds_label(omin, omax))
  for flag, name in ((cyc, "cyclic"), (cfg["conv"] != 0, "convexity"),
                     (cfg["clamp_min"] or cfg["clamp_max"], "clamp"),
                     (omin is not None and omin == omax, "zero-width")):
    if flag:
      out.label("pwl:" + name)
  sig = dict(layer="pwl", init=init, cyclic=bool(cyc))
  kw = S.pwl_layer_kwargs(cfg)
  container = case.get("kp_container", "list")
  kp_arg = {"list": list, "tuple": tuple,
            "ndarray32": lambda v: np.asarray(v, np.float32),
            "ndarray64": lambda v: np.asarray(v, np.float64)}[container](
                cfg["keypoints"])
  kw["input_keypoints"] = kp_arg
  kp_type = case.get("kp_type", "fixed")
  if kp_type != "fixed":
    kw["input_keypoints_type"] = kp_type
  mono_arg = MONO_WORD[mono] if case.get("mono_spell") == "string" else mono
  kw["monotonicity"] = mono_arg
  if case.get("conv_spell") == "string":
    kw["convexity"] = CONV_WORD[cfg["conv"]]
  via = case.get("via", "name")
  if via == "object":
    from tensorflow_lattice.python import pwl_calibration_layer as pl
    kw["kernel_initializer"] = pl.UniformOutputInitializer(
        output_min=case["init"][0], output_max=case["init"][1],
        monotonicity=mono_arg,
        keypoints=None if init == "equal_heights" else (
            kp_arg[:-1] if cyc else kp_arg))
  else:
    kw["kernel_initializer"] = init
  out.label("pwl:via=" + via, "pwl:units=%d" % units)
  if container != "list":
    out.label("pwl:keypoints-as=" + container)
  if kp_type != "fixed":
    out.label("pwl:" + kp_type)
  if case.get("mono_spell") == "string" or case.get("conv_spell") == "string":
    out.label("pwl:spelling=strings")
  if float(np.min(np.diff(kp))) < 5e-3:
    out.label("pwl:keypoint-gap<5e-3")
    if init == "equal_slopes":
      out.label("pwl:keypoint-gap<5e-3,equal_slopes")
  if 0.0 in (omin, omax):
    out.label("pwl:a-bound-is-0")
  layer = tfl.layers.PWLCalibration(**kw)
  layer.build(tf.TensorShape((None, units)))
  k32 = layer.kernel.numpy()
  kern = k32.astype(np.float64)
  rows = len(kp) - (1 if cyc else 0)
  out.checks += 1
  if kern.shape != (rows, units) or not np.all(np.isfinite(kern)):
    out.violate("fresh kernel has shape %s / non-finite values" %
                (kern.shape,), kind="finite", **sig)
    return
  a, b = (tuple(case["init"]) if case.get("via") == "object" else
          pwl_init_bounds(omin, omax))
  out.nontrivial = bool(b > a)
  sgn = -1.0 if mono == -1 else 1.0
  start, end = (b, a) if mono == -1 else (a, b)
  lengths = np.diff(kp)[:rows - 1]
  if init == "equal_heights":
    heights = np.full(rows - 1, sgn * (b - a) / (rows - 1))
  else:
    heights = sgn * (b - a) * lengths / lengths.sum()
  s_w = scale_of(kern, a, b)
  tol = TOL_W * s_w
  y = np.cumsum(kern, axis=0)
  # runs from the start bound to the end bound, in the configured direction
  out.checks += 2
  if np.max(np.abs(y[0] - start)) > tol or np.max(np.abs(y[-1] - end)) > tol:
    out.violate("%s: keypoint outputs run from %s to %s instead of from %r to "
                "%r" % (init, y[0].tolist(), y[-1].tolist(), start, end),
                kind="init-range", mono=mono, **sig)
    return
  if np.min(sgn * kern[1:]) < -tol:
    out.violate("%s: heights %s do not all run in direction %+d" % (
        init, kern[1:, 0].tolist(), int(sgn)), kind="direction", mono=mono,
                **sig)
    return
  out.checks += 1
  err = float(np.max(np.abs(kern[1:] - heights[:, None])))
  if err > tol:
    out.violate("%s: heights %s differ from the documented %s by %.3g" % (
        init, kern[1:, 0].tolist(), np.round(heights, 6).tolist(), err),
                kind="equal-heights" if init == "equal_heights" else
                "equal-slopes", mono=mono, **sig)
    return

  # ---- the layer's own constraints on the keypoint outputs
  yy = np.concatenate([y, y[:1]], axis=0) if cyc else y
  ok = True
  out.checks += 1
  if _bound_excess(yy, omin, omax) > tol:
    ok = False
    out.violate("fresh keypoint outputs [%r, %r] are outside the output "
                "bounds [%r, %r]" % (float(yy.min()), float(yy.max()), omin,
                                     omax), kind="bounds", mono=mono, **sig)
  if mono != 0:
    out.checks += 1
    if np.min(mono * np.diff(yy, axis=0)) < -tol:
      ok = False
      out.violate("fresh keypoint outputs are not monotone (%+d)" % mono,
                  kind="monotonicity", mono=mono, **sig)
    lo_end, hi_end = (yy[0], yy[-1]) if mono == 1 else (yy[-1], yy[0])
    out.checks += 1
    if (cfg["clamp_min"] and np.max(np.abs(lo_end - omin)) > tol) or (
        cfg["clamp_max"] and np.max(np.abs(hi_end - omax)) > tol):
      ok = False
      out.violate("fresh keypoint outputs %s..%s do not reach the clamped "
                  "bound(s)" % (lo_end.tolist(), hi_end.tolist()),
                  kind="clamp", mono=mono, **sig)
  if not ok:
    return
  _call_assert(layer, out, s_w, "pwl", mono=mono, **sig)
  if cfg["conv"] == 0:
    _check_unchanged(layer.kernel, out, "pwl", "kernel", mono=mono, **sig)


# ---------------------------------------------------------------- KFL
def _run_kfl(case, out):
  import tensorflow as tf
  import tensorflow_lattice as tfl
  from tensorflow_lattice.python import kronecker_factored_lattice_layer as kl
  cfg = case["cfg"]
  size, d, units = cfg["size"], cfg["dims"], cfg["units"]
  omin, omax = cfg["omin"], cfg["omax"]
  mspell = cfg.get("mono_spell", "ints")
  mono = spell_monotonicities(cfg["mono"], mspell)
  kw = dict(lattice_sizes=size, units=units, num_terms=cfg["terms"],
            monotonicities=mono, output_min=omin, output_max=omax,
            clip_inputs=cfg["clip"])
  if case["via"] == "create":
    kw["kernel_initializer"] = kl.create_kernel_initializer(
        case.get("kernel_id") or "kfl_random_monotonic_initializer", mono,
        omin, omax, init_min=case["init"][0], init_max=case["init"][1])
  elif case["via"] == "class":
    kw["kernel_initializer"] = kl.KFLRandomMonotonicInitializer(
        mono, init_min=case["init"][0], init_max=case["init"][1],
        seed=case.get("init_seed_arg"))
  elif case.get("kernel_id"):
    kw["kernel_initializer"] = case["kernel_id"]
  if case.get("scale_id"):
    kw["scale_initializer"] = case["scale_id"]
  layer = tfl.layers.KroneckerFactoredLattice(**kw)
  build_kfl(layer, cfg)
  out.label("kfl", "kfl:mono=%s" % ("none" if not any(cfg["mono"]) else
                                    "all" if all(cfg["mono"]) else "some"),
            "kfl:bounds=" + _bounds_label(omin, omax), "kfl:via=" + case["via"],
            "kfl:terms=%d" % cfg["terms"], "kfl:units=%d" % units,
            "kfl:size=%d" % size, "kfl:dims=%d" % d,
            "kfl:input=" + cfg.get("xfmt", "tensor"))
  if mspell != "ints":
    out.label("kfl:spelling=" + mspell)
  if case.get("kernel_id") and case["via"] != "class":
    out.label("kfl:kernel-id-by-name=" + case["kernel_id"])
  if case.get("scale_id"):
    out.label("kfl:scale-id-by-name=" + case["scale_id"])
  if case["via"] == "class" and case.get("init_seed_arg") is not None:
    out.label("kfl:initializer-seed-argument")
  if units > 1 and cfg.get("unit_shuffle"):
    out.label("kfl:units-get-different-points")
  if omin is not None and omax is not None and omax - omin < 0.01:
    out.label("kfl:bounds-width=1e-3")
  mono = mono if any(cfg["mono"]) else None
  sig = dict(layer="kfl", bounds=_bounds_label(omin, omax),
             mono=bool(mono))
  out.nontrivial = bool(mono or omin is not None or omax is not None)
  kern = layer.kernel.numpy().astype(np.float64)
  out.checks += 1
  if kern.shape != (1, size, units * d, cfg["terms"]) or not np.all(
      np.isfinite(kern)):
    out.violate("fresh kernel has shape %s / non-finite values" %
                (kern.shape,), kind="finite", **sig)
    return
  if case["init"] is not None:
    out.checks += 1
    lo, hi = case["init"]
    if kern.min() < lo - TOL_W or kern.max() > hi + TOL_W:
      out.violate("fresh kernel range [%r, %r] leaves the explicit "
                  "initialisation range [%r, %r]" % (
                      float(kern.min()), float(kern.max()), lo, hi),
                  kind="init-range", **sig)
      return
  # the function on the full half-integer grid
  pts = np.array(list(itertools.product(
      *[np.arange(0, size - 0.5, 0.5)] * d)), np.float32)
  inp, restore = format_inputs(cfg, pts)
  out.checks += 3
  try:
    yv = restore(layer(inp).numpy())
  except OutputShape as e:
    out.violate(str(e), kind="finite", **sig)
    return
  if yv.shape != (len(pts), units) or not np.all(np.isfinite(yv)):
    out.violate("fresh layer output has shape %s / non-finite values" %
                (yv.shape,), kind="finite", **sig)
    return
  sc = max(1.0, float(np.max(np.abs(yv))))
  yg = yv.reshape([2 * size - 1] * d + [units])
  ok = True
  for dd, m in enumerate(cfg["mono"]):
    if m:
      drop = float(np.max(-np.diff(yg, axis=dd)))
      if drop > TOL_MONO_F * sc:
        ok = False
        out.violate("fresh layer output decreases by %.3g along increasing "
                    "input %d" % (drop, dd), kind="monotonicity", **sig)
        break
  exc = _bound_excess(yv, omin, omax)
  if exc > 1e-5 * max(1.0, abs(omin or 0), abs(omax or 0)):
    ok = False
    out.violate("fresh layer outputs [%r, %r] are outside the output bounds "
                "[%r, %r]" % (float(yv.min()), float(yv.max()), omin, omax),
                kind="bounds", **sig)
  if not ok:
    return
  _call_assert(layer, out, scale_of(kern, omin, omax), "kfl", **sig)
  _check_unchanged(layer.kernel, out, "kfl", "kernel", **sig)
  _check_unchanged(layer.scale, out, "kfl", "scale", **sig)


# ---------------------------------------------------------------- categorical
def _run_cat(case, out):
  import tensorflow as tf
  import tensorflow_lattice as tfl
  nb, units = case["num_buckets"], case["units"]
  omin, omax, pairs = case["omin"], case["omax"], case["pairs"]
  init = case["init_id"]
  as_list = case.get("pair_container") == "list"
  kw = dict(num_buckets=nb, units=units, output_min=omin, output_max=omax,
            monotonicities=[list(p) if as_list else tuple(p)
                            for p in pairs] or None)
  if init == "keras-object":
    import tf_keras as keras
    lo_b, hi_b = default_range(omin, omax)
    kw["kernel_initializer"] = keras.initializers.RandomUniform(
        lo_b - 1.0, hi_b + 1.0, seed=case["seed"] % 1000)
  else:
    kw["kernel_initializer"] = init
  if case.get("default_input_value") is not None:
    kw["default_input_value"] = case["default_input_value"]
  layer = tfl.layers.CategoricalCalibration(**kw)
  layer.build(tf.TensorShape((None, units)))
  bl = _bounds_label(omin, omax)
  out.label("cat", "cat:" + init, "cat:bounds=" + bl,
            "cat:pairs" if pairs else "cat:no-pairs")
  if pairs:
    out.label("cat:pairs,init=%s,bounds=%s" % (init, bl))
    if len(pairs) >= 4:
      out.label("cat:pairs>=4")
  if case.get("default_input_value") is not None:
    out.label("cat:default_input_value")
  if 0.0 in (omin, omax):
    out.label("cat:a-bound-is-0")
  sig = dict(layer="categorical", init=init, bounds=bl)
  kern = layer.kernel.numpy().astype(np.float64)
  out.nontrivial = bool((pairs or bl != "none") and (
      np.ptp(kern) > 0 or init == "constant"))
  out.checks += 1
  if kern.shape != (nb, units) or not np.all(np.isfinite(kern)):
    out.violate("fresh kernel has shape %s / non-finite values" %
                (kern.shape,), kind="finite", **sig)
    return
  s_w = scale_of(kern, omin, omax)
  tol = TOL_W * s_w
  ok = True
  if bl == "both" and init == "constant":
    out.checks += 1
    mid = (omin + omax) / 2.0
    if np.max(np.abs(kern - mid)) > tol:
      ok = False
      out.violate("constant initializer: kernel %s differs from "
                  "(output_min + output_max) / 2 = %r" % (
                      kern[:, 0].tolist(), mid), kind="constant", **sig)
  out.checks += 1
  if _bound_excess(kern, omin, omax) > tol:
    ok = False
    out.violate("fresh kernel range [%r, %r] is outside the output bounds "
                "[%r, %r]" % (float(kern.min()), float(kern.max()), omin,
                              omax), kind="bounds", **sig)
  for i, j in pairs:
    out.checks += 1
    if np.max(kern[i] - kern[j]) > tol:
      ok = False
      out.violate("fresh kernel has output(%d) > output(%d) although the pair "
                  "(%d, %d) is monotonic: %s" % (i, j, i, j,
                                                 kern[:, 0].tolist()),
                  kind="monotonicity", **sig)
      break
  if not ok:
    return
  _call_assert(layer, out, s_w, "cat", **sig)
  _check_unchanged(layer.kernel, out, "cat", "kernel", **sig)


# ---------------------------------------------------------------- entry
def run_case(case):
  import tensorflow as tf
  out = Outcome()
  tf.random.set_seed(case["seed"])
  np.random.seed(case["seed"] % (2 ** 32))
  {"lattice": _run_lattice, "pwl": _run_pwl, "kfl": _run_kfl,
   "cat": _run_cat}[case["kind"]](case, out)
  return out
