"""C17 - ensemble structures use every feature, fill each lattice, respect
monotone slots and are deterministic in the seed.

Oracle: exact combinatorial predicates, clause by clause from the statement.

  RTL layer (tfl.layers.RTL, observed behaviourally and through _rtl_structure)
    rank        every lattice receives exactly lattice_rank inputs
    count       the arrangement has exactly num_lattices lattices
    coverage    every input column is wired to at least one lattice slot
    balance     usage counts of the input columns differ by at most one
    mono-wiring an input supplied under 'increasing' only arrives at lattice
                dimensions whose monotonicity constraint is set
    label       with separate_outputs, a lattice's output is under 'increasing'
                exactly when the lattice receives an 'increasing' input
    outputs     without separate_outputs the documented (batch, num_lattices)
                output holds every lattice's output exactly once, the
                averaged (batch, 1) output their mean
    determinism two fresh layers with equal arguments are wired identically
                (the global numpy / TF generators are disturbed in between)
  random ensemble (premade_lib.set_random_lattice_ensemble)
    count, rank, coverage, no feature twice in a lattice, determinism
  Crystals prefitting cover (premade_lib.construct_prefitting_model_config)
    every feature pair is together in some prefitting lattice, no prefitting
    lattice exceeds lattice_rank, names an unknown feature or repeats one,
    determinism
  Crystals ensemble (premade_lib.set_crystals_lattice_ensemble on a real
  prefitting premade.CalibratedLatticeEnsemble with assigned lattice kernels)
    count, rank, coverage, determinism

The RTL wiring is observed without any knowledge of the layer's flattening
order: every input column carries its own constant value (j+1)/(N+1), the call
methods of tfl.layers.Lattice / KroneckerFactoredLattice are wrapped for the
duration of the case, the wrapper runs the real call, records the values that
arrive at every lattice dimension together with the sub-layer's public
`monotonicities`, and replaces the result by a per-lattice identifier, so the
output dict of the RTL layer shows where each lattice's output was routed.
"""
import copy
import itertools

import numpy as np
from hypothesis import strategies as st

from vlib import strategies as S
from vlib.harness import Outcome

ID = "C17"
TITLE = ("Ensemble structures use every feature, fill each lattice, respect "
         "monotone slots")
RULE = ("Hypothesis draws an entry point and a layout. RTL (about a third of "
        "the cases): 'unconstrained' and/or 'increasing' inputs, each a single "
        "(batch, D) tensor or a list of grouped multi-unit tensors, either "
        "dict key order, or a plain tensor; 1-12 input columns (thorough 40), "
        "lattice_rank 1-4 (thorough 5), num_lattices from the smallest count "
        "with enough slots (num_lattices*lattice_rank >= columns) up to many "
        "repeats, lattice_size 2-3, separate/joint/averaged outputs, "
        "all_vertices or kronecker_factored, group avoidance on/off, any seed. "
        "Random ensemble: 1-12 feature names (thorough 30) given by feature "
        "configs or by feature_names, rank <= number of features, enough "
        "slots. Crystals cover: 3-12 features (thorough 25), 2 <= rank < "
        "features. Crystals (about 5%): 3-6 features (thorough 8), a real "
        "prefitting model whose lattice kernels are assigned generated values "
        "(independent random kinds and scales, shared, additive = zero "
        "torsion, few-valued, and at a low rate degenerate constant / "
        "one-feature kernels plus four explicit examples = known finding "
        "F-C17-1 and its two sibling symptoms). "
        "Non-trivial: at least two lattices and two features (so the "
        "arrangement is not forced); distinct by SHA-1 of the case.")
NT_FLOOR = 0.6
FUZZ = {"thorough": 15000}   # atheris executions per shard (thorough tier)
BUDGET = {"quick": 350, "thorough": 6000}
ASSUMPTIONS = [
    "enough slots: num_lattices * lattice_rank >= number of inputs (RTL and "
    "the premade ensembles raise / cannot place the features otherwise)",
    "random ensemble: lattice_rank <= number of features (a lattice cannot hold "
    "lattice_rank distinct features otherwise); Crystals: 2 <= lattice_rank < "
    "number of features (documented ValueError otherwise)",
    "the sub-lattice layers' public `monotonicities` attribute states which "
    "dimensions are constrained (C01/C12 judge the constraint itself)",
]
TECHNIQUE = ("property-based testing (Hypothesis): generated layouts, seeds and "
             "prefitting kernels against exact combinatorial predicates; RTL "
             "wiring observed behaviourally with identifying input values and "
             "a recording wrapper around the sub-lattice call")
LEVEL_TEXT = ("Generated-input exploration of the three ensemble builders: "
              "thousands of layouts (monotone/unconstrained mixes, grouped "
              "multi-unit inputs, tight and repeated slot counts, seeds) per "
              "run; every arrangement is checked for lattice count, exactly "
              "lattice_rank inputs per lattice, coverage of all features, "
              "balanced repeats (RTL), absence of repeats inside a lattice "
              "(random), pair coverage, lattice size <= lattice_rank and known, "
              "unrepeated names (Crystals prefitting cover), monotone "
              "wiring, output labels and the joint / averaged output holding "
              "every lattice output once (RTL, observed through the real call) "
              "and equality of two independent builds with the same seed. "
              "Catches index/monotonicity mis-wiring, truncation, unseeded "
              "randomness and off-by-one mistakes; shows no absence.")
LEVEL_NOTE = ("Trusted: TensorFlow/NumPy, the harness, the sub-lattice layers' "
              "`monotonicities` attribute. Sizes bounded as stated in the "
              "rule. Crystals failures on degenerate prefitting kernels are "
              "reported with the narrow kinds crystals-nan (F-C17-1), "
              "crystals-inf and crystals-assert. The upper bound lattice_rank "
              "on a prefitting lattice is read from the config field "
              "('number of features in each lattice'); a prefitting lattice "
              "whose kernel does not have 2**features weights is reported "
              "(crystals-prefit-shape) because the library's extraction reads "
              "it as a size-2 lattice.")

ENTRIES = (["rtl"] * 12 + ["random"] * 14 + ["cover"] * 10 + ["crystals"] * 5)
KMODES = (["random"] * 10 + ["shared"] * 2 + ["additive"] * 3 + ["ties"] * 2 +
          ["degenerate", "one-feature"])
RANDOM_KINDS = ["normal", "normal", "uniform", "ints", "sorted", "antisorted",
                "spike"]

# Explicit Crystals examples (drawn at a low rate so that every quick run
# replays them): the three symptoms of the fragile use allocation in
# premade_lib._get_final_crystal_lattices on degenerate importance scores.
# Prefitting cover for 3 features / rank 2 / seed 0: [f1 f2] [f0 f2] [f0 f1];
# for 4 features / rank 3 / seed 0: [f0 f2 f3] [f0 f1 f2] [f1 f3].
CATALOG = [
    # F-C17-1: a constant prefitting kernel (0/0 in the min-max normalisation).
    {"entry": "crystals", "names": ["f0", "f1", "f2"], "via": "configs",
     "rank": 2, "num_lattices": 2, "seed": 0, "aux": 0, "kmode": "explicit",
     "kernels": [[1.0, 1.0, 1.0, 1.0], [0.0, 1.0, 2.0, 4.0],
                 [0.0, 1.0, 2.0, 4.0]]},
    # F-C17-1: every lattice depends on one feature only; the remaining
    # importance scores are all zero (0/0 in the use allocation).
    {"entry": "crystals", "names": ["f0", "f1", "f2"], "via": "configs",
     "rank": 2, "num_lattices": 2, "seed": 0, "aux": 0, "kmode": "explicit",
     "kernels": [[0.0, 0.0, 1.0, 1.0], [0.0, 0.0, 1.0, 1.0],
                 [0.0, 0.0, 1.0, 1.0]]},
    # AssertionError: the per-feature cap leaves uses that only zero-score
    # features could take.
    {"entry": "crystals", "names": ["f0", "f1", "f2", "f3"], "via": "configs",
     "rank": 3, "num_lattices": 3, "seed": 0, "aux": 0, "kmode": "explicit",
     "kernels": [[0.0, 0.0, 0.0, 0.0, 0.0, 1.0, 0.0, 1.0],
                 [0.0, 0.0, 0.0, 0.0, 1.0, 1.0, 1.0, 1.0],
                 [0.0, 1.0, 0.0, 1.0001]]},
    # OverflowError: the float32 running sum of the scores cancels to 0 while
    # a tiny positive score is left (x/0 = inf).
    {"entry": "crystals", "names": ["f0", "f1", "f2", "f3"], "via": "configs",
     "rank": 3, "num_lattices": 5, "seed": 0, "aux": 0, "kmode": "explicit",
     "kernels": [[0.0, 0.0, 0.0, 0.0, 1.0, 1.0, 1.0, 1.0],
                 [0.0, 0.0, 1.0, 1.0, 0.0, 0.0, 1.0, 1.0],
                 [0.0, 0.0, 1.0, 1.0001]]},
]


# --------------------------------------------------------------------------
# generators
def _ceil_div(a, b):
  return -(-a // b)


def _uni(lo, hi):
  """Uniform small integer (st.integers over-weights the lower end)."""
  return st.sampled_from(list(range(lo, hi + 1)))


@st.composite
def _num_lattices(draw, n, rank, big):
  """A lattice count with enough slots: count * rank >= n."""
  lo = _ceil_div(n, rank)
  mode = draw(st.sampled_from(["tight", "few-more", "few-more", "repeats",
                               "many"]))
  if mode == "tight":
    return lo
  if mode == "few-more":
    return lo + draw(_uni(0, 3))
  if mode == "repeats":
    return max(lo, _ceil_div(n * draw(_uni(2, 3)), rank) +
               draw(_uni(-1, 1)))
  return lo + draw(_uni(0, 40 if big else 12))


@st.composite
def _input_spec(draw, max_cols):
  """One RTL dict value: a (batch, D) tensor or a list of grouped tensors."""
  if draw(st.booleans()):
    return {"form": "tensor", "units": [1] * draw(_uni(1, max_cols))}
  units, left = [], max_cols
  for _ in range(draw(_uni(1, 5))):
    if left <= 0:
      break
    u = draw(st.sampled_from([1, 1, 2, 3, 4, 6]))
    u = min(u, left)
    units.append(u)
    left -= u
  return {"form": "list", "units": units}


@st.composite
def _rtl_case(draw, tier):
  big = tier == "thorough"
  max_cols = 40 if big else 12
  mix = draw(st.sampled_from(["both", "both", "both", "unc", "inc", "plain"]))
  unc = inc = None
  if mix == "both":
    a = draw(_uni(1, max_cols - 1))
    unc = draw(_input_spec(a))
    inc = draw(_input_spec(max(1, max_cols - sum(unc["units"]))))
  elif mix == "unc":
    unc = draw(_input_spec(max_cols))
  elif mix == "inc":
    inc = draw(_input_spec(max_cols))
  else:
    unc = {"form": "tensor", "units": [1] * draw(_uni(1, max_cols))}
  n = sum((unc or {"units": []})["units"]) + sum(
      (inc or {"units": []})["units"])
  rank = draw(st.sampled_from([1, 2, 2, 3, 3, 4] + ([4, 5] if big else [])))
  param = draw(st.sampled_from(["all_vertices"] * 4 + ["kronecker_factored"]))
  separate = draw(st.booleans())
  return {
      "entry": "rtl", "unc": unc, "inc": inc, "plain": mix == "plain",
      "order": draw(st.sampled_from(["ui", "iu"])),
      "rank": rank,
      "num_lattices": draw(_num_lattices(n, rank, big)),
      "lattice_size": draw(st.sampled_from([2, 2, 2, 3])),
      "separate": separate,
      # drawn independently: the flag is documented as "ignored when
      # separate_outputs is True"
      "average": draw(st.booleans()),
      "avoid": draw(st.sampled_from([True, True, False])),
      "param": param,
      "interp": "hypercube" if param != "all_vertices" else draw(
          st.sampled_from(["hypercube", "simplex"])),
      "seed": draw(st.one_of(_uni(0, 50), S.seeds)),
      "batch": draw(_uni(1, 2)),
      "aux": draw(S.seeds),
  }


_PLAIN_NAME = st.text(alphabet="abcxyz_0123456789", min_size=1, max_size=6)


@st.composite
def _names(draw, n, keras_safe):
  style = draw(st.sampled_from(["f", "f", "text", "nested"]))
  if style == "f":
    return ["f%d" % i for i in range(n)]
  if style == "nested":
    # names that are prefixes of each other
    return ["a" + "_b" * i for i in range(n)]
  names = draw(st.lists(_PLAIN_NAME, min_size=n, max_size=n, unique=True))
  if keras_safe:
    names = ["n" + s for s in names]
  return names


@st.composite
def _ensemble_case(draw, tier, entry):
  big = tier == "thorough"
  if entry == "crystals" and draw(_uni(0, 5)) == 0:
    return copy.deepcopy(draw(st.sampled_from(CATALOG)))
  if entry == "random":
    n = draw(_uni(1, 30 if big else 12))
    rank = min(n, draw(st.sampled_from(
        [1, 2, 2, 3, 3, 4, 5] + ([6] if big else []))))
  elif entry == "cover":
    n = draw(_uni(3, 25 if big else 12))
    rank = min(n - 1, draw(st.sampled_from(
        [2, 2, 3, 3, 4, 5, 6] + ([7, 8] if big else []))))
  else:
    n = draw(_uni(3, 8 if big else 6))
    rank = min(n - 1, draw(st.sampled_from(
        [2, 2, 3, 3, 4] + ([5] if big else []))))
  names = draw(_names(n, keras_safe=entry == "crystals"))
  # via: "configs" = names taken from model_config.feature_configs;
  # "names" = feature_names=... given (for random without feature configs);
  # "names+configs" = feature_names given together with feature configs that
  # are ordered differently and (random / cover) describe extra features too:
  # the documented rule is that feature_names wins.
  via = draw(st.sampled_from(["configs", "configs", "names", "names+configs"]))
  extra = 0
  if via == "names+configs" and entry != "crystals":
    extra = draw(_uni(0, 3))
  case = {
      "entry": entry,
      "names": names,
      "via": via,
      "extra": extra,
      "cfg_order": draw(S.seeds),
      "rank": rank,
      "num_lattices": draw(_num_lattices(n, rank, big and entry != "crystals")),
      "seed": draw(st.one_of(_uni(0, 50), S.seeds)),
      "aux": draw(S.seeds),
  }
  # feature options (every one must leave the arrangement rules untouched;
  # the prefitting config has to trim sizes / unimodality / trust / dominance):
  # per feature one of plain, categorical, size3, unimodal, monotone; plus at
  # most one dominance and one trust pair between monotone features.
  deco = draw(st.sampled_from(["plain", "plain", "mixed", "mixed", "pairs"]))
  kinds = ["plain"] * n
  pairs = {"dominance": None, "trust": None}
  if deco != "plain":
    kinds = [draw(st.sampled_from(["plain", "categorical", "size3",
                                   "unimodal", "monotone"])) for _ in range(n)]
  if deco == "pairs" and n >= 3:
    a, b, c = draw(st.permutations(list(range(n))))[:3]
    kinds[a] = kinds[b] = "monotone"
    pairs["dominance"] = [a, b]
    pairs["trust"] = [a, c, draw(st.sampled_from(["edgeworth", "trapezoid"]))]
    if kinds[c] == "categorical":
      kinds[c] = "plain"
  case["feature_kinds"] = kinds
  case["pairs"] = pairs
  if entry == "crystals":
    case["kmode"] = draw(st.sampled_from(KMODES))
    case["kernel"] = {"kind": draw(st.sampled_from(RANDOM_KINDS)),
                      "seed": draw(S.seeds),
                      "scale": draw(st.sampled_from(S.SCALES))}
  return case


@st.composite
def _case(draw, tier):
  entry = draw(st.sampled_from(ENTRIES))
  if entry == "rtl":
    return draw(_rtl_case(tier))
  return draw(_ensemble_case(tier, entry))


def strategy(tier):
  return _case(tier)


# --------------------------------------------------------------------------
# helpers shared by the entries
def _disturb_global_rngs(aux):
  import tensorflow as tf
  np.random.seed(aux % (2**31))
  np.random.rand(1 + aux % 7)
  tf.random.set_seed(aux % (2**31))


def _slack_label(slots, n):
  if slots == n:
    return "slots:tight"
  if slots < 2 * n:
    return "slots:<2x"
  return "slots:>=2x"


def _seed_label(seed):
  return "seed:small" if seed <= 50 else "seed:large"


# --------------------------------------------------------------------------
# RTL
class _Spy(object):
  """Wraps the call methods of the sub-lattice layer classes."""

  def __init__(self):
    self.records = []
    self.next_id = 0
    self._saved = []

  def __enter__(self):
    import tensorflow as tf
    import tensorflow_lattice as tfl
    spy = self

    def wrap(orig):
      def call(layer, inputs):
        real = orig(layer, inputs)
        x = np.asarray(inputs.numpy(), np.float64)
        units = int(real.shape[-1])
        base = spy.next_id
        spy.next_id += units
        spy.records.append({"mono": layer.monotonicities, "x": x,
                            "units": units, "base": base,
                            "cls": type(layer).__name__})
        ids = tf.constant(np.arange(base, base + units), dtype=real.dtype)
        return tf.zeros_like(real) + ids[None, :]
      return call

    for cls in (tfl.layers.Lattice, tfl.layers.KroneckerFactoredLattice):
      self._saved.append((cls, cls.call))
      cls.call = wrap(cls.call)
    return self

  def __exit__(self, *exc):
    for cls, orig in self._saved:
      cls.call = orig
    return False


def _is_mono(m):
  return m in (1, "increasing") or (
      not isinstance(m, str) and m is not None and int(m) == 1)


def _rtl_sources(case):
  """My own numbering of the input columns: (key, group, unit) in the order
  unconstrained then increasing.  Returns list of dicts."""
  src = []
  for key, spec in (("unconstrained", case["unc"]), ("increasing", case["inc"])):
    if spec is None:
      continue
    for g, u in enumerate(spec["units"]):
      for k in range(u):
        src.append({"key": key, "group": (key, g), "unit": k,
                    "inc": key == "increasing"})
  return src


def _rtl_input(case, src, tf):
  n = len(src)
  val = [(j + 1.0) / (n + 1.0) for j in range(n)]
  b = case["batch"]
  parts = {}
  j = 0
  for key, spec in (("unconstrained", case["unc"]), ("increasing", case["inc"])):
    if spec is None:
      continue
    tensors = []
    for u in spec["units"]:
      cols = np.tile(np.array(val[j:j + u], np.float32)[None, :], (b, 1))
      tensors.append(cols)
      j += u
    if spec["form"] == "tensor":
      parts[key] = tf.constant(np.concatenate(tensors, axis=1))
    else:
      parts[key] = [tf.constant(t) for t in tensors]
  if case["plain"]:
    return parts["unconstrained"]
  keys = ["unconstrained", "increasing"] if case["order"] == "ui" else [
      "increasing", "unconstrained"]
  return {k: parts[k] for k in keys if k in parts}


def _rtl_observe(case, src):
  """Builds a fresh RTL layer, calls it once; returns the observed wiring."""
  import tensorflow as tf
  import tensorflow_lattice as tfl
  kw = {}
  if case["param"] == "kronecker_factored":
    kw["kernel_initializer"] = "kfl_random_monotonic_initializer"
  layer = tfl.layers.RTL(
      num_lattices=case["num_lattices"], lattice_rank=case["rank"],
      lattice_size=case["lattice_size"], separate_outputs=case["separate"],
      average_outputs=case["average"], random_seed=case["seed"],
      avoid_intragroup_interaction=case["avoid"],
      parameterization=case["param"], interpolation=case["interp"], **kw)
  x = _rtl_input(case, src, tf)
  with _Spy() as spy:
    y = layer(x)
  n = len(src)
  lattices = []      # per lattice: dict(id, sources, mono)
  problems = []
  for rec in spy.records:
    xx = rec["x"]
    if xx.ndim == 2:
      xx = xx[:, None, :]
    mono = [_is_mono(m) for m in (rec["mono"] or [0] * xx.shape[-1])]
    for u in range(xx.shape[1]):
      raw = xx[0, u, :] * (n + 1.0)
      ids = np.rint(raw).astype(int) - 1
      if np.any(np.abs(raw - np.rint(raw)) > 1e-3) or np.any(ids < 0) or np.any(
          ids >= n):
        problems.append("lattice %d receives values %r that are no input "
                        "column" % (rec["base"] + u, xx[0, u, :].tolist()))
        ids = np.clip(ids, 0, n - 1)
      lattices.append({"id": rec["base"] + u, "sources": [int(i) for i in ids],
                       "mono": mono, "units_in_layer": xx.shape[1]})
  routed = None
  joint = None
  if not case["separate"]:
    if isinstance(y, dict) or not hasattr(y, "numpy"):
      problems.append("separate_outputs=False returned %s, not a tensor" %
                      type(y).__name__)
    else:
      joint = np.asarray(y.numpy(), np.float64)
  if case["separate"]:
    routed = {}
    if not isinstance(y, dict):
      problems.append("separate_outputs=True returned %s, not a dict" %
                      type(y).__name__)
    else:
      for key, t in y.items():
        routed[str(key)] = [int(round(v)) for v in
                            np.asarray(t.numpy(), np.float64)[0].tolist()]
  structure = getattr(layer, "_rtl_structure", None)
  if structure is not None:
    structure = [[[int(m) for m in monos], [[int(i) for i in lat]
                                            for lat in lats]]
                 for monos, lats in structure]
  return {"lattices": lattices, "routed": routed, "structure": structure,
          "joint": None if joint is None else joint.tolist(),
          "problems": problems}


def _run_rtl(case, out):
  src = _rtl_sources(case)
  n, rank, nl = len(src), case["rank"], case["num_lattices"]
  grouped = any(len(set(s["unit"] for s in src if s["group"] == g)) > 1
                for g in set(s["group"] for s in src))
  mix = ("plain-tensor" if case["plain"] else
         "inc+unc" if case["unc"] and case["inc"] else
         "inc-only" if case["inc"] else "unc-only")
  forms = sorted(set(sp["form"] for sp in (case["unc"], case["inc"]) if sp))
  out.label("entry:rtl", "rtl:" + mix, "rtl:form:" + "+".join(forms),
            "rtl:multi-unit-groups" if grouped else "rtl:single-unit-groups",
            "rtl:" + _slack_label(nl * rank, n),
            "rtl:separate+average-flag" if case["separate"] and case["average"]
            else "rtl:separate" if case["separate"] else
            "rtl:averaged" if case["average"] else "rtl:joint",
            "rtl:" + case["param"], "rtl:rank:%d" % rank,
            "rtl:avoid" if case["avoid"] else "rtl:no-avoid",
            "rtl:dict-order:" + case["order"], "rtl:" + _seed_label(case["seed"]))
  out.nontrivial = bool(nl >= 2 and n >= 2)

  _disturb_global_rngs(case["aux"])
  a = _rtl_observe(case, src)
  for p in a["problems"]:
    out.violate(p, kind="rtl-observation", entry="rtl")
  if a["problems"]:
    return

  lats = a["lattices"]
  # count
  out.checks += 1
  if len(lats) != nl:
    out.violate("RTL evaluates %d lattices, num_lattices=%d" % (len(lats), nl),
                kind="lattice-count", entry="rtl")
  # rank
  out.checks += 1
  bad = [l for l in lats if len(l["sources"]) != rank or len(l["mono"]) != rank]
  if bad:
    out.violate("lattice %d receives %d inputs (%d monotonicity slots), "
                "lattice_rank=%d" % (bad[0]["id"], len(bad[0]["sources"]),
                                     len(bad[0]["mono"]), rank),
                kind="rank", entry="rtl")
  # coverage + balance
  use = [0] * n
  for l in lats:
    for s in l["sources"]:
      use[s] += 1
  out.checks += 2
  missing = [j for j in range(n) if use[j] == 0]
  if missing:
    out.violate("input column %r is not wired to any lattice (usage %r)" %
                (src[missing[0]], use), kind="coverage", entry="rtl")
  if max(use) - min(use) > 1:
    out.violate("usage counts of the input columns differ by %d: %r" %
                (max(use) - min(use), use), kind="balance", entry="rtl")
  out.info["usage"] = use
  # monotone wiring
  out.checks += 1
  miswired = [(l, pos, s) for l in lats for pos, s in enumerate(l["sources"])
              if src[s]["inc"] and pos < len(l["mono"]) and not l["mono"][pos]]
  if miswired:
    l, pos, s = miswired[0]
    out.violate("'increasing' input %r is wired to dimension %d of lattice "
                "%d whose monotonicities are %r" %
                (src[s], pos, l["id"], l["mono"]),
                kind="mono-wiring", entry="rtl")
  if any(src[s]["inc"] for l in lats for s in l["sources"]):
    out.label("rtl:has-mono-wiring")
  # output labels
  if case["separate"] and a["routed"] is not None:
    out.checks += 1
    want_inc = sorted(l["id"] for l in lats
                      if any(src[s]["inc"] for s in l["sources"]))
    want_unc = sorted(l["id"] for l in lats
                      if not any(src[s]["inc"] for s in l["sources"]))
    got_inc = sorted(a["routed"].get("increasing", []))
    got_unc = sorted(a["routed"].get("unconstrained", []))
    extra = set(a["routed"]) - {"increasing", "unconstrained"}
    if want_inc and want_unc:
      out.label("rtl:outputs:both-labels")
    elif want_inc:
      out.label("rtl:outputs:all-increasing")
    else:
      out.label("rtl:outputs:all-unconstrained")
    if got_inc != want_inc or got_unc != want_unc or extra:
      out.violate("lattices with an 'increasing' input: %r, outputs under "
                  "'increasing': %r; without: %r, outputs under "
                  "'unconstrained': %r%s" %
                  (want_inc, got_inc, want_unc, got_unc,
                   "; extra keys %r" % sorted(extra) if extra else ""),
                  kind="output-label", entry="rtl")
  # joint / averaged output: the sub-lattice outputs were replaced by the
  # lattice identifiers, so the documented output (batch, num_lattices) must
  # hold every identifier exactly once, and the averaged output (batch, 1)
  # their mean.
  if not case["separate"] and a["joint"] is not None:
    out.checks += 1
    arr = np.asarray(a["joint"], np.float64)
    ids = sorted(l["id"] for l in lats)
    if case["average"]:
      want = float(np.mean(ids)) if ids else 0.0
      out.label("rtl:outputs:averaged-checked")
      if arr.shape != (case["batch"], 1) or np.any(
          np.abs(arr - want) > 1e-5 * max(1.0, abs(want))):
        out.violate("averaged output has shape %r and values %r; the mean of "
                    "the %d lattice outputs is %r" % (
                        arr.shape, arr.reshape(-1)[:4].tolist(), len(ids),
                        want), kind="averaged-output", entry="rtl")
    else:
      out.label("rtl:outputs:joint-checked")
      rows = [sorted(int(round(v)) for v in row) for row in arr.reshape(
          arr.shape[0], -1)] if arr.ndim >= 1 and arr.size else []
      if arr.shape != (case["batch"], nl) or any(r != ids for r in rows) or (
          np.any(arr != np.rint(arr))):
        out.violate("joint output has shape %r and first row %r; expected "
                    "every one of the %d lattice outputs once, shape %r" % (
                        arr.shape, arr.reshape(arr.shape[0], -1)[0][
                            :8].tolist() if arr.size else [], len(ids),
                        (case["batch"], nl)), kind="joint-output",
                    entry="rtl")
  # _rtl_structure (OBSERVE AT): same counting clauses on the stored indices
  st_ = a["structure"]
  if st_ is not None:
    out.checks += 1
    idx_lists = [lat for _, lat_list in st_ for lat in lat_list]
    flat = [i for lat in idx_lists for i in lat]
    cnt = [flat.count(j) for j in range(n)]
    if (len(idx_lists) != nl or any(len(lat) != rank for lat in idx_lists) or
        any(len(m) != rank for m, _ in st_)):
      out.violate("_rtl_structure has %d lattices with sizes %r (monotonicity "
                  "tuples %r); expected %d x %d" %
                  (len(idx_lists), sorted(set(len(l) for l in idx_lists)),
                   [m for m, _ in st_], nl, rank),
                  kind="structure-shape", entry="rtl")
    elif sorted(set(flat) - set(range(n))) or min(cnt) == 0 or (
        max(cnt) - min(cnt) > 1):
      out.violate("_rtl_structure index usage %r over %d inputs" % (cnt, n),
                  kind="structure-usage", entry="rtl")
  else:
    out.label("rtl:no-_rtl_structure-attribute")

  # determinism
  _disturb_global_rngs(case["aux"] + 1)
  b = _rtl_observe(case, src)
  out.checks += 1
  wa = [(l["sources"], l["mono"]) for l in a["lattices"]]
  wb = [(l["sources"], l["mono"]) for l in b["lattices"]]
  if (wa != wb or a["routed"] != b["routed"] or
      a["structure"] != b["structure"] or a["joint"] != b["joint"]):
    out.violate("two RTL layers built with random_seed=%d are wired "
                "differently: %r vs %r" % (case["seed"], wa[:4], wb[:4]),
                kind="determinism", entry="rtl")


# --------------------------------------------------------------------------
# premade ensembles
def _feature_configs(case):
  """Feature configs of the case: kinds / pairs as drawn; for
  via == "names+configs" in a shuffled order with `extra` more features that
  feature_names does not mention."""
  import tensorflow_lattice as tfl
  names = case["names"]
  kinds = case.get("feature_kinds") or ["plain"] * len(names)
  fcs = []
  for nm, kind in zip(names, kinds):
    kw = {}
    if kind == "categorical":
      kw = dict(num_buckets=3)
    else:
      kw = dict(pwl_calibration_num_keypoints=2,
                pwl_calibration_input_keypoints=[0.0, 1.0])
      if kind in ("size3", "unimodal"):
        kw["lattice_size"] = 3
      if kind == "unimodal":
        kw["unimodality"] = "valley"
      if kind == "monotone":
        kw["monotonicity"] = "increasing"
    fcs.append(tfl.configs.FeatureConfig(name=nm, **kw))
  pairs = case.get("pairs") or {}
  if pairs.get("dominance"):
    a, b = pairs["dominance"]
    fcs[a].dominates = [tfl.configs.DominanceConfig(feature_name=names[b])]
  if pairs.get("trust"):
    a, c, ttype = pairs["trust"]
    fcs[c].reflects_trust_in = [tfl.configs.TrustConfig(
        feature_name=names[a], trust_type=ttype)]
  if case.get("via") == "names+configs":
    for k in range(case.get("extra", 0)):
      fcs.append(tfl.configs.FeatureConfig(
          name="EXTRA%d" % k, pwl_calibration_num_keypoints=2,
          pwl_calibration_input_keypoints=[0.0, 1.0]))
    order = np.random.RandomState(case.get("cfg_order", 0)).permutation(
        len(fcs))
    fcs = [fcs[int(i)] for i in order]
  return fcs


def _model_config(case, lattices, with_configs=True):
  import tensorflow_lattice as tfl
  fcs = _feature_configs(case) if with_configs else None
  return tfl.configs.CalibratedLatticeEnsembleConfig(
      feature_configs=fcs, lattices=lattices,
      num_lattices=case["num_lattices"], lattice_rank=case["rank"],
      random_seed=case["seed"], output_initialization=[0.0, 1.0])


def _deco_labels(case, entry):
  kinds = set(case.get("feature_kinds") or ["plain"])
  labels = [entry + ":features:" + k for k in sorted(kinds - {"plain"})] or [
      entry + ":features:plain"]
  pairs = case.get("pairs") or {}
  if pairs.get("dominance") or pairs.get("trust"):
    labels.append(entry + ":features:dominance+trust")
  if case.get("via") == "names+configs":
    labels.append(entry + ":configs-shuffled")
    if case.get("extra"):
      labels.append(entry + ":configs-superset")
  return labels


def _as_lists(lattices):
  return [[str(f) for f in lat] for lat in lattices]


def _check_ensemble(case, lats, out, entry, no_repeat):
  """count / rank / coverage (/ no repeats) on a list of lists of names."""
  names, rank, nl = case["names"], case["rank"], case["num_lattices"]
  out.checks += 3
  if len(lats) != nl:
    out.violate("%d lattices, num_lattices=%d" % (len(lats), nl),
                kind="lattice-count", entry=entry)
  bad = [l for l in lats if len(l) != rank]
  if bad:
    out.violate("lattice %r has %d inputs, lattice_rank=%d" %
                (bad[0], len(bad[0]), rank), kind="rank", entry=entry)
  used = set(f for l in lats for f in l)
  unknown = sorted(used - set(names))
  if unknown:
    out.violate("lattices use %r which is no feature name" % unknown[:3],
                kind="unknown-feature", entry=entry)
  missing = [f for f in names if f not in used]
  if missing:
    out.violate("feature %r is in no lattice: %r" % (missing[0], lats),
                kind="coverage", entry=entry)
  rep = [l for l in lats if len(set(l)) != len(l)]
  if no_repeat:
    out.checks += 1
    if rep:
      out.violate("lattice %r repeats a feature" % rep[0], kind="repeat",
                  entry=entry)
  elif rep:
    out.label(entry + ":repeat-inside-lattice(no claim)")


def _run_random(case, out):
  from tensorflow_lattice.python import premade_lib
  n, rank, nl = len(case["names"]), case["rank"], case["num_lattices"]
  out.label("entry:random", "random:via-" + case["via"],
            "random:" + _slack_label(nl * rank, n),
            "random:rank=features" if rank == n else "random:rank<features",
            "random:" + _seed_label(case["seed"]), *_deco_labels(case, "random"))
  out.nontrivial = bool(nl >= 2 and n >= 2)

  def build():
    mc = _model_config(case, "random", with_configs=case["via"] != "names")
    if case["via"] == "configs":
      premade_lib.set_random_lattice_ensemble(mc)
    else:
      premade_lib.set_random_lattice_ensemble(mc,
                                              feature_names=list(case["names"]))
    return _as_lists(mc.lattices)

  _disturb_global_rngs(case["aux"])
  a = build()
  _check_ensemble(case, a, out, "random", no_repeat=True)
  _disturb_global_rngs(case["aux"] + 1)
  b = build()
  out.checks += 1
  if a != b:
    out.violate("two random ensembles with random_seed=%d differ: %r vs %r" %
                (case["seed"], a, b), kind="determinism", entry="random")


def _check_cover(case, cover, out, entry):
  names = case["names"]
  # the prefitting lattices are lattices of a config with this lattice_rank
  # ("number of features in each lattice"): none may be larger, name a
  # feature that feature_names / the configs do not have, or repeat one.
  out.checks += 3
  big = [l for l in cover if len(l) > case["rank"] or not l]
  if big:
    out.violate("prefitting lattice %r has %d features, lattice_rank=%d" % (
        big[0], len(big[0]), case["rank"]), kind="cover-lattice-size",
                entry=entry)
  unknown = sorted(set(f for l in cover for f in l) - set(names))
  if unknown:
    out.violate("prefitting lattices use %r which is no feature name" %
                unknown[:3], kind="unknown-feature", entry=entry)
  rep = [l for l in cover if len(set(l)) != len(l)]
  if rep:
    out.violate("prefitting lattice %r repeats a feature" % rep[0],
                kind="repeat", entry=entry)
  out.checks += 1
  sets = [set(l) for l in cover]
  for f, g in itertools.combinations(names, 2):
    if not any(f in s and g in s for s in sets):
      out.violate("features %r and %r are together in no prefitting lattice: "
                  "%r" % (f, g, cover), kind="pair-cover", entry=entry)
      return


def _run_cover(case, out):
  from tensorflow_lattice.python import premade_lib
  n, rank = len(case["names"]), case["rank"]
  out.label("entry:cover", "cover:via-" + case["via"],
            "cover:rank:%s" % (rank if rank < 4 else ">=4"),
            "cover:" + _seed_label(case["seed"]), *_deco_labels(case, "cover"))
  out.nontrivial = True

  def build():
    # feature configs are always present here: the helper iterates over
    # model_config.feature_configs (feature_names only selects the names).
    mc = _model_config(case, "crystals")
    if case["via"] == "configs":
      pc = premade_lib.construct_prefitting_model_config(mc)
    else:
      pc = premade_lib.construct_prefitting_model_config(
          mc, feature_names=list(case["names"]))
    return _as_lists(pc.lattices)

  _disturb_global_rngs(case["aux"])
  a = build()
  _check_cover(case, a, out, "cover")
  out.info["prefitting_lattices"] = len(a)
  _disturb_global_rngs(case["aux"] + 1)
  b = build()
  out.checks += 1
  if a != b:
    out.violate("two prefitting covers with random_seed=%d differ: %r vs %r" %
                (case["seed"], a, b), kind="determinism", entry="cover")


def _prefit_kernel(case, i, dims):
  """float32 kernel (2**dims, 1) of prefitting lattice i."""
  m = 2 ** dims
  kmode = case["kmode"]
  if kmode == "explicit":
    ks = case["kernels"]
    if i < len(ks) and len(ks[i]) == m:
      return np.asarray(ks[i], np.float32).reshape(m, 1)
    # the cover differs from the one the example was written for
    return np.indices([2] * dims).reshape(dims, -1)[0].astype(
        np.float32).reshape(m, 1)
  kd = case["kernel"]
  seed = (kd["seed"] + 7919 * i) % (2**31)
  rs = np.random.RandomState(seed)
  grid = np.indices([2] * dims).reshape(dims, -1).astype(np.float64)
  if kmode == "random":
    return S.array_from(kd["kind"], seed, (m, 1), kd["scale"])
  if kmode == "shared":
    return S.array_from(kd["kind"], kd["seed"], (m, 1), kd["scale"])
  if kmode == "ties":
    return S.array_from("ties", seed, (m, 1), kd["scale"])
  if kmode == "additive":
    w = rs.uniform(0.1, 1.0, size=dims) * rs.choice([-1.0, 1.0], size=dims)
    return ((w @ grid) * kd["scale"]).astype(np.float32).reshape(m, 1)
  if kmode == "one-feature":
    # every lattice depends on one feature (exactly, or up to a tiny
    # interaction): most features get a zero / negligible importance score.
    pick = rs.randint(4)
    k = grid[rs.randint(dims)].copy()
    if pick == 1:
      k = k + grid[rs.randint(dims)]
    elif pick == 2:
      k = k * grid[rs.randint(dims)]
    elif pick == 3:
      k = k + 1e-4 * grid[rs.randint(dims)] * grid[rs.randint(dims)]
    return k.astype(np.float32).reshape(m, 1)
  # degenerate: the region of known finding F-C17-1 (kept at a low rate)
  pick = rs.randint(5)
  if pick == 0:
    return np.full((m, 1), rs.normal() * kd["scale"], np.float32)
  if pick == 1:
    return np.zeros((m, 1), np.float32)
  one = grid[rs.randint(dims)]
  if pick == 2:
    return one.astype(np.float32).reshape(m, 1)
  if pick == 3:
    eps = rs.choice([1e-3, 1e-6, 1e-9, 1e-13, 1e-21])
    return (one + eps * rs.normal(size=m)).astype(np.float32).reshape(m, 1)
  return S.array_from("normal", seed, (m, 1), kd["scale"])


def _crystals_failure_kind(e):
  """Narrow kinds for the failures of the Crystals use allocation."""
  import traceback
  frames = traceback.extract_tb(e.__traceback__)
  if not frames or frames[-1].name != "_get_final_crystal_lattices":
    return None
  msg = str(e)
  if isinstance(e, ValueError) and "cannot convert float NaN to integer" in msg:
    return "crystals-nan"
  if isinstance(e, OverflowError) and (
      "cannot convert float infinity to integer" in msg):
    return "crystals-inf"
  if isinstance(e, AssertionError):
    return "crystals-assert"
  return None


def _run_crystals(case, out):
  import tensorflow_lattice as tfl
  from tensorflow_lattice.python import premade_lib
  n, rank, nl = len(case["names"]), case["rank"], case["num_lattices"]
  via = case.get("via", "configs")
  out.label("entry:crystals", "crystals:kernels:" + case["kmode"],
            "crystals:" + _slack_label(nl * rank, n), "crystals:via-" + via,
            *_deco_labels(case, "crystals"))
  out.nontrivial = bool(nl >= 2)
  _disturb_global_rngs(case["aux"])
  fn_kw = {} if via == "configs" else {"feature_names": list(case["names"])}
  mc = _model_config(case, "crystals")
  pc = premade_lib.construct_prefitting_model_config(mc, **fn_kw)
  cover = _as_lists(pc.lattices)
  _check_cover(case, cover, out, "crystals")
  if out.violations:
    return
  model = tfl.premade.CalibratedLatticeEnsemble(pc)
  constant = False
  for i, lat in enumerate(cover):
    layer = model.get_layer("tfl_lattice_%d" % i)
    out.checks += 1
    if int(np.prod(layer.kernel.shape)) != 2 ** len(lat):
      # the extraction (premade_lib._get_torsions_and_laplacians) reads every
      # prefitting lattice as a [2] * len(lattice) lattice
      out.violate("prefitting lattice %d over %d features has a kernel of "
                  "shape %r, not 2**%d weights" % (
                      i, len(lat), tuple(layer.kernel.shape), len(lat)),
                  kind="crystals-prefit-shape", entry="crystals")
      return
    k = _prefit_kernel(case, i, len(lat))
    constant = constant or float(np.ptp(k)) == 0.0
    layer.kernel.assign(k.reshape(layer.kernel.shape))
  out.label("crystals:some-constant-kernel" if constant else
            "crystals:no-constant-kernel")

  def extract():
    cfg = _model_config(case, "crystals")
    with np.errstate(all="ignore"):
      premade_lib.set_crystals_lattice_ensemble(cfg, pc, model, **fn_kw)
    return _as_lists(cfg.lattices)

  try:
    a = extract()
  except (ValueError, OverflowError, AssertionError) as e:
    kind = _crystals_failure_kind(e)
    if kind is None:
      raise
    out.checks += 1
    out.label("crystals:outcome:" + kind)
    out.violate("set_crystals_lattice_ensemble raises %s(%s) for %d features, "
                "%d x rank-%d lattices, prefitting kernels %s%s" %
                (type(e).__name__, e, n, nl, rank, case["kmode"],
                 " (a constant kernel)" if constant else ""),
                kind=kind, entry="crystals", clause="crystals-use-allocation")
    return
  out.label("crystals:outcome:ok")
  _check_ensemble(case, a, out, "crystals", no_repeat=False)
  _disturb_global_rngs(case["aux"] + 1)
  b = extract()
  out.checks += 1
  if a != b:
    out.violate("two Crystals extractions from the same prefitting model "
                "differ: %r vs %r" % (a, b), kind="determinism",
                entry="crystals")


def run_case(case):
  import warnings
  out = Outcome()
  with warnings.catch_warnings():
    warnings.simplefilter("ignore")
    if case["entry"] == "rtl":
      _run_rtl(case, out)
    elif case["entry"] == "random":
      _run_random(case, out)
    elif case["entry"] == "cover":
      _run_cover(case, out)
    else:
      _run_crystals(case, out)
  return out
