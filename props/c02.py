"""C02 - Lattice output is exact hypercube / simplex interpolation."""
import numpy as np
from hypothesis import strategies as st

from vlib import oracles as R
from vlib import strategies as S
from vlib.harness import Outcome, TOL_F, TOL_MONO_F, ulp32

ID = "C02"
TITLE = ("Lattice output is exact hypercube/simplex interpolation, inheriting "
         "kernel shape")
RULE = ("Hypothesis draws a lattice shape (all-2, mixed, runs of equal sizes at "
        "the start/middle/end, rank 1-5 with sizes 2-4; rank 1-4 with one or "
        "two dimensions of 5-8 vertices; rank 8-9 all-2, rank-8 with one size "
        "3 and rank 8-9 with a run of equal non-2 sizes or two separate non-2 "
        "sizes (<= 1152 weights) for the matmul branch of "
        "batch_outer_operation; thorough: rank <= 6, sizes <= 5, more rank "
        "8-9), lattice_sizes given as a list or a tuple, units 1-5, the "
        "interpolation scheme, the input form (one tensor / list of "
        "per-feature tensors), 0-2 extra batch dimensions (sizes 1-3), "
        "clip_inputs on/off, the entry (Lattice layer / "
        "lattice_lib.evaluate_with_*), the call mode (eager; one case in "
        "eight through a tf.function whose input signature leaves the batch "
        "size unknown), the dtype (float32; one case in eight a float64 "
        "layer / kernel / inputs with the same float32-representable "
        "values), a kernel "
        "(array mixture; kernel non-decreasing along chosen dimensions built "
        "by cumulative sums of non-negatives; kernel satisfying an Edgeworth "
        "trust built from non-negative mixed differences) and a list of point "
        "classes (interior, face, vertex, edge, tied / nearly tied fractional "
        "parts, within an ulp of a vertex, outside the range on either side; "
        "with clip_inputs off outside points are replaced by points on the "
        "range boundary). Every point is judged against the float64 "
        "references; pairs of points derived from them judge continuity, "
        "scheme agreement and the inheritance clauses. Non-trivial: rank >= 2, "
        "at least one judged point is not a vertex and the kernel is not "
        "constant; distinct by SHA-1 of the case.")
NT_FLOOR = 0.5
BUDGET = {"quick": 800, "thorough": 6000}
ASSUMPTIONS = [
    "with clip_inputs off only in-range points are judged (the layer documents "
    "out-of-range behaviour only through clipping)",
    "input and kernel values are float32-representable (also in the float64 "
    "cases); the references evaluate the same values in float64",
    "only the batch dimension is ever unknown at trace time (the library "
    "documents that restriction in batch_outer_operation); the other scheme, "
    "used for the vertex / edge comparison, is always called eagerly",
    "TensorFlow's CPU kernels may flush float32 subnormals to zero, so the "
    "vertex clause allows 1 ulp + 1.2e-38 absolute",
]
TECHNIQUE = ("property-based testing (Hypothesis): differential against float64 "
             "multilinear / sorted-simplex references + metamorphic point "
             "pairs (continuity, scheme agreement, monotone / trust "
             "inheritance)")
LEVEL_TEXT = ("Generated-input exploration: random lattice shapes (including the "
              "all-2 fast path, bucketised runs of equal sizes and the rank > 7 "
              "matmul branch with and without runs of equal non-2 sizes, "
              "dimensions of up to 8 vertices), list / tuple lattice_sizes, "
              "kernels, unit counts 1-5, input forms, up to two extra batch "
              "dimensions, eager calls and tf.function calls with unknown "
              "batch size, float32 and float64 layers, and points of every "
              "position class are evaluated by the real "
              "layer / library function and compared pointwise with independent "
              "float64 references; vertices must be reproduced to 1 ulp, the "
              "output must stay inside the corner values of its cell and the "
              "kernel range, be Lipschitz across cell and simplex faces, agree "
              "between schemes on vertices and axis-parallel edges, and inherit "
              "monotonicity and Edgeworth trust from kernels constructed to "
              "have them. Finds indexing, stride, ordering, clipping and "
              "reshape mistakes; cannot show absence.")
LEVEL_NOTE = ("Tolerances: 1e-4 * max|cell corner| for equality with the "
              "reference and between schemes, 1e-5 * max|kernel| (resp. cell "
              "corner) for inequalities, 1 ulp at vertices. Trusted: "
              "TensorFlow/NumPy arithmetic, the references in vlib/oracles.py, "
              "the harness. Sizes bounded as in the rule; values are "
              "float32-representable; graph mode only through tf.function with "
              "an unknown batch size (no Keras functional model / fit).")

POINT_CLASSES = ["interior", "face", "vertex", "edge", "tied", "neartie",
                 "ulp", "outside"]
DELTA = 2.0 ** -10
TINY = 1e-30
FLUSH = 1.1754944e-38   # TensorFlow CPU kernels flush float32 subnormals to 0
OUT_MAGS = [2.0 ** -10, 0.5, 1.0, 3.0, 1e3, 1e6, 1e30, 3e38]
# float64 layer / kernel / inputs in one case out of eight (the values stay
# float32-representable, so the references and tolerances are unchanged).
GEN_FLOAT64 = True


# --------------------------------------------------------------------------
# generation
@st.composite
def _sizes(draw, tier):
  big = tier == "thorough"
  if big:
    kinds = ["std"] * 8 + ["midrun"] * 3 + ["matmul2", "matmul2",
                                             "matmulmixed", "rank7",
                                             "matmulrun", "bigdim", "bigdim"]
  else:
    kinds = ["std"] * 16 + ["midrun"] * 6 + ["matmul2", "matmul2",
                                              "matmulmixed", "matmulrun",
                                              "bigdim", "bigdim", "bigdim"]
  kind = draw(st.sampled_from(kinds))
  if kind == "matmulrun":
    # rank 8-9 (matmul branch) with a run of equal non-2 sizes or two non-2
    # sizes; at most 1152 weights.
    run = draw(st.sampled_from([[3, 3], [3, 3], [4, 4], [3, 4], [3, 3, 3]]))
    rank = 8 if (len(run) == 3 or 4 in run) else draw(st.sampled_from([8, 8, 9]))
    if draw(st.integers(0, 2)) == 0 and len(run) == 2:
      # the two non-2 sizes apart from each other
      sizes = [2] * rank
      i = draw(st.integers(0, rank - 2))
      j = draw(st.integers(i + 1, rank - 1))
      sizes[i], sizes[j] = run
      return sizes
    at = draw(st.integers(0, rank - len(run)))
    return [2] * at + run + [2] * (rank - len(run) - at)
  if kind == "bigdim":
    # one dimension with 5-8 vertices (>= 3 interior vertices along an axis).
    rank = draw(st.integers(1, 4))
    sizes = [draw(st.integers(2, 3)) for _ in range(rank)]
    j = draw(st.integers(0, rank - 1))
    sizes[j] = draw(st.integers(5, 8))
    if rank >= 2 and draw(st.integers(0, 3)) == 0:
      sizes[(j + 1) % rank] = sizes[j]          # a run of two big dimensions
    cap = 2048 if big else 432
    while int(np.prod(sizes)) > cap:
      i = max((i for i in range(len(sizes)) if i != j),
              key=lambda i: sizes[i])
      if sizes[i] > 2:
        sizes[i] -= 1
      else:
        del sizes[i]
        j = j - 1 if i < j else j
    return sizes
  if kind == "std":
    return draw(S.lattice_sizes(max_rank=6 if big else 5,
                                max_size=5 if big else 4,
                                max_weights=2048 if big else 432))
  if kind == "midrun":
    msz = 4 if big else 3
    pre = draw(st.lists(st.integers(2, msz), min_size=0, max_size=2))
    run = [draw(st.integers(2, msz))] * draw(st.integers(2, 3))
    suf = draw(st.lists(st.integers(2, msz), min_size=0, max_size=2))
    sizes = pre + run + suf
    while int(np.prod(sizes)) > (2048 if big else 432):
      sizes = sizes[:-1]
    return sizes
  if kind == "matmul2":
    return [2] * draw(st.sampled_from([8, 8, 9]))
  if kind == "rank7":
    return [2] * 7
  sizes = [2] * 8
  sizes[draw(st.integers(0, 7))] = 3
  if big and draw(st.booleans()):
    sizes[draw(st.integers(0, 7))] = 3
  return sizes


@st.composite
def _case(draw, tier):
  sizes = draw(_sizes(tier))
  d = len(sizes)
  n = int(np.prod(sizes))
  units = draw(st.sampled_from([1] * 6 + [2] * 3 + [3] * 3 + [4, 5]))
  heavy = d >= 7
  kmode = draw(st.sampled_from(["raw", "raw", "mono", "ew"]))
  if kmode == "ew" and d < 2:
    kmode = "mono"
  case = {
      "sizes": sizes, "units": units,
      "interp": draw(st.sampled_from(["hypercube", "simplex"])),
      "form": draw(st.sampled_from(["tensor", "list"])),
      "clip": draw(st.sampled_from([True, True, False])),
      "entry": draw(st.sampled_from(["layer", "layer", "lib"])),
      "batch": draw(st.integers(1, 2 if heavy else 4)),
      # sizes of 0-2 extra batch dimensions between batch and (units,) d
      "extra": draw(st.sampled_from(
          [[], [], [], [], [1], [2], [1, 2], [2, 1], [2, 2]] if heavy else
          [[], [], [], [], [], [1], [2], [3], [1, 2], [2, 1], [3, 2],
           [2, 2]])),
      # call through a tf.function whose batch size is unknown (None)
      "graph": draw(st.integers(0, 7)) == 0,
      "sizes_as": draw(st.sampled_from(["list", "list", "tuple"])),
      "dtype": (draw(st.sampled_from(["float32"] * 7 + ["float64"]))
                if GEN_FLOAT64 else "float32"),
      "kmode": kmode,
      "kernel": draw(S.array_desc(shape=(n, units))),
      "pclasses": draw(st.lists(st.sampled_from(POINT_CLASSES), min_size=2,
                                max_size=8)),
      "aux": draw(S.seeds),
  }
  # keep the number of judged points (batch * extra * units) bounded.
  cap = 12 if heavy else 30
  while case["batch"] * int(np.prod(case["extra"] or [1])) * units > cap:
    if case["batch"] > 1:
      case["batch"] -= 1
    else:
      e = list(case["extra"])
      i = int(np.argmax(e))
      e[i] -= 1
      case["extra"] = e
  if kmode == "mono":
    md = [j for j in range(d) if draw(st.booleans())]
    case["mono_dims"] = md or [draw(st.integers(0, d - 1))]
  if kmode == "ew":
    m = draw(st.integers(0, d - 1))
    c = draw(st.integers(0, d - 2))
    c = c if c < m else c + 1
    case["ew"] = [m, c, draw(st.sampled_from([-1, 1]))]
  return case


def strategy(tier):
  return _case(tier)


# --------------------------------------------------------------------------
# kernels
def _pow2(scale):
  return 2.0 ** int(np.round(np.log2(scale)))


def mono_kernel(raw, sizes, dims, rs):
  """Non-decreasing along every dim in `dims`: cumulative sums of |raw|."""
  out = np.zeros(raw.shape, np.float64)
  for u in range(raw.shape[1]):
    a = np.abs(raw[:, u].astype(np.float64)).reshape(sizes)
    for j in dims:
      a = np.cumsum(a, axis=j)
    a = a - rs.uniform(0.0, 1.0) * float(a.max())
    out[:, u] = a.reshape(-1)
  # rounding to float32 is monotone, so the order along `dims` survives.
  return out.astype(np.float32)


def ew_kernel(raw, sizes, m, c, dr, scale):
  """Kernel whose mixed differences along (m, c) are >= 0 (dr=1) / <= 0 (-1)
  everywhere and that is non-decreasing along m.  Entries are small multiples
  of 1/32 times a power of two, hence exact in float32."""
  out = np.zeros(raw.shape, np.float64)
  for u in range(raw.shape[1]):
    r = raw[:, u].astype(np.float64)
    mx = float(np.max(np.abs(r)))
    q = (np.round(r / mx * 32.0) / 32.0 if mx > 0 else r * 0.0).reshape(sizes)
    p = np.abs(q)
    t = np.cumsum(np.cumsum(p, axis=m), axis=c)
    # t0[i, j] = sum_{i' < i, j' < j} p[i', j']
    t0 = np.zeros_like(t)
    sl_dst = [slice(None)] * len(sizes)
    sl_src = [slice(None)] * len(sizes)
    sl_dst[m], sl_dst[c] = slice(1, None), slice(1, None)
    sl_src[m], sl_src[c] = slice(0, -1), slice(0, -1)
    t0[tuple(sl_dst)] = t[tuple(sl_src)]
    b1 = np.cumsum(np.take(p, [0], axis=c), axis=m)      # free of c, up in m
    b2 = np.take(q, [0], axis=m)                         # free of m
    k = t0 + b1 + b2
    if dr < 0:
      k = np.flip(k, axis=c)
    out[:, u] = k.reshape(-1) * _pow2(scale)
  k32 = out.astype(np.float32)
  assert np.array_equal(k32.astype(np.float64), out)
  return k32


# --------------------------------------------------------------------------
# points
def make_points(rs, sizes, count, clip, classes):
  """Returns float32 points (count, d), their classes and a selected
  coordinate per point (the integer / tied one where the class has one)."""
  d = len(sizes)
  top = np.array(sizes, np.float64) - 1.0
  pts = np.zeros((count, d), np.float64)
  cls, jsel = [], np.zeros(count, np.int64)
  for i in range(count):
    c = classes[i % len(classes)]
    lo = np.array([rs.randint(0, s - 1) for s in sizes], np.float64)
    fr = rs.uniform(0.02, 0.98, size=d)
    vert = np.array([rs.randint(0, s) for s in sizes], np.float64)
    j = rs.randint(d)
    if c == "outside" and not clip:
      c = "boundary"
    if c in ("tied", "neartie") and d < 2:
      c = "interior"
    p = lo + fr
    if c == "face":
      for jj in rs.permutation(d)[:rs.randint(1, max(2, d))]:
        inner = sizes[jj] >= 3 and rs.rand() < 0.8
        p[jj] = rs.randint(1, sizes[jj] - 1) if inner else rs.choice(
            [0.0, top[jj]])
        j = jj
    elif c == "vertex":
      p = vert
    elif c == "edge":
      p = vert.copy()
      p[j] = lo[j] + fr[j]
    elif c in ("tied", "neartie"):
      grp = rs.permutation(d)[:rs.randint(2, d + 1)]
      f = (rs.randint(1, 64) / 64.0 if c == "tied" else
           rs.choice([fr[0], 1.0 / 3.0, 0.1]))
      if rs.rand() < 0.15:
        f = 0.5
      for jj in grp:
        p[jj] = lo[jj] + f
      if c == "neartie" and rs.rand() < 0.5:
        jj = grp[0]
        p[jj] = np.nextafter(np.float32(p[jj]), np.float32(
            rs.choice([-10.0, 10.0])))
      j = grp[rs.randint(len(grp))]
    elif c == "ulp":
      p = vert.copy() if rs.rand() < 0.5 else p
      for jj in rs.permutation(d)[:rs.randint(1, d + 1)]:
        v = vert[jj]
        if clip:
          direction = rs.choice([-10.0, 10.0])
        else:
          direction = 10.0 if v == 0 else -10.0 if v == top[jj] else rs.choice(
              [-10.0, 10.0])
        p[jj] = np.nextafter(np.float32(v), np.float32(direction))
        j = jj
    elif c == "outside":
      base = rs.randint(3)
      p = vert.copy() if base == 0 else p
      for jj in rs.permutation(d)[:rs.randint(1, d + 1)]:
        mag = OUT_MAGS[rs.randint(len(OUT_MAGS))]
        p[jj] = -mag if rs.rand() < 0.5 else top[jj] + mag
        j = jj
    elif c == "boundary":
      for jj in rs.permutation(d)[:rs.randint(1, d + 1)]:
        p[jj] = rs.choice([0.0, top[jj]])
        j = jj
    pts[i] = p
    jsel[i] = j
    cls.append(c)
  x = pts.astype(np.float32)
  if not clip:
    x = np.minimum(np.maximum(x, np.float32(0)), top.astype(np.float32))
  return x, cls, jsel


def _set(x, idx, vals):
  """Copy of x (P, d) float64 with x[i, idx[i]] = vals[i]."""
  y = x.copy()
  y[np.arange(x.shape[0]), idx] = vals
  return y


# --------------------------------------------------------------------------
# evaluation through the real library
def _extra(case):
  """Sizes of the extra batch dimensions (older cases: None or one int)."""
  e = case.get("extra")
  if e is None:
    return ()
  if isinstance(e, int):
    return (e,)
  return tuple(int(v) for v in e)


class _Target(object):

  def __init__(self, case, interp, k32, mono=None, ew=None, graph=None):
    import tensorflow as tf
    import tensorflow_lattice as tfl
    self.tf = tf
    self.case = case
    sizes, units = list(case["sizes"]), case["units"]
    if case.get("sizes_as") == "tuple":
      sizes = tuple(sizes)
    self.d = len(sizes)
    self.np_dtype = np.float64 if case.get("dtype") == "float64" else np.float32
    self.lead = _extra(case) + ((units,) if units > 1 else ())
    kern = k32.astype(self.np_dtype)
    if case["entry"] == "lib":
      fn = {"hypercube": tfl.lattice_lib.evaluate_with_hypercube_interpolation,
            "simplex": tfl.lattice_lib.evaluate_with_simplex_interpolation}[
                interp]
      kt = tf.constant(kern)
      self.fn = lambda inp: fn(inp, kernel=kt, units=units,
                               lattice_sizes=sizes, clip_inputs=case["clip"])
    else:
      kw = {}
      if mono is not None:
        kw["monotonicities"] = [1 if j in mono else 0 for j in range(self.d)]
      if ew is not None:
        kw["monotonicities"] = [1 if j == ew[0] else 0 for j in range(self.d)]
        kw["edgeworth_trusts"] = [(ew[0], ew[1], ew[2])]
      if self.np_dtype is np.float64:
        kw["dtype"] = "float64"
      layer = tfl.layers.Lattice(lattice_sizes=sizes, units=units,
                                 clip_inputs=case["clip"],
                                 interpolation=interp, **kw)
      if case["form"] == "list":
        layer.build([(None,) + self.lead + (1,)] * self.d)
      else:
        layer.build((None,) + self.lead + (self.d,))
      layer.kernel.assign(kern)
      self.fn = layer
    if case.get("graph") if graph is None else graph:
      # batch size unknown at trace time, as in Keras fit / a functional model.
      raw, dt = self.fn, tf.as_dtype(self.np_dtype)
      if case["form"] == "list":
        spec = [tf.TensorSpec([None] + list(self.lead) + [1], dt)] * self.d
        gfn = tf.function(lambda *a: raw(list(a)), input_signature=spec,
                          autograph=False)
        self.fn = lambda inp: gfn(*inp)
      else:
        spec = [tf.TensorSpec([None] + list(self.lead) + [self.d], dt)]
        self.fn = tf.function(lambda a: raw(a), input_signature=spec,
                              autograph=False)

  def __call__(self, flat):
    """flat: (P, d) float32 with P a multiple of prod(lead); returns (Q, units)
    float64 where row q, unit u belongs to flat point q * units + u."""
    units = self.case["units"]
    x = flat.reshape((-1,) + self.lead + (self.d,)).astype(np.float32).astype(
        self.np_dtype)
    if self.case["form"] == "list":
      inp = [self.tf.constant(x[..., j:j + 1]) for j in range(self.d)]
    else:
      inp = self.tf.constant(x)
    y = self.fn(inp).numpy()
    want = x.shape[:-1] if units > 1 else x.shape[:-1] + (1,)
    if tuple(y.shape) != tuple(want):
      return None, (tuple(y.shape), tuple(want))
    return y.astype(np.float64).reshape(-1), None


# --------------------------------------------------------------------------
def _path(case):
  sizes = case["sizes"]
  all2 = all(s == 2 for s in sizes)
  if case["interp"] == "simplex":
    p = "simplex-all2" if all2 else "simplex-general"
  elif all2 and case["form"] == "tensor":
    p = "hypercube-all2-fast"
  else:
    p = "hypercube-general"
  return p


def _sig(case, clause, interp=None):
  c = dict(case, interp=interp or case["interp"])
  return dict(kind=clause, path=_path(c), form=case["form"],
              multi_unit=case["units"] > 1, clip=bool(case["clip"]),
              matmul=bool(len(case["sizes"]) >= 8 and
                          (interp or case["interp"]) == "hypercube"),
              entry=case["entry"])


def _has_run(sizes):
  return any(a == b for a, b in zip(sizes[:-1], sizes[1:]))


def run_case(case):
  out = Outcome()
  sizes, units = list(case["sizes"]), case["units"]
  d, n = len(sizes), int(np.prod(sizes))
  rs = np.random.RandomState(case["aux"])
  top = np.array(sizes, np.float64) - 1.0
  clip = bool(case["clip"])
  interp = case["interp"]
  other = "simplex" if interp == "hypercube" else "hypercube"

  raw = S.materialize(case["kernel"], (n, units))
  kmode = case["kmode"]
  mono_dims, ew = None, None
  if kmode == "mono":
    mono_dims = list(case["mono_dims"])
    k32 = mono_kernel(raw, sizes, mono_dims, rs)
  elif kmode == "ew":
    ew = list(case["ew"])
    k32 = ew_kernel(raw, sizes, ew[0], ew[1], ew[2],
                    case["kernel"].get("scale", 1.0))
  else:
    k32 = raw
  k64 = k32.astype(np.float64)
  kmax = np.max(np.abs(k64), axis=0)                      # (units,)
  klo, khi = k64.min(axis=0), k64.max(axis=0)

  extra = _extra(case)
  npts = case["batch"] * int(np.prod(extra, dtype=np.int64)) * units
  x32, pcls, jsel = make_points(rs, sizes, npts, clip, case["pclasses"])
  unit_of = np.arange(npts) % units
  x = x32.astype(np.float64)
  xc = np.minimum(np.maximum(x, 0.0), top)                # what the docs clip to

  all2 = all(s == 2 for s in sizes)
  shape_cls = "all2" if all2 else ("runs" if _has_run(sizes) else "mixed")
  out.label("interp:" + interp, "form:" + case["form"], "shape:" + shape_cls,
            "units:%d" % units, "extra-batch-dims:%d" % len(extra),
            "clip:%s" % ("on" if clip else "off"), "kernel:" + kmode,
            "entry:" + case["entry"], "rank:%d" % d, "path:" + _path(case))
  if d >= 8:
    out.label("rank>7")
    if interp == "hypercube":
      out.label("matmul-branch")
  if (interp == "hypercube" and case["form"] == "tensor" and not all2 and
      _has_run(sizes)):
    out.label("bucket-of-equal-dims")
  for c in sorted(set(pcls)):
    out.label("pt:" + c)
  # widened input classes (each constructed, not filtered)
  graph = bool(case.get("graph"))
  if len(extra) == 2:
    out.label("extra2+form:" + case["form"])
    if units > 1:
      out.label("extra2+units>1")
  if graph:
    out.label("graph:none-batch", "graph+form:" + case["form"],
              "graph+" + _path(case))
    if extra:
      out.label("graph+extra-batch-dims")
  out.label("sizes-container:" + (case.get("sizes_as") or "list"))
  out.label("dtype:" + (case.get("dtype") or "float32"))
  if units >= 4:
    out.label("units>=4")
    if units != case["batch"] and units not in extra and units != d + 1:
      out.label("units>=4,no-coincidence")
  if max(sizes) >= 5:
    out.label("dim-size>=5", "dim-size>=5+" + interp)
  if d >= 8 and not all2:
    nb = sum(1 for s_ in sizes if s_ != 2)
    out.label("rank>7:non2-dims=%d" % min(nb, 2))
    if any(a == b != 2 for a, b in zip(sizes[:-1], sizes[1:])):
      out.label("rank>7:run-of-equal-non2")
    if units > 1:
      out.label("rank>7:units>1")

  target = _Target(case, interp, k32, mono_dims, ew)
  # the other scheme (vertices / edges only) is always called eagerly
  twin = _Target(case, other, k32, mono_dims, ew, graph=False)

  # ---------------------------------------------------------------- (a)-(c)
  y, bad = target(x32)
  out.checks += 1
  if bad:
    out.violate("output shape %s, documented %s" % bad,
                **_sig(case, "shape"))
    return out
  ref_fn = R.interp_hypercube if interp == "hypercube" else R.interp_simplex
  is_vertex = np.all(xc == np.rint(xc), axis=1)
  out.nontrivial = bool(d >= 2 and np.any(~is_vertex) and
                        np.any(klo != khi))
  worst = 0.0
  for i in range(npts):
    u = unit_of[i]
    ku = k64[:, u]
    corners = np.array(R.cell_corner_values(x[i], ku, sizes))
    cs = float(np.max(np.abs(corners)))
    ref = float(ref_fn(x[i], ku, sizes))
    out.checks += 3
    if not np.isfinite(y[i]):
      out.violate("non-finite output %r at point %r" % (y[i], x[i].tolist()),
                  **_sig(case, "finite"))
      return out
    err = abs(y[i] - ref)
    tol = TOL_F * cs + TINY
    worst = max(worst, err / tol)
    if err > tol:
      out.violate("%s output %.9g differs from reference %.9g at point %s "
                  "(class %s, unit %d; tolerance %.3g)" %
                  (interp, y[i], ref, x32[i].tolist(), pcls[i], u, tol),
                  **_sig(case, "pointwise"))
      return out
    if is_vertex[i]:
      vv = float(ku.reshape(sizes)[tuple(xc[i].astype(int))])
      out.checks += 1
      if abs(y[i] - vv) > ulp32(vv) + FLUSH:
        out.violate("vertex %s (input %s) gives %.9g, its weight is %.9g" %
                    (xc[i].tolist(), x32[i].tolist(), y[i], vv),
                    **_sig(case, "vertex"))
        return out
    ctol = TOL_MONO_F * cs + TINY
    if y[i] < corners.min() - ctol or y[i] > corners.max() + ctol:
      out.violate("output %.9g outside the corner values [%.9g, %.9g] of the "
                  "cell of point %s" % (y[i], corners.min(), corners.max(),
                                        x32[i].tolist()),
                  **_sig(case, "convex"))
      return out
    rtol = TOL_MONO_F * kmax[u] + TINY
    if y[i] < klo[u] - rtol or y[i] > khi[u] + rtol:
      out.violate("output %.9g outside the kernel range [%.9g, %.9g]" %
                  (y[i], klo[u], khi[u]), **_sig(case, "range"))
      return out
  out.info["max_err_over_tol"] = worst

  # ------------------------------------------------ derived batches, one call
  idx = np.arange(npts)
  in_rng = lambda z: np.all((z >= 0.0) & (z <= top), axis=1)
  batches = {}
  # (d) a step of 2*delta along the selected coordinate (across the face for
  # face / tied points).
  xm = _set(x, jsel, x[idx, jsel] - DELTA).astype(np.float32)
  xp = _set(x, jsel, x[idx, jsel] + DELTA).astype(np.float32)
  lip_ok = np.ones(npts, bool) if clip else (
      in_rng(xm.astype(np.float64)) & in_rng(xp.astype(np.float64)))
  xm[~lip_ok] = x32[~lip_ok]      # never feed out-of-range points unclipped
  xp[~lip_ok] = x32[~lip_ok]
  batches["lip-"], batches["lip+"] = xm, xp
  # (e) vertex and axis-parallel edge next to every point.
  xv = np.rint(xc)
  xe = _set(xv, jsel, xc[idx, jsel])
  batches["vert"], batches["edge"] = xv.astype(np.float32), xe.astype(
      np.float32)
  # (f1) larger value in a monotone coordinate.
  if mono_dims:
    jm = np.array([mono_dims[rs.randint(len(mono_dims))] for _ in range(npts)])
    step = rs.choice([2.0 ** -12, 0.3, 1.0, 2.5, 1e4], size=npts)
    up = x[idx, jm] + step
    if not clip:
      up = np.minimum(up, top[jm])
    batches["mono+"] = _set(x, jm, up).astype(np.float32)
  # (f3) effect of a step in the main feature at two conditional values.
  if ew and interp == "hypercube":
    m, c, dr = ew
    lo_c, hi_c = (-0.5, top[c] + 0.5) if clip else (0.0, top[c])
    ab = np.sort(rs.uniform(lo_c, hi_c, size=(npts, 2)), axis=1)
    snap = rs.rand(npts, 2) < 0.3
    ab = np.where(snap, np.minimum(np.maximum(np.rint(ab), 0.0), top[c]), ab)
    ab = np.sort(ab.astype(np.float32).astype(np.float64), axis=1)
    h = rs.choice([DELTA, 0.25, 1.0, 1.5, float(top[m])], size=npts)
    xh = x[:, m] + h
    if not clip:
      xh = np.minimum(xh, top[m])
    mcol, ccol = np.full(npts, m), np.full(npts, c)
    xa, xb = _set(x, ccol, ab[:, 0]), _set(x, ccol, ab[:, 1])
    batches["ew-a"], batches["ew-b"] = xa.astype(np.float32), xb.astype(
        np.float32)
    batches["ew-a+h"] = _set(xa, mcol, xh).astype(np.float32)
    batches["ew-b+h"] = _set(xb, mcol, xh).astype(np.float32)

  names = sorted(batches)
  big, bad = target(np.concatenate([batches[k] for k in names], axis=0))
  if bad:
    out.violate("output shape %s, documented %s" % bad, **_sig(case, "shape"))
    return out
  val = {k: big[i * npts:(i + 1) * npts] for i, k in enumerate(names)}
  tw, bad = twin(np.concatenate([batches["vert"], batches["edge"]], axis=0))
  if bad:
    out.violate("output shape %s, documented %s" % bad,
                **_sig(case, "shape", other))
    return out
  tw_vert, tw_edge = tw[:npts], tw[npts:]

  kk = [k64[:, u].reshape(sizes) for u in range(units)]
  lip = np.array([[float(np.max(np.abs(np.diff(kk[u], axis=j))))
                   for j in range(d)] for u in range(units)])

  # ---- (d) continuity / Lipschitz along one coordinate
  ok = lip_ok
  dist = (xp.astype(np.float64) - xm.astype(np.float64))[idx, jsel]
  dist = np.minimum(dist, top[jsel] + 1.0)  # clipped distance never exceeds it
  jump = np.abs(val["lip+"] - val["lip-"])
  bound = lip[unit_of, jsel] * dist + TOL_MONO_F * kmax[unit_of] + TINY
  out.checks += int(ok.sum())
  if ok.any():
    out.label("continuity-judged")
  if ok.any():
    out.info["jump_over_bound"] = float(np.max((jump / bound)[ok]))
  hit = ok & (~np.isfinite(jump) | (jump > bound))
  if hit.any():
    i = int(np.argmax(hit))
    out.violate("outputs %.9g / %.9g at points %s / %s (distance %.3g along "
                "dim %d, point class %s) differ by more than the kernel's "
                "largest step %.6g allows" %
                (val["lip-"][i], val["lip+"][i], xm[i].tolist(),
                 xp[i].tolist(), dist[i], jsel[i], pcls[i],
                 lip[unit_of[i], jsel[i]]), **_sig(case, "continuity"))
    return out

  # ---- (b) again and (e): both schemes on vertices and axis-parallel edges
  for i in range(npts):
    u = unit_of[i]
    vv = float(kk[u][tuple(xv[i].astype(int))])
    for nm, got in ((interp, val["vert"][i]), (other, tw_vert[i])):
      out.checks += 1
      if not abs(got - vv) <= ulp32(vv) + FLUSH:
        out.violate("%s: vertex %s gives %.9g, its weight is %.9g" %
                    (nm, xv[i].tolist(), got, vv),
                    **_sig(case, "vertex", nm))
        return out
    corners = np.array(R.cell_corner_values(
        batches["edge"][i].astype(np.float64), k64[:, u], sizes))
    tol = TOL_F * float(np.max(np.abs(corners))) + TINY
    out.checks += 1
    if not abs(val["edge"][i] - tw_edge[i]) <= tol:
      out.violate("on the axis-parallel edge point %s %s gives %.9g but %s "
                  "gives %.9g" % (batches["edge"][i].tolist(), interp,
                                  val["edge"][i], other, tw_edge[i]),
                  **_sig(case, "schemes-agree"))
      return out
  out.label("schemes-compared")

  # ---- (f1) monotone kernel => monotone output
  if mono_dims:
    xq = batches["mono+"]
    ok = (xq[idx, jm] >= x32[idx, jm])
    diff = val["mono+"] - y
    out.checks += int(ok.sum())
    out.label("inherit:monotone")
    mtol = TOL_MONO_F * kmax[unit_of] + TINY
    if ok.any():
      out.info["mono_drop_over_tol"] = float(np.max((-diff / mtol)[ok]))
    hit = ok & ~(diff >= -mtol)
    if hit.any():
      i = int(np.argmax(hit))
      out.violate("kernel non-decreasing along dim %d but output drops from "
                  "%.9g to %.9g when input %d grows from %r to %r (point %s)" %
                  (jm[i], y[i], val["mono+"][i], jm[i], float(x32[i, jm[i]]),
                   float(xq[i, jm[i]]), x32[i].tolist()),
                  **_sig(case, "inherit-monotone"))
      return out

  # ---- (f3) Edgeworth trust => effect of main feature monotone in cond.
  if "ew-a" in batches:
    m, c, dr = ew
    eff_a = val["ew-a+h"] - val["ew-a"]
    eff_b = val["ew-b+h"] - val["ew-b"]
    out.checks += npts
    out.label("inherit:edgeworth")
    tol = 4 * TOL_MONO_F * kmax[unit_of] + TINY
    out.info["ew_drop_over_tol"] = float(np.max(-dr * (eff_b - eff_a) / tol))
    hit = ~(dr * (eff_b - eff_a) >= -tol)
    if hit.any():
      i = int(np.argmax(hit))
      out.violate("kernel satisfies Edgeworth trust (main %d, cond %d, dir %d) "
                  "but the effect of raising input %d from %r to %r is %.9g at "
                  "cond=%r and %.9g at cond=%r (point %s)" %
                  (m, c, dr, m, float(batches["ew-a"][i, m]),
                   float(batches["ew-a+h"][i, m]), eff_a[i],
                   float(batches["ew-a"][i, c]), eff_b[i],
                   float(batches["ew-b"][i, c]), x32[i].tolist()),
                  **_sig(case, "inherit-edgeworth"))
      return out
  return out
