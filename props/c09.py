"""C09 - units and examples never interact.

Metamorphic check: the oracle is the real library applied to a sub-problem.

  W (weights)  C(W)[:, idx] == C(W[:, idx]) for a single unit (every unit), a
               permutation of all units and an ordered subset of the units, for
               LatticeConstraints (strict / non-strict, every constraint
               family), PWLCalibrationConstraints, LinearConstraints,
               CategoricalCalibrationConstraints and the two
               KroneckerFactoredLattice constraints (kernel, scale), each as a
               constraint object or as the layer's variable constraint.
  U (units)    replacing unit v's parameters (kernel column, learned-interior
               logits row, missing output, bias, KFL scale row / kernel block)
               and then unit v's inputs (another unit's inputs, or values far
               outside the range / the missing value) leaves the outputs of
               all other units unchanged.
  B (batch)    layer(x)[idx] == layer(x[idx]) for single rows (every row), a
               permutation of the batch and an ordered subset of it, for every
               layer kind, the functional forms (per-example parameters), RTL,
               ParallelCombination, tfl.layers.Aggregation (ragged rows) and
               the premade CalibratedLattice, CalibratedLinear and
               CalibratedLatticeEnsemble models.

Lattice and KroneckerFactoredLattice take their inputs (U and B) in every
documented format: one tensor, a list of per-dimension tensors, extra leading
dimensions (batch, ..., units, dims), or both.
"""
import numpy as np
from hypothesis import strategies as st

from vlib import strategies as S
from vlib.harness import Outcome, hash32, scale_of

ID = "C09"
TITLE = "Units and examples never interact: projections are per-unit, outputs per-row"
RULE = ("Each Hypothesis case picks one (layer kind, relation). Weight "
        "relations (unit-column for every unit, unit-perm, unit-subset) run on "
        "Lattice (rank 1-3 and a quota of 2x2x2x2, <= 64 vertices quick; "
        "strict and non-strict, all "
        "constraint families, iterations {0,1,2,4}), PWLCalibration, Linear, "
        "CategoricalCalibration and the KroneckerFactoredLattice kernel and "
        "scale constraints, units 2-4 (3-4 for subsets; a quota of 5) with "
        "per-unit "
        "different weights from the array mixture, through the constraint "
        "object or the layer's variable constraint. unit-perturb replaces one "
        "unit's parameters and then its inputs in a Lattice / PWLCalibration "
        "(fixed and learned_interior keypoints, missing-value imputation) / "
        "CategoricalCalibration / Linear / KroneckerFactoredLattice layer. "
        "Batch relations (batch-row for every row, batch-perm, batch-subset; "
        "batches 2-6, units 1-4) run on those five layers and on CDF, cdf_fn, "
        "pwl_calibration_fn (per-example parameters), RTL, "
        "ParallelCombination and a premade CalibratedLattice. "
        "Lattice / KroneckerFactoredLattice inputs (U, B) come as one tensor, "
        "as a list of per-dimension tensors, with 1-2 extra leading "
        "dimensions of size 1-3 (batch, ..., units, dims) or both (label "
        "*:x-format=*). unit-perturb replaces unit v's inputs either by "
        "another unit's rows in reverse order or by hostile values (outside "
        "the lattice range when the layer clips, far outside the keypoints "
        "or the missing value for PWL, the default bucket for categorical, "
        "30-100x larger for Linear; label inputs-perturbed:*). Batch "
        "relations also run on tfl.layers.Aggregation (ragged rows of "
        "different lengths, list or dict input, bare or calibrated lattice), "
        "CalibratedLinear and CalibratedLatticeEnsemble (explicit, random, "
        "rtl_layer; the model descriptions of vlib.models), and for "
        "permutations / subsets of the cheap layers on batches of 17, 33 and "
        "64 rows. The options that define these classes are picked by "
        "hashing drawn integers (uniform; Hypothesis mutates earlier draws). "
        "Non-trivial: "
        "weight relation - the constraint moved the kernel by > 1e-6*S; "
        "unit-perturb - the perturbation changed the perturbed unit's own "
        "output; batch relation - the batch rows do not all give the same "
        "output; distinct by SHA-1 of the case.")
NT_FLOOR = 0.5
BUDGET = {"quick": 500, "thorough": 6000}
TECHNIQUE = ("property-based testing (Hypothesis): metamorphic relations "
             "(unit slicing / permutation / perturbation, batch slicing / "
             "permutation) with the library on the sub-problem as oracle")
LEVEL_TEXT = ("Generated-input exploration of three families of metamorphic "
              "relations over every multi-unit layer kind and every batch "
              "entry point: the weight constraint of a multi-unit kernel must "
              "equal, column by column, the constraint of the column(s) alone "
              "and commute with unit permutations; the output of a unit must "
              "not move when another unit's parameters or inputs are replaced; "
              "the output rows must not depend on the other rows of the batch "
              "or on their order. Catches reductions over the wrong axis, "
              "reshape/transposition slips between units, rows and terms, and "
              "batch-level statistics; cannot show absence.")
LEVEL_NOTE = ("Bit-identity is expected; 1e-6*S is allowed (S = max(1, "
              "|weights|, |results|) for weight relations, S = "
              "max(1, |outputs|, magnitude of the summed terms) for outputs; "
              "after an input perturbation only the outputs of the "
              "unperturbed units enter S) "
              "because per-column and per-row calls may use different "
              "reduction/matmul blocking; pwl_calibration_fn gets in addition "
              "sum|dy_i|*min(1, 2*(k+2)*eps32*(|range ends|+range)/len_i) over "
              "the segments x lies in or touches (its per-example softmax "
              "keypoints round differently by an ulp depending on the row's "
              "position). The oracle is the library itself on "
              "the sub-problem, so errors common to both sides are invisible "
              "here (C01-C08, C20 judge the values). Lattice/KFL layers with "
              "clip_inputs=False are evaluated inside their domain only. "
              "Quick: <= 64 lattice vertices, <= 8 keypoints/inputs/buckets.")
ASSUMPTIONS = [
    "cdf_fn / pwl_calibration_fn are called through the public tf.function "
    "objects for the first 120 cases of a worker process and afterwards "
    "through a fresh tf.function around the same Python function (the public "
    "objects never release their traces)",
    "the KroneckerFactoredLattice kernel (1, lattice_sizes, units*dims, "
    "num_terms) is unit-major along its third axis, as documented by the "
    "library's reshape to (lattice, units, dims, terms)",
]

TOL = 1e-6          # tighter than TOL_W: bit-identity is the expectation
W_KINDS = ["lattice", "lattice", "pwl", "linear", "categorical", "kfl_kernel",
           "kfl_scale"]
W_RELS = ["unit-column", "unit-column", "unit-perm", "unit-subset"]
U_KINDS = ["lattice", "pwl", "pwl", "categorical", "linear", "kfl"]
B_KINDS = (["lattice", "pwl", "categorical", "linear", "kfl", "cdf", "cdf_fn",
            "pwl_fn", "rtl", "parcomb"] * 3 + ["lattice", "kfl"] +
           ["premade"] * 2 + ["premade_linear", "premade_linear",
                              "premade_ensemble", "premade_ensemble",
                              "aggregation", "aggregation"])
B_RELS = ["batch-row", "batch-perm", "batch-subset"]
# input formats of Lattice / KroneckerFactoredLattice (U and B relations):
# one tensor (batch, [units,] dims); a list of dims tensors (batch, [units,] 1);
# extra leading dimensions (batch, e1[, e2], [units,] dims); both.
X_FORMATS = ["tensor", "tensor", "list", "extra", "extra", "list+extra"]
# kinds whose call is cheap enough for batches beyond the vectorisation width
BIG_BATCH_KINDS = ("lattice", "pwl", "categorical", "linear", "kfl", "cdf",
                   "parcomb")
MISSING = -777.0
EPS32 = float(np.finfo(np.float32).eps)
_FN_USES = {}


# ---------------------------------------------------------------------------
# configurations
def _picker(mix):
  """Hypothesis repeats and mutates earlier draws, which leaves some options
  of a small sampled_from list nearly unvisited in a 500-case shard.  The
  options that define the input classes of this module (input format, input
  perturbation, parameter shapes, ...) are therefore selected by hashing one
  drawn integer together with the option's name: uniform and independent,
  still a pure function of the drawn values (the result is stored in the
  case)."""
  return lambda name, options: options[hash32(mix, name) % len(options)]


@st.composite
def _lattice_cfg(draw, tier, group, pick):
  big = tier == "thorough"
  # S.lattice_config rarely yields dominances / joint constraints on small
  # lattices; `boost` adds one such constraint (valid by construction).
  boost = draw(st.sampled_from([None, None, None, "mdom", "rdom", "jmono",
                                "junimod", "junimod", "unimod"]))
  if not big and group == "W" and draw(st.integers(0, 14)) == 0:
    sizes = [2, 2, 2, 2]       # small quota of rank 4 in the weight relations
  else:
    sizes = draw(S.lattice_sizes(
        max_rank=4 if big else 3, max_size=4, max_weights=256 if big else 64,
        min_rank=2 if boost in ("mdom", "rdom", "jmono") else 1))
  if boost == "junimod" and max(sizes) < 3:
    sizes[draw(st.integers(0, len(sizes) - 1))] = 3
  lcfg = draw(S.lattice_config(sizes, approx=bool(boost) or
                               draw(st.booleans()),
                               trusts=boost != "junimod"))
  n = len(sizes)
  if boost == "junimod" and not lcfg["junimod"]:
    # construct (do not filter): free one dimension of size >= 3 from the
    # constraints a jointly unimodal dimension may not carry.
    d0 = int(np.argmax(sizes))
    if not any(lcfg["mono"][d] == 0 and sizes[d] >= 3 and
               lcfg["unimod"][d] == 0 for d in range(n)):
      lcfg["mono"][d0] = 0
      lcfg["unimod"][d0] = 0
      for fam in ("mdom", "rdom"):
        lcfg[fam] = [p for p in lcfg[fam] if d0 not in p]
  in_junimod = set(d for g in lcfg["junimod"] for d in g[0])
  if boost in ("mdom", "rdom") and not lcfg[boost]:
    free = [d for d in range(n) if lcfg["unimod"][d] == 0 and
            d not in in_junimod]
    if len(free) >= 2:
      a, b = draw(st.permutations(free))[:2]
      lcfg["mono"][a] = lcfg["mono"][b] = 1
      lcfg[boost] = [[a, b]]
  elif boost == "jmono" and not lcfg["jmono"]:
    a, b = draw(st.permutations(list(range(n))))[:2]
    lcfg["jmono"] = [[a, b]]
  elif boost in ("junimod", "unimod"):
    cand = [d for d in range(n) if lcfg["mono"][d] == 0 and sizes[d] >= 3 and
            lcfg["unimod"][d] == 0 and d not in in_junimod]
    if cand and boost == "unimod":
      lcfg["unimod"][cand[0]] = draw(st.sampled_from([-1, 1]))
    elif cand and not lcfg["junimod"]:
      k = draw(st.integers(1, min(2, len(cand))))
      lcfg["junimod"] = [[cand[:k], draw(st.sampled_from(["valley",
                                                          "peak"]))]]
  strict = draw(st.sampled_from([True, True, False]))
  if group == "W" and n >= 2 and draw(st.integers(0, 4)) == 0:
    # trust-squeeze focus (one weight case in five): trusts + two-sided bounds +
    # strict finalisation is the only route through the trust-aware bound
    # squeeze of the finaliser, which reduces over the lattice axes per unit
    # (audit mutant M-C09-3 survived a run with too few of these).
    if not lcfg["ew"] and not lcfg["tz"]:
      ju = set(d for g in lcfg["junimod"] for d in g[0])   # after the boosts
      mains = [d for d in range(n) if lcfg["mono"][d] == 1] or [
          d for d in range(n) if lcfg["unimod"][d] == 0 and d not in ju][:1]
      if mains:
        m = mains[0]
        lcfg["mono"][m] = 1
        c = (m + 1) % n
        lcfg["ew"] = [[m, c, draw(st.sampled_from([-1, 1]))]]
    if lcfg["ew"] or lcfg["tz"]:
      strict = True
      if lcfg["omin"] is None and lcfg["omax"] is None:
        lcfg["omin"], lcfg["omax"] = -1.0, 1.0
      elif lcfg["omin"] is None:
        lcfg["omin"] = float(lcfg["omax"]) - 2.0
      elif lcfg["omax"] is None:
        lcfg["omax"] = float(lcfg["omin"]) + 2.0
  return {"lcfg": lcfg,
          "iters": draw(st.sampled_from([0, 1, 2, 4] + ([10] if big else []))),
          "strict": strict,
          "entry": draw(st.sampled_from(["constraint", "constraint", "layer"])),
          "interp": draw(st.sampled_from(["hypercube", "hypercube", "simplex"])),
          "clip": pick("lattice-clip", [True, True, False] if group == "U"
                       else [True, False]),
          "xfmt": pick("xfmt", X_FORMATS),
          "extra": draw(st.lists(st.integers(1, 3), min_size=1, max_size=2))}


@st.composite
def _pwl_cfg(draw, tier, units, group="B"):
  p = draw(S.pwl_config(max_k=8 if tier == "quick" else 12,
                        iters=(0, 1, 2, 8)))
  p["units"] = units
  kp_type = draw(st.sampled_from(["fixed", "fixed", "learned_interior"]))
  if p["conv"] != 0:
    kp_type = "fixed"          # documented: convexity only with fixed keypoints
  return {"pcfg": p, "kp_type": kp_type,
          "entry": "layer" if p["cyclic"] else draw(st.sampled_from(
              ["constraint", "layer"])),
          "missing": draw(st.sampled_from(["none", "none", "value", "tensor"])),
          # a shared input column has no per-unit inputs to perturb
          "x_cols": draw(st.sampled_from(["units"] * (5 if group == "U" else 2)
                                         + ["one"])),
          "split": draw(st.sampled_from([False, False, True]))}


@st.composite
def _cat_cfg(draw, tier, group, pick):
  n = draw(st.integers(1, 12 if tier == "thorough" else 8))
  pairs = draw(S.dag_pairs(n, max_edges=8)) if n >= 2 else []
  bm = draw(st.sampled_from(["none", "min", "max", "both"]))
  lo = S.f32(draw(st.sampled_from([-10.0, -1.0, 0.0, 0.5, 100.0])))
  width = S.f32(draw(st.sampled_from([0.0, 0.5, 1.0, 1000.0])))
  return {"buckets": n, "pairs": pairs,
          "omin": lo if bm in ("min", "both") else None,
          "omax": S.f32(lo + width) if bm in ("max", "both") else None,
          "entry": draw(st.sampled_from(["constraint", "layer"])),
          "default": pick("cat-default", [None, -1, -1]) if group == "U" else
                     draw(st.sampled_from([None, None, -1])),
          "x_cols": draw(st.sampled_from(["units"] * (5 if group == "U" else 2)
                                         + ["one"])),
          "int_input": draw(st.booleans()),
          "split": draw(st.sampled_from([False, False, True]))}


@st.composite
def _linear_cfg(draw, tier, units):
  cfg = draw(S.linear_config(max_dims=12 if tier == "thorough" else 8))
  cfg["units"] = units
  cfg["entry"] = draw(st.sampled_from(["constraint", "layer"]))
  return cfg


@st.composite
def _kfl_cfg(draw, tier, group, pick):
  size = draw(st.integers(2, 4))
  dims = draw(st.integers(1, 4 if size < 4 else 3))
  mm = draw(st.sampled_from(["none", "all", "some", "some"]))
  mono = [0 if mm == "none" else 1 if mm == "all" else draw(st.integers(0, 1))
          for _ in range(dims)]
  bm = draw(st.sampled_from(["none", "min", "max", "both", "both"]))
  lo = S.f32(draw(st.sampled_from([-10.0, -1.0, 0.0, 0.5, 100.0])))
  width = S.f32(draw(st.sampled_from([0.5, 1.0, 3.0, 1000.0])))
  return {"size": size, "dims": dims, "terms": draw(st.integers(1, 4)),
          "mono": mono, "omin": lo if bm in ("min", "both") else None,
          "omax": S.f32(lo + width) if bm in ("max", "both") else None,
          "clip": pick("kfl-clip", [True, True, False] if group == "U"
                       else [True, False]),
          "xfmt": pick("xfmt", X_FORMATS),
          "extra": draw(st.lists(st.integers(1, 3), min_size=1, max_size=2)),
          "entry": draw(st.sampled_from(["constraint", "layer"])),
          "scale": draw(S.array_desc(
              kinds=["normal", "ints", "ties", "uniform", "zeros"],
              scales=[1e-3, 1.0, 1.0, 10.0, 1e3]))}


@st.composite
def _cdf_cfg(draw, tier, functional, pick):
  sf = pick("cdf-sparsity", [1, 2, 3])
  cfg = {"sf": sf, "m": draw(st.integers(1, 3)),
         "dim": sf * draw(st.integers(1, 3)), "k": draw(st.integers(1, 6)),
         "activation": draw(st.sampled_from(["relu6", "sigmoid"])),
         "reduction": draw(st.sampled_from(["mean", "geometric_mean", "none"]))}
  if functional:
    cfg["scaling"] = pick("cdf-scaling", ["none", "b_d_1_1", "b_d_k_1",
                                          "b_d_1_m", "b_d_1_m", "b_d_k_m",
                                          "1_d_1_1"])
    cfg["exp_mult"] = draw(st.sampled_from([None, None, 0.5]))
    cfg["loc_batch"] = draw(st.sampled_from([True, True, True, False]))
  else:
    cfg["scaling_type"] = draw(st.sampled_from(
        ["fixed", "learned_shared", "learned_per_input"]))
    cfg["scaling_init"] = draw(st.sampled_from([None, 0.5, 3.0]))
  return cfg


@st.composite
def _pwl_fn_cfg(draw, tier, units, pick):
  k = draw(st.integers(2, 6))
  mono = draw(st.sampled_from(["none", "increasing"]))
  cyclic = mono == "none" and draw(st.sampled_from([False, False, True]))
  cmin = mono == "increasing" and draw(st.booleans())
  cmax = mono == "increasing" and draw(st.booleans())
  missing = draw(st.sampled_from(["none", "none", "derived", "fixed"]))
  p = k - cmin - cmax - cyclic + (missing == "derived")
  if p <= 0:               # documented as invalid (trivial function)
    cmin = cmax = False
  lo = draw(st.sampled_from([-10.0, 0.0, 0.5]))
  olo = draw(st.sampled_from([-1.0, 0.0, 100.0]))
  return {"k": k, "mono": mono, "cyclic": bool(cyclic), "cmin": bool(cmin),
          "cmax": bool(cmax), "missing": missing,
          "in_min": lo, "in_max": lo + draw(st.sampled_from([0.5, 1.0, 20.0])),
          "omin": olo, "omax": olo + draw(st.sampled_from([0.25, 1.0, 50.0])),
          "x_cols": "one" if units == 1 else draw(
              st.sampled_from(["units", "one"])),
          "pin": pick("pwl-fn-pin", ["bU", "bU", "b1", "1U", "11"] +
                      (["b"] * 4 if units == 1 else [])),
          "pout": pick("pwl-fn-pout", ["bU", "bU", "bU", "1U"] +
                       (["b"] * 3 if units == 1 else []))}


@st.composite
def _rtl_cfg(draw, tier, pick):
  fmt = draw(st.sampled_from(["tensor", "dict", "dict"]))
  if fmt == "tensor":
    groups = {"unconstrained": draw(st.integers(1, 5))}
  else:
    groups = {}
    keys = draw(st.sampled_from([["increasing", "unconstrained"]] * 3 +
                                [["increasing"], ["unconstrained"]]))
    for key in keys:
      if draw(st.booleans()):
        groups[key] = draw(st.integers(1, 3))
      else:
        groups[key] = [draw(st.integers(1, 2)) for _ in
                       range(draw(st.integers(1, 3)))]
  n_in = sum(v if isinstance(v, int) else sum(v) for v in groups.values())
  rank = draw(st.integers(1, 3))
  min_lat = -(-n_in // rank)
  # average_outputs is documented as ignored when separate_outputs is set
  mode = pick("rtl-outputs", ["joint", "joint", "averaged", "averaged",
                              "separate", "separate", "separate+averaged"])
  return {"format": fmt, "groups": groups, "rank": rank,
          "num": draw(st.integers(min_lat, min_lat + 3)),
          "size": draw(st.sampled_from([2, 2, 3])),
          "param": draw(st.sampled_from(["all_vertices", "all_vertices",
                                         "kronecker_factored"])),
          "interp": draw(st.sampled_from(["hypercube", "simplex"])),
          "terms": draw(st.integers(1, 3)),
          "separate": mode.startswith("separate"),
          "average": mode.endswith("averaged"),
          "rtl_seed": draw(st.integers(0, 1000))}


@st.composite
def _parcomb_cfg(draw, tier):
  cals = []
  for _ in range(draw(st.integers(1, 4))):
    if draw(st.booleans()):
      kp = draw(S.pwl_keypoints(max_k=6))
      cals.append({"type": "pwl", "kp": kp,
                   "cyclic": len(kp) >= 3 and draw(st.sampled_from(
                       [False, False, True])),
                   "learned": draw(st.sampled_from([False, False, True]))})
    else:
      cals.append({"type": "cat", "buckets": draw(st.integers(1, 6)),
                   "default": draw(st.sampled_from([None, None, -1]))})
  return {"cals": cals, "list_input": draw(st.booleans()),
          "single_output": draw(st.sampled_from([True, True, False]))}


@st.composite
def _premade_cfg(draw, tier):
  feats = []
  for _ in range(draw(st.integers(2, 3))):
    if draw(st.sampled_from([True, True, False])):
      feats.append({"type": "num", "kp": draw(S.pwl_keypoints(max_k=5)),
                    "size": draw(st.sampled_from([2, 2, 3])),
                    "mono": draw(st.sampled_from(["none", "increasing",
                                                  "decreasing"]))})
    else:
      feats.append({"type": "cat", "buckets": draw(st.integers(2, 4)),
                    "size": 2})
  return {"feats": feats, "out_calib": draw(st.booleans()),
          "interp": draw(st.sampled_from(["hypercube", "simplex"]))}


@st.composite
def _premade_model_cfg(draw, tier, kind, pick):
  """CalibratedLinear / CalibratedLatticeEnsemble (explicit, random and
  rtl_layer lattices) descriptions shared with C03 / C11 (vlib.models)."""
  from vlib import models as M
  kinds = ["linear"] if kind == "premade_linear" else [pick(
      "ensemble", ["ensemble_explicit", "ensemble_random", "ensemble_rtl"])]
  return {"desc": draw(M.model_desc(tier, kinds=kinds))}


@st.composite
def _aggregation_cfg(draw, tier, batch, pick):
  sizes = draw(S.lattice_sizes(max_rank=3, max_size=3, max_weights=27))
  return {"sizes": sizes,
          "lengths": [draw(st.integers(1, 5)) for _ in range(batch)],
          "dict_input": pick("agg-dict", [False, True]),
          "calibrated": pick("agg-calibrated", [False, True])}


@st.composite
def _case(draw, tier):
  big = tier == "thorough"
  # three draws: Hypothesis favours small integers (about 20% of the draws of
  # one seed are < 256), which alone would repeat the same picks
  mix = hash32(draw(S.seeds), draw(S.seeds), draw(S.seeds))
  pick = _picker(mix)
  group = draw(st.sampled_from(["W", "W", "W", "U", "U", "B", "B", "B"]))
  if group == "W":
    kind = draw(st.sampled_from(W_KINDS))
    rel = draw(st.sampled_from(W_RELS))
    units = draw(st.integers(3 if rel == "unit-subset" else 2,
                             6 if big else 4))
    if not big and draw(st.integers(0, 14)) == 0:
      units = 5                 # small quota beyond 4 units in the quick tier
  elif group == "U":
    kind = draw(st.sampled_from(U_KINDS))
    rel = "unit-perturb"
    units = draw(st.integers(2, 6 if big else 4))
  else:
    kind = draw(st.sampled_from(B_KINDS))
    rel = draw(st.sampled_from(B_RELS))
    units = draw(st.sampled_from([1, 2, 3, 4]))
    if kind == "pwl_fn":       # the 2-D parameter forms need units == 1
      units = pick("pwl-fn-units", [1, 1, 2, 3, 4])
  batch = draw(st.integers(3 if rel == "batch-subset" else 2,
                           10 if big else 6))
  if (group == "B" and rel != "batch-row" and kind in BIG_BATCH_KINDS and
      draw(st.integers(0, 5)) == 0):
    batch = draw(st.sampled_from([17, 33, 64]))
  base = kind.split("_")[0] if kind.startswith("kfl") else kind
  rows = None
  if base == "lattice":
    cfg = draw(_lattice_cfg(tier, group, pick))
    rows = int(np.prod(cfg["lcfg"]["sizes"]))
  elif base == "pwl":
    cfg = draw(_pwl_cfg(tier, units, group))
    rows = len(cfg["pcfg"]["keypoints"]) - (1 if cfg["pcfg"]["cyclic"] else 0)
  elif base == "categorical":
    cfg = draw(_cat_cfg(tier, group, pick))
    rows = cfg["buckets"]
  elif base == "linear":
    cfg = draw(_linear_cfg(tier, units))
    rows = cfg["dims"]
  elif base == "kfl":
    cfg = draw(_kfl_cfg(tier, group, pick))
    rows = cfg["size"] * cfg["dims"] * cfg["terms"]
  elif kind in ("cdf", "cdf_fn"):
    cfg = draw(_cdf_cfg(tier, kind == "cdf_fn", pick))
    units = cfg["sf"] * cfg["m"]
  elif kind == "pwl_fn":
    cfg = draw(_pwl_fn_cfg(tier, units, pick))
  elif kind == "rtl":
    cfg = draw(_rtl_cfg(tier, pick))
  elif kind == "parcomb":
    cfg = draw(_parcomb_cfg(tier))
  elif kind in ("premade_linear", "premade_ensemble"):
    cfg = draw(_premade_model_cfg(tier, kind, pick))
  elif kind == "aggregation":
    cfg = draw(_aggregation_cfg(tier, batch, pick))
  else:
    cfg = draw(_premade_cfg(tier))
  return {"group": group, "kind": kind, "rel": rel, "units": units,
          "batch": batch, "cfg": cfg,
          "mix": mix, "xpert": pick("xpert", ["swap", "hostile", "hostile"]),
          "kernel": draw(S.array_desc(
              shape=(rows, units) if rows is not None else None)),
          "x": draw(S.array_desc(kinds=["normal", "uniform", "ints", "ties"],
                                 scales=[1e-3, 1.0, 1.0, 10.0, 1e3])),
          "aux": draw(S.seeds)}


def strategy(tier):
  return _case(tier)


# ---------------------------------------------------------------------------
# helpers
def _tfl():
  import tensorflow as tf
  import tensorflow_lattice as tfl
  return tf, tfl


def _f64(t):
  return np.asarray(t.numpy() if hasattr(t, "numpy") else t, np.float64)


def _entry_point(fn, name, limit=120):
  """Public tf.function; it keeps every trace alive, so after `limit` uses per
  process a fresh tf.function around the same Python function is used."""
  import tensorflow as tf
  n = _FN_USES.get(name, 0)
  _FN_USES[name] = n + 1
  if n < limit or not hasattr(fn, "python_function"):
    return fn
  return tf.function(fn.python_function)


class _FnCrash(Exception):
  """A functional entry point raised on a valid call.  Inside a tf.function
  the traceback no longer names the library file, so the harness could not
  attribute it; run_case turns it into a violation."""

  def __init__(self, name, err):
    Exception.__init__(self, "%s raised %s: %s" % (name, type(err).__name__,
                                                   str(err)[:300]))
    self.name, self.exc = name, type(err).__name__


def _call_fn(fn, name, *args, **kw):
  try:
    return fn(*args, **kw)
  except Exception as e:  # pylint: disable=broad-except
    raise _FnCrash(name, e)


def _new_values(rs, old, mag):
  """Replacement float32 values for one unit's parameters (clearly different)."""
  old = np.asarray(old, np.float64)
  mode = rs.randint(3)
  if mode == 0:
    new = -old + mag * rs.normal(size=old.shape)
  elif mode == 1:
    new = mag * rs.uniform(-2, 2, size=old.shape)
  else:
    new = old * 3.0 + mag * (0.5 + rs.rand(*old.shape))
  return new.astype(np.float32)


def _lattice_points(rs, prefix, sizes, clip):
  d = len(sizes)
  hi = np.asarray(sizes, np.float64) - 1.0
  n = int(np.prod(prefix))
  inside = rs.uniform(0, 1, size=(n, d)) * hi
  vert = rs.randint(0, 1000, size=(n, d)) % np.asarray(sizes)
  outside = np.where(rs.rand(n, d) < 0.5, -rs.uniform(0.1, 2, size=(n, d)),
                     hi + rs.uniform(0.1, 2, size=(n, d)))
  pick = rs.randint(0, 3 if clip else 2, size=(n, d))
  x = np.where(pick == 0, inside, np.where(pick == 1, vert, outside))
  return x.astype(np.float32).reshape(tuple(prefix) + (d,))


def _pwl_points(rs, shape, kp, missing_value=None):
  kp = np.asarray(kp, np.float64)
  span = kp[-1] - kp[0]
  free = rs.uniform(kp[0] - 0.3 * span, kp[-1] + 0.3 * span, size=shape)
  at_kp = kp[rs.randint(0, len(kp), size=shape)]
  pick = rs.randint(0, 3, size=shape)
  x = np.where(pick == 0, at_kp, free)
  if missing_value is not None:
    x = np.where(rs.rand(*shape) < 0.25, missing_value, x)
  return x.astype(np.float32)


def _kfl_to_lib(w2d, cfg):
  """(size*dims*terms, m) unit-per-column -> (1, size, m*dims, terms)."""
  m = w2d.shape[1]
  a = w2d.reshape(cfg["size"], cfg["dims"], cfg["terms"], m)
  a = a.transpose(0, 3, 1, 2)
  return np.ascontiguousarray(a).reshape(1, cfg["size"], m * cfg["dims"],
                                         cfg["terms"])


def _kfl_from_lib(k, cfg, m):
  a = np.asarray(k).reshape(cfg["size"], m, cfg["dims"], cfg["terms"])
  return a.transpose(0, 2, 3, 1).reshape(-1, m)


class Model(object):
  """A built layer/function: batch-first inputs, call, unit perturbation."""

  def __init__(self):
    self.inputs = []        # list of (float/int array, batched?)
    self.call = None        # list of arrays -> list of batch-first arrays
    self.mag = 1.0          # magnitude of the terms summed into an output
    self.perturb = None     # v -> None (replaces unit v's parameters)
    self.unit_inputs = []   # (index, unit axis) of inputs with a unit axis
    self.hostile = None     # (index, current unit slice) -> replacement
                            # values far from the other units' inputs (out of
                            # range / missing value), or None
    self.out_shape = None   # expected output shape (default (batch, units))
    self.extra_tol = None   # inputs -> per-output elementwise allowance
    self.labels = []


def _lead_shape(cfg, b):
  """Leading (batch, extra...) dimensions of a Lattice / KFL input."""
  if "extra" in cfg.get("xfmt", "tensor"):
    return (b,) + tuple(cfg["extra"])
  return (b,)


def _pack_points(tf, a, cfg):
  """Canonical (batch, ..., [units,] dims) array -> the drawn input format."""
  if "list" in cfg.get("xfmt", "tensor"):
    return [tf.constant(a[..., j:j + 1]) for j in range(a.shape[-1])]
  return tf.constant(a)


def _outside_points(rs, shape, sizes):
  """Points clearly outside [0, size - 1] in every dimension (clipped layers)."""
  hi = np.asarray(sizes, np.float64) - 1.0
  return np.where(rs.rand(*shape) < 0.5, -rs.uniform(0.5, 50, size=shape),
                  hi + rs.uniform(0.5, 50, size=shape)).astype(np.float32)


# ---------------------------------------------------------------------------
# builders: layers with units
def _b_lattice(case, rs):
  tf, tfl = _tfl()
  cfg, u, b = case["cfg"], case["units"], case["batch"]
  lcfg = cfg["lcfg"]
  sizes = lcfg["sizes"]
  d, n = len(sizes), int(np.prod(sizes))
  k = S.materialize(case["kernel"], (n, u))
  layer = tfl.layers.Lattice(units=u, interpolation=cfg["interp"],
                             clip_inputs=cfg["clip"], **S.lattice_kwargs(lcfg))
  xfmt = cfg.get("xfmt", "tensor")
  lead = _lead_shape(cfg, b)
  m = Model()
  m.inputs = [(_lattice_points(rs, lead if u == 1 else lead + (u,), sizes,
                               cfg["clip"]), True)]
  if xfmt == "tensor":
    layer.build((None, d) if u == 1 else (None, u, d))
  else:
    layer(_pack_points(tf, m.inputs[0][0], cfg))      # builds
  layer.kernel.assign(k)
  m.call = lambda a: [_f64(layer(_pack_points(tf, a[0], cfg)))]
  m.out_shape = lead + (u,)
  m.mag = scale_of(k)
  if cfg["clip"]:
    m.hostile = lambda i, cur: _outside_points(rs, cur.shape, sizes)

  def perturb(v):
    k2 = layer.kernel.numpy()
    k2[:, v] = _new_values(rs, k2[:, v], m.mag)
    layer.kernel.assign(k2)
  m.perturb = perturb
  m.unit_inputs = [(0, -2)]
  m.labels = ["lattice:" + cfg["interp"], "lattice:clip=%s" % cfg["clip"],
              "lattice:rank=%d" % d, "lattice:x-format=" + xfmt]
  if xfmt != "tensor" and u > 1:
    m.labels.append("lattice:x-format=%s,units>1" % xfmt)
  return m


def _b_pwl(case, rs):
  tf, tfl = _tfl()
  cfg, u, b = case["cfg"], case["units"], case["batch"]
  p = cfg["pcfg"]
  kp = np.asarray(p["keypoints"], np.float32)
  rows = len(kp) - (1 if p["cyclic"] else 0)
  k = S.materialize(case["kernel"], (rows, u))
  kw = S.pwl_layer_kwargs(p)
  miss = cfg["missing"]
  if miss != "none":
    kw["impute_missing"] = True
    if miss == "value":
      kw["missing_input_value"] = MISSING
  layer = tfl.layers.PWLCalibration(input_keypoints_type=cfg["kp_type"],
                                    split_outputs=cfg["split"], **kw)
  cols = u if cfg["x_cols"] == "units" else 1
  layer.build((None, cols))
  layer.kernel.assign(k)
  learned = cfg["kp_type"] == "learned_interior"
  if learned:
    layer.interpolation_logits.assign(
        rs.normal(size=(u, len(kp) - 1)).astype(np.float32))
  mag = float(np.max(np.sum(np.abs(k.astype(np.float64)), axis=0)))
  if miss != "none":
    mo = (rs.normal(size=(1, u)) * max(1.0, mag)).astype(np.float32)
    layer.missing_output.assign(mo)
    mag = max(mag, float(np.max(np.abs(mo))))
  m = Model()
  x = _pwl_points(rs, (b, cols), kp, MISSING if miss == "value" else None)
  m.inputs = [(x, True)]
  if miss == "tensor":
    m.inputs.append(((rs.rand(b, cols) < 0.3).astype(np.float32), True))

  def call(a):
    inp = tf.constant(a[0])
    if miss == "tensor":
      inp = [inp, tf.constant(a[1])]
    y = layer(inp)
    if isinstance(y, (list, tuple)):
      y = tf.concat(y, axis=1)
    return [_f64(y)]
  m.call = call
  m.mag = max(1.0, mag)

  def perturb(v):
    k2 = layer.kernel.numpy()
    k2[:, v] = _new_values(rs, k2[:, v], max(1.0, scale_of(k)))
    layer.kernel.assign(k2)
    if learned:
      lg = layer.interpolation_logits.numpy()
      lg[v, :] = rs.normal(size=lg.shape[1]) * 2
      layer.interpolation_logits.assign(lg)
    if miss != "none":
      mo2 = layer.missing_output.numpy()
      mo2[0, v] = _new_values(rs, mo2[0, v:v + 1], m.mag)[0]
      layer.missing_output.assign(mo2)
  m.perturb = perturb
  m.unit_inputs = [(i, 1) for i in range(len(m.inputs))] if (
      cols == u and u > 1) else []

  def hostile(i, cur):
    if i == 1:                      # is_missing tensor: flip it
      return (1.0 - cur).astype(np.float32)
    span = float(kp[-1] - kp[0])
    far = np.where(rs.rand(*cur.shape) < 0.5,
                   kp[0] - span * rs.uniform(1, 50, size=cur.shape),
                   kp[-1] + span * rs.uniform(1, 50, size=cur.shape))
    if miss == "value":
      far = np.where(rs.rand(*cur.shape) < 0.5, MISSING, far)
    return far.astype(np.float32)
  m.hostile = hostile
  m.labels = ["pwl:" + cfg["kp_type"], "pwl:missing=" + miss,
              "pwl:x=" + ("per-unit" if cols == u and u > 1 else "shared"),
              "pwl:cyclic" if p["cyclic"] else "pwl:open"]
  return m


def _b_categorical(case, rs):
  tf, tfl = _tfl()
  cfg, u, b = case["cfg"], case["units"], case["batch"]
  nb = cfg["buckets"]
  k = S.materialize(case["kernel"], (nb, u))
  kw = {}
  if cfg["default"] is not None:
    kw["default_input_value"] = cfg["default"]
  layer = tfl.layers.CategoricalCalibration(
      num_buckets=nb, units=u, output_min=cfg["omin"], output_max=cfg["omax"],
      monotonicities=[tuple(p) for p in cfg["pairs"]] or None,
      split_outputs=cfg["split"], **kw)
  cols = u if cfg["x_cols"] == "units" else 1
  layer.build((None, cols))
  layer.kernel.assign(k)
  x = rs.randint(0, nb, size=(b, cols))
  if cfg["default"] is not None:
    x = np.where(rs.rand(b, cols) < 0.3, cfg["default"], x)
  x = x.astype(np.int32 if cfg["int_input"] else np.float32)
  m = Model()
  m.inputs = [(x, True)]

  def call(a):
    y = layer(tf.constant(a[0]))
    if isinstance(y, (list, tuple)):
      y = tf.concat(y, axis=1)
    return [_f64(y)]
  m.call = call
  m.mag = scale_of(k)

  def perturb(v):
    k2 = layer.kernel.numpy()
    k2[:, v] = _new_values(rs, k2[:, v], m.mag)
    layer.kernel.assign(k2)
  m.perturb = perturb
  m.unit_inputs = [(0, 1)] if cols == u and u > 1 else []
  if cfg["default"] is not None:
    # the missing-value bucket; without one every other input is invalid
    m.hostile = lambda i, cur: np.full(cur.shape, cfg["default"], cur.dtype)
  m.labels = ["categorical:x=" + ("per-unit" if cols == u and u > 1 else
                                  "shared"),
              "categorical:%s-input" % ("int" if cfg["int_input"] else "float")]
  return m


def _b_linear(case, rs):
  tf, tfl = _tfl()
  cfg, u, b = case["cfg"], case["units"], case["batch"]
  d = cfg["dims"]
  k = S.materialize(case["kernel"], (d, u))
  layer = tfl.layers.Linear(num_input_dims=d, units=u,
                            use_bias=cfg["use_bias"], **S.linear_kwargs(cfg))
  layer.build((None, d) if u == 1 else (None, u, d))
  layer.kernel.assign(k)
  bias = (rs.normal(size=u) * scale_of(k)).astype(np.float32)
  if cfg["use_bias"]:
    layer.bias.assign(bias[0] if u == 1 else bias)
  x = S.materialize(case["x"], (b * u * d, 1)).reshape(b, u, d)
  lo = np.array([-np.inf if v is None else v for v in cfg["input_min"]])
  hi = np.array([np.inf if v is None else v for v in cfg["input_max"]])
  xc = np.minimum(np.maximum(x.astype(np.float64), lo), hi)
  m = Model()
  m.inputs = [(x[:, 0, :] if u == 1 else x, True)]
  m.call = lambda a: [_f64(layer(tf.constant(a[0])))]
  m.mag = float(np.max(np.abs(k.astype(np.float64)).sum(0)) * max(
      1.0, float(np.max(np.abs(xc)))) + np.max(np.abs(bias)))

  def perturb(v):
    k2 = layer.kernel.numpy()
    k2[:, v] = _new_values(rs, k2[:, v], scale_of(k))
    layer.kernel.assign(k2)
    if cfg["use_bias"]:
      b2 = layer.bias.numpy()
      b2[v] = _new_values(rs, b2[v:v + 1], scale_of(k))[0]
      layer.bias.assign(b2)
  m.perturb = perturb
  m.unit_inputs = [(0, -2)]
  # far beyond the other units' inputs (and beyond input_min / input_max
  # where the layer clips); Linear has no documented input domain.
  xmax = max(1.0, float(np.max(np.abs(x))))
  m.hostile = lambda i, cur: (rs.choice([-1.0, 1.0], size=cur.shape) * xmax *
                              rs.uniform(30, 100, size=cur.shape)).astype(
                                  np.float32)
  m.labels = ["linear:bias" if cfg["use_bias"] else "linear:nobias"]
  return m


def _b_kfl(case, rs):
  tf, tfl = _tfl()
  cfg, u, b = case["cfg"], case["units"], case["batch"]
  size, d, t = cfg["size"], cfg["dims"], cfg["terms"]
  k2d = S.materialize(case["kernel"], (size * d * t, u))
  sc = S.materialize(cfg["scale"], (t, u)).T.copy()
  kw = dict(lattice_sizes=size, units=u, num_terms=t, output_min=cfg["omin"],
            output_max=cfg["omax"], clip_inputs=cfg["clip"])
  if any(cfg["mono"]):
    kw["monotonicities"] = list(cfg["mono"])
  layer = tfl.layers.KroneckerFactoredLattice(**kw)
  xfmt = cfg.get("xfmt", "tensor")
  lead = _lead_shape(cfg, b)
  m = Model()
  m.inputs = [(_lattice_points(rs, lead if u == 1 else lead + (u,), [size] * d,
                               cfg["clip"]), True)]
  if xfmt == "tensor":
    layer.build(tf.TensorShape((None, d) if u == 1 else (None, u, d)))
  else:
    layer(_pack_points(tf, m.inputs[0][0], cfg))      # builds
  layer.kernel.assign(_kfl_to_lib(k2d, cfg))
  layer.scale.assign(sc)
  bias = rs.normal(size=u).astype(np.float32)
  layer.bias.assign(bias)
  m.call = lambda a: [_f64(layer(_pack_points(tf, a[0], cfg)))]
  m.out_shape = lead + (u,)
  if cfg["clip"]:
    m.hostile = lambda i, cur: _outside_points(rs, cur.shape, [size] * d)
  kmax = np.max(np.abs(k2d.astype(np.float64).reshape(size, d, t, u)), axis=0)
  m.mag = float(np.max(np.mean(np.abs(sc.T.astype(np.float64)) *
                               np.prod(kmax, axis=0), axis=0)) +
                np.max(np.abs(bias)))

  def perturb(v):
    cur = _kfl_from_lib(layer.kernel.numpy(), cfg, u)
    cur[:, v] = _new_values(rs, cur[:, v], scale_of(k2d))
    layer.kernel.assign(_kfl_to_lib(cur, cfg))
    s2 = layer.scale.numpy()
    s2[v, :] = _new_values(rs, s2[v, :], scale_of(sc))
    layer.scale.assign(s2)
    b2 = layer.bias.numpy()
    b2[v] += 1.5
    layer.bias.assign(b2)
  m.perturb = perturb
  m.unit_inputs = [(0, -2)]
  m.labels = ["kfl:terms=%d" % t, "kfl:clip=%s" % cfg["clip"],
              "kfl:x-format=" + xfmt]
  if xfmt != "tensor" and u > 1:
    m.labels.append("kfl:x-format=%s,units>1" % xfmt)
  return m


# ---------------------------------------------------------------------------
# builders: batch-only entry points
def _b_cdf(case, rs):
  tf, tfl = _tfl()
  cfg, b = case["cfg"], case["batch"]
  sf, m_, dim, kk = cfg["sf"], cfg["m"], cfg["dim"], cfg["k"]
  layer = tfl.layers.CDF(
      num_keypoints=kk, units=sf * m_, activation=cfg["activation"],
      reduction=cfg["reduction"], sparsity_factor=sf,
      input_scaling_type=cfg["scaling_type"],
      input_scaling_init=cfg["scaling_init"])
  layer.build((None, dim))
  layer.kernel.assign(rs.uniform(-0.2, 1.2, size=(1, dim, kk, m_)).astype(
      np.float32))
  if cfg["scaling_type"] != "fixed":
    layer.input_scaling.assign(rs.uniform(0.2, 6.0, size=tuple(
        layer.input_scaling.shape)).astype(np.float32))
  x = np.clip(S.materialize(case["x"], (b * dim, 1)).reshape(b, dim), -3, 3)
  if float(np.max(np.abs(x))) < 1e-2:
    x = rs.uniform(-0.5, 1.5, size=(b, dim))
  m = Model()
  m.inputs = [(x.astype(np.float32), True)]
  m.call = lambda a: [_f64(layer(tf.constant(a[0])))]
  m.labels = ["cdf:" + cfg["activation"], "cdf:reduction=" + cfg["reduction"],
              "cdf:sparsity=%d" % sf, "cdf:scaling=" + cfg["scaling_type"]]
  return m


def _b_cdf_fn(case, rs):
  tf, tfl = _tfl()
  cfg, b = case["cfg"], case["batch"]
  sf, m_, dim, kk = cfg["sf"], cfg["m"], cfg["dim"], cfg["k"]
  fn = _entry_point(tfl.conditional_cdf.cdf_fn, "cdf_fn")
  x = rs.uniform(-0.5, 1.5, size=(b, dim)).astype(np.float32)
  lb = cfg["loc_batch"]
  loc = rs.uniform(-0.2, 1.2, size=(b if lb else 1, dim, kk, m_)).astype(
      np.float32)
  m = Model()
  m.inputs = [(x, True), (loc, lb)]
  sc = cfg["scaling"]
  if sc != "none":
    shape = {"b_d_1_1": (b, dim, 1, 1), "b_d_k_1": (b, dim, kk, 1),
             "b_d_1_m": (b, dim, 1, m_), "b_d_k_m": (b, dim, kk, m_),
             "1_d_1_1": (1, dim, 1, 1)}[sc]
    if not lb:
      shape = (1,) + shape[1:]
    if cfg["exp_mult"] is not None:
      sp = rs.normal(size=shape)
    else:
      sp = rs.uniform(0.2, 6.0, size=shape)
    m.inputs.append((sp.astype(np.float32), shape[0] == b and lb))

  def call(a):
    kw = dict(units=sf * m_, activation=cfg["activation"],
              reduction=cfg["reduction"], sparsity_factor=sf)
    if sc != "none":
      kw["scaling_parameters"] = tf.constant(a[2])
      if cfg["exp_mult"] is not None:
        kw["scaling_exp_transform_multiplier"] = cfg["exp_mult"]
    return [_f64(_call_fn(fn, "cdf_fn", tf.constant(a[0]), tf.constant(a[1]),
                          **kw))]
  m.call = call
  m.labels = ["cdf_fn:" + cfg["activation"],
              "cdf_fn:reduction=" + cfg["reduction"],
              "cdf_fn:scaling=" + sc,
              "cdf_fn:per-example-locations" if lb else
              "cdf_fn:shared-locations"]
  return m


def _b_pwl_fn(case, rs):
  tf, tfl = _tfl()
  cfg, u, b = case["cfg"], case["units"], case["batch"]
  fn = _entry_point(tfl.conditional_pwl_calibration.pwl_calibration_fn,
                    "pwl_fn")
  kk = cfg["k"]
  p = kk - cfg["cmin"] - cfg["cmax"] - cfg["cyclic"] + (
      cfg["missing"] == "derived")
  lo, hi = cfg["in_min"], cfg["in_max"]
  cols = u if cfg["x_cols"] == "units" else 1
  missing_value = None if cfg["missing"] == "none" else lo - 5.0
  x = rs.uniform(lo - 0.3 * (hi - lo), hi + 0.3 * (hi - lo), size=(b, cols))
  x = np.where(rs.rand(b, cols) < 0.15, rs.choice([lo, hi], size=(b, cols)), x)
  if missing_value is not None:
    x = np.where(rs.rand(b, cols) < 0.25, missing_value, x)
  m = Model()
  m.inputs = [(x.astype(np.float32), True)]

  def shaped(form, last):
    if form == "b":
      return (b, last), True
    return ((b if form[0] == "b" else 1), (u if form[1] == "U" else 1),
            last), form[0] == "b"
  pin_idx = None
  if kk > 2:
    shape, batched = shaped(cfg["pin"], kk - 2)
    m.inputs.append((rs.normal(size=shape).astype(np.float32) * 1.5, batched))
    pin_idx = 1
  shape, batched = shaped(cfg["pout"], p)
  m.inputs.append((rs.normal(size=shape).astype(np.float32) * 2, batched))
  pout_idx = len(m.inputs) - 1

  def call(a):
    kw = dict(keypoint_input_min=lo, keypoint_input_max=hi,
              keypoint_output_min=cfg["omin"], keypoint_output_max=cfg["omax"],
              units=u, monotonicity=cfg["mono"], clamp_min=cfg["cmin"],
              clamp_max=cfg["cmax"], is_cyclic=cfg["cyclic"])
    if missing_value is not None:
      kw["missing_input_value"] = missing_value
      if cfg["missing"] == "fixed":
        kw["missing_output_value"] = cfg["omin"]
    pin = None if pin_idx is None else tf.constant(a[pin_idx])
    call.kw = kw
    return [_f64(_call_fn(fn, "pwl_calibration_fn", tf.constant(a[0]), pin,
                          tf.constant(a[pout_idx]), **kw))]
  m.call = call
  m.mag = max(1.0, abs(cfg["omin"]), abs(cfg["omax"]))

  def extra_tol(a):
    """Conditioning of the interpolation weights (x - keypoint) / length.

    The keypoints are a per-example softmax; TensorFlow's vectorised exp may
    round differently by one ulp depending on the position of the row in the
    batch, which moves a keypoint by a few ulps of the input range.  A segment
    x lies in (or touches) passes that on amplified by 1 / length.  Lengths
    and output deltas are the library's own derived parameters.
    """
    kw = dict(call.kw, return_derived_parameters=True)
    pin = None if pin_idx is None else tf.constant(a[pin_idx])
    _, deltas, kern = _call_fn(fn, "pwl_calibration_fn", tf.constant(a[0]),
                               pin, tf.constant(a[pout_idx]), **kw)
    ln, dy = _f64(deltas), np.abs(_f64(kern)[..., 1:])
    kp = lo + np.cumsum(ln, axis=-1) - ln
    xx = a[0].astype(np.float64)[:, :, None]
    d = (kk + 2) * EPS32 * (max(abs(lo), abs(hi)) + (hi - lo))
    near = (xx >= kp - d) & (xx <= kp + ln + d)
    with np.errstate(divide="ignore"):
      amp = np.minimum(1.0, 2 * d / ln)
    e = np.sum(np.where(near, dy * amp, 0.0), axis=-1)
    return [np.broadcast_to(e, (a[0].shape[0], u)).copy()]
  m.extra_tol = extra_tol
  m.labels = ["pwl_fn:" + cfg["mono"], "pwl_fn:missing=" + cfg["missing"],
              "pwl_fn:keypoints=" + ("2" if kk == 2 else ">2"),
              "pwl_fn:in-params=" + (cfg["pin"] if kk > 2 else "None"),
              "pwl_fn:out-params=" + cfg["pout"]]
  return m


def _b_rtl(case, rs):
  tf, tfl = _tfl()
  cfg, b = case["cfg"], case["batch"]
  groups, rank, s = cfg["groups"], cfg["rank"], cfg["size"]
  param = cfg["param"]
  keys = sorted(groups.keys())
  layout = []           # (key, None | position in list)
  m = Model()
  for key in keys:
    g = groups[key]
    for pos, w in enumerate([g] if isinstance(g, int) else g):
      layout.append((key, None if isinstance(g, int) else pos))
      m.inputs.append((_lattice_points(rs, (b,), [s] * w, True), True))

  def pack(a):
    if cfg["format"] == "tensor":
      return tf.constant(a[0])
    xin = {}
    for (key, pos), arr in zip(layout, a):
      if pos is None:
        xin[key] = tf.constant(arr)
      else:
        xin.setdefault(key, []).append(tf.constant(arr))
    return xin
  kw = {}
  if param == "kronecker_factored":
    kw = dict(kernel_initializer="kfl_random_monotonic_initializer",
              num_terms=cfg["terms"])
  rtl = tfl.layers.RTL(
      num_lattices=cfg["num"], lattice_rank=rank, lattice_size=s,
      separate_outputs=cfg["separate"], average_outputs=cfg["average"],
      random_seed=cfg["rtl_seed"], parameterization=param,
      interpolation=cfg["interp"] if param == "all_vertices" else "hypercube",
      **kw)
  rtl(pack([a for a, _ in m.inputs]))          # builds
  for w in rtl.weights:
    w.assign(w + (rs.normal(size=tuple(w.shape)) * 0.3).astype(np.float32))

  def call(a):
    y = rtl(pack(a))
    if isinstance(y, dict):
      return [_f64(y[key]) for key in sorted(y.keys())]
    return [_f64(y)]
  m.call = call
  # all_vertices: convex combination of vertex values; kronecker_factored:
  # scale * product over `rank` interpolated factors + bias.
  a = scale_of(*[w.numpy() for w in rtl.weights])
  m.mag = a if param == "all_vertices" else a ** (rank + 1) + a
  m.labels = ["rtl:" + param, "rtl:input-" + cfg["format"],
              "rtl:separate" if cfg["separate"] else (
                  "rtl:averaged" if cfg["average"] else "rtl:joint")]
  return m


def _b_parcomb(case, rs):
  tf, tfl = _tfl()
  cfg, b = case["cfg"], case["batch"]
  cals = cfg["cals"]
  n = len(cals)
  x = np.zeros((b, n), np.float32)
  layers, mag = [], 1.0
  for c, cal in enumerate(cals):
    if cal["type"] == "pwl":
      kp = cal["kp"]
      nw = len(kp) - (1 if cal["cyclic"] else 0)
      layer = tfl.layers.PWLCalibration(
          input_keypoints=kp, units=1, is_cyclic=cal["cyclic"],
          input_keypoints_type="learned_interior" if cal["learned"] else
          "fixed")
      layer.build((None, 1))
      w = (rs.normal(size=(nw, 1)) * rs.choice([0.1, 1.0, 30.0])).astype(
          np.float32)
      layer.kernel.assign(w)
      x[:, c] = _pwl_points(rs, (b,), kp)
      mag = max(mag, float(np.sum(np.abs(w))))
    else:
      nb = cal["buckets"]
      kw = {}
      if cal["default"] is not None:
        kw["default_input_value"] = cal["default"]
      layer = tfl.layers.CategoricalCalibration(num_buckets=nb, units=1, **kw)
      layer.build((None, 1))
      w = (rs.normal(size=(nb, 1)) * rs.choice([0.1, 1.0, 30.0])).astype(
          np.float32)
      layer.kernel.assign(w)
      col = rs.randint(0, nb, size=b)
      if cal["default"] is not None:
        col = np.where(rs.rand(b) < 0.3, cal["default"], col)
      x[:, c] = col
      mag = max(mag, float(np.max(np.abs(w))))
    layers.append(layer)
  pc = tfl.layers.ParallelCombination(layers,
                                      single_output=cfg["single_output"])
  m = Model()
  m.inputs = [(x, True)]

  def call(a):
    if cfg["list_input"]:
      xin = [tf.constant(a[0][:, c:c + 1]) for c in range(n)]
    else:
      xin = tf.constant(a[0])
    y = pc(xin)
    if isinstance(y, (list, tuple)):
      return [_f64(t) for t in y]
    return [_f64(y)]
  m.call = call
  m.mag = mag
  m.labels = ["parcomb:list-input" if cfg["list_input"] else
              "parcomb:tensor-input",
              "parcomb:single-output" if cfg["single_output"] else
              "parcomb:list-output"]
  return m


def _b_premade(case, rs):
  tf, tfl = _tfl()
  from tensorflow_lattice.python import configs
  cfg, b = case["cfg"], case["batch"]
  fcs = []
  m = Model()
  for i, f in enumerate(cfg["feats"]):
    name = "f%d" % i
    if f["type"] == "num":
      fcs.append(configs.FeatureConfig(
          name=name, lattice_size=f["size"], monotonicity=f["mono"],
          pwl_calibration_num_keypoints=len(f["kp"]),
          pwl_calibration_input_keypoints=list(f["kp"])))
      m.inputs.append((_pwl_points(rs, (b, 1), f["kp"]), True))
    else:
      fcs.append(configs.FeatureConfig(name=name, lattice_size=f["size"],
                                       num_buckets=f["buckets"]))
      m.inputs.append((rs.randint(0, f["buckets"], size=(b, 1)).astype(
          np.float32), True))
  mc = configs.CalibratedLatticeConfig(
      feature_configs=fcs, interpolation=cfg["interp"],
      output_initialization=[0.0, 1.0], output_calibration=cfg["out_calib"],
      output_calibration_num_keypoints=3)
  model = tfl.premade.CalibratedLattice(mc)
  for w in model.weights:
    w.assign(w + (rs.normal(size=tuple(w.shape)) * 0.2).astype(np.float32))
  m.call = lambda a: [_f64(model([tf.constant(t) for t in a]))]
  # every stage is an interpolation / lookup of one weight tensor: its
  # absolute sum bounds the terms summed into an output.
  m.mag = max(float(np.sum(np.abs(w.numpy()))) for w in model.weights)
  m.labels = ["premade:features=%d" % len(fcs),
              "premade:output-calibration" if cfg["out_calib"] else
              "premade:no-output-calibration"]
  return m


def _stage_bounds(model):
  """Magnitude of the terms summed into an output of a premade model: every
  calibration / lattice stage is an interpolation or lookup of one weight
  tensor (bounded by its absolute sum; KFL by scale * prod of factors + bias),
  a Linear stage is bounded by sum|w| * (bound of what feeds it) + |bias|."""
  import tensorflow_lattice as tfl
  feed, lin, kfl = 1.0, [], False
  for layer in model.layers:
    ws = [w.numpy().astype(np.float64) for w in layer.weights]
    if not ws:
      continue
    if isinstance(layer, tfl.layers.Linear):
      lin.append(sum(float(np.sum(np.abs(w))) for w in ws))
      continue
    if isinstance(layer, tfl.layers.KroneckerFactoredLattice) or (
        isinstance(layer, tfl.layers.RTL) and
        layer.parameterization == "kronecker_factored"):
      a = scale_of(*ws)
      rank = layer.lattice_rank if isinstance(layer, tfl.layers.RTL) else (
          int(layer.kernel.shape[2]) // layer.units)
      feed = max(feed, a ** (rank + 1) + a)
      continue
    feed = max(feed, max(float(np.sum(np.abs(w))) for w in ws))
  return max([feed] + [l * feed for l in lin])


def _b_premade_model(case, rs):
  """CalibratedLinear / CalibratedLatticeEnsemble built by vlib.models."""
  tf, _ = _tfl()
  import tf_keras as keras
  from vlib import models as M
  keras.backend.clear_session()
  desc, b = case["cfg"]["desc"], case["batch"]
  model, _ = M.build_model(desc)
  for w in model.weights:
    w.assign(w + (rs.normal(size=tuple(w.shape)) * 0.2).astype(np.float32))
  x = M.base_points(desc, b, case["aux"])
  for j, f in enumerate(desc["features"]):
    if f["default"] is not None:      # some rows carry the missing value
      x[:, j] = np.where(rs.rand(b) < 0.25, f["default"], x[:, j])
  m = Model()
  m.inputs = [(a, True) for a in M.model_inputs(desc, x)]
  m.call = lambda a: [_f64(model([tf.constant(t) for t in a]))]
  m.mag = _stage_bounds(model)
  m.labels = ["premade:" + desc["kind"],
              "premade:features=%d" % len(desc["features"]),
              "premade:" + desc["parameterization"],
              "premade:output-calibration" if desc["output_calibration"] else
              "premade:no-output-calibration"]
  if any(f["default"] is not None for f in desc["features"]):
    m.labels.append("premade:missing-values")
  return m


def _b_aggregation(case, rs):
  """tfl.layers.Aggregation over ragged rows; a row of the batch is one
  example (its elements), kept here as padded columns plus a length."""
  tf, tfl = _tfl()
  import tf_keras as keras
  keras.backend.clear_session()
  cfg, b = case["cfg"], case["batch"]
  sizes, lengths = cfg["sizes"], list(cfg["lengths"])
  d, width = len(sizes), max(lengths)
  names = ["f%d" % j for j in range(d)]
  ins = [keras.Input(shape=(1,), name=nm) for nm in names]
  cols = ins
  cal_mag = 1.0
  if cfg["calibrated"]:
    cols = []
    for j, inp in enumerate(ins):
      cal = tfl.layers.PWLCalibration(
          input_keypoints=np.linspace(0.0, sizes[j] - 1.0, 3),
          output_min=0.0, output_max=sizes[j] - 1.0)
      cols.append(cal(inp))
  cat = keras.layers.Concatenate(axis=-1)(cols) if d > 1 else cols[0]
  core = tfl.layers.Lattice(lattice_sizes=sizes, units=1)
  o = core(cat)
  model = keras.Model(inputs=dict(zip(names, ins)) if cfg["dict_input"]
                      else ins, outputs=o)
  k = S.materialize(case["kernel"], (int(np.prod(sizes)), 1))
  core.kernel.assign(k)
  for w in model.weights:
    if w is not core.kernel:
      w.assign(w + (rs.normal(size=tuple(w.shape)) * 0.3).astype(np.float32))
      cal_mag = max(cal_mag, float(np.sum(np.abs(w.numpy()))))
  agg = tfl.layers.Aggregation(model)
  m = Model()
  pts = _lattice_points(rs, (b, width), sizes, True)        # (b, width, d)
  m.inputs = [(pts[:, :, j].copy(), True) for j in range(d)]
  m.inputs.append((np.asarray(lengths, np.int64), True))

  def call(a):
    lens = a[d]
    ragged = [tf.RaggedTensor.from_row_lengths(
        tf.constant(np.concatenate([a[j][i, :lens[i]] for i in
                                    range(len(lens))])), lens)
              for j in range(d)]
    return [_f64(agg(dict(zip(names, ragged)) if cfg["dict_input"] else
                     ragged))]
  m.call = call
  m.mag = max(scale_of(k), cal_mag)
  m.labels = ["aggregation:dict-input" if cfg["dict_input"] else
              "aggregation:list-input",
              "aggregation:calibrated" if cfg["calibrated"] else
              "aggregation:bare-lattice",
              "aggregation:ragged-different-lengths" if len(set(lengths)) > 1
              else "aggregation:equal-lengths"]
  return m


BUILDERS = {"premade_linear": _b_premade_model,
            "premade_ensemble": _b_premade_model,
            "aggregation": _b_aggregation, "lattice": _b_lattice, "pwl": _b_pwl, "categorical": _b_categorical,
            "linear": _b_linear, "kfl": _b_kfl, "cdf": _b_cdf,
            "cdf_fn": _b_cdf_fn, "pwl_fn": _b_pwl_fn, "rtl": _b_rtl,
            "parcomb": _b_parcomb, "premade": _b_premade}


# ---------------------------------------------------------------------------
# weight constraints: returns (W (n, U) float32, apply(idx) -> (n, len(idx)))
def _pwl_bct(p):
  from tensorflow_lattice.python import pwl_calibration_lib as L
  t = L.BoundConstraintsType
  lo = t.NONE if p["omin"] is None else (t.CLAMPED if p["clamp_min"] else
                                         t.BOUND)
  hi = t.NONE if p["omax"] is None else (t.CLAMPED if p["clamp_max"] else
                                         t.BOUND)
  return lo, hi


def _weights_problem(case, out):
  tf, tfl = _tfl()
  kind, cfg, u = case["kind"], case["cfg"], case["units"]
  bounds = [cfg.get("omin"), cfg.get("omax")]
  layers = {}

  def cached(m, make):
    if m not in layers:
      layers[m] = make(m)
    return layers[m]

  if kind == "lattice":
    lcfg = cfg["lcfg"]
    n, d = int(np.prod(lcfg["sizes"])), len(lcfg["sizes"])
    w = S.materialize(case["kernel"], (n, u))
    kw = S.lattice_kwargs(lcfg)
    bounds = [lcfg["omin"], lcfg["omax"]]
    out.label("lattice:strict" if cfg["strict"] else "lattice:non-strict",
              "lattice:iters=%d" % cfg["iters"], "lattice:rank=%d" % d)
    for fam in ("ew", "tz", "mdom", "rdom", "jmono", "junimod"):
      if lcfg[fam]:
        out.label("lattice:family=" + fam)
    if (cfg["strict"] and (lcfg["ew"] or lcfg["tz"]) and
        lcfg["omin"] is not None and lcfg["omax"] is not None):
      out.label("lattice:strict+trust+two-sided-bounds")
    if any(lcfg["unimod"]):
      out.label("lattice:family=unimod")
    if any(lcfg["mono"]):
      out.label("lattice:family=mono")
    if bounds[0] is not None or bounds[1] is not None:
      out.label("lattice:bounded")
    if cfg["entry"] == "constraint":
      c = tfl.lattice_layer.LatticeConstraints(
          num_projection_iterations=cfg["iters"],
          enforce_strict_monotonicity=cfg["strict"], **kw)
      return w, (lambda idx: c(tf.constant(w[:, idx])).numpy()), bounds

    def make(m):
      layer = tfl.layers.Lattice(
          units=m, num_projection_iterations=cfg["iters"],
          monotonic_at_every_step=cfg["strict"], **kw)
      layer.build((None, d) if m == 1 else (None, m, d))
      return layer
    return w, (lambda idx: cached(len(idx), make).kernel.constraint(
        tf.constant(w[:, idx])).numpy()), bounds

  if kind == "pwl":
    p = cfg["pcfg"]
    kp = np.asarray(p["keypoints"], np.float32)
    rows = len(kp) - (1 if p["cyclic"] else 0)
    w = S.materialize(case["kernel"], (rows, u))
    bounds = [p["omin"], p["omax"]]
    out.label("pwl:mono=%d" % p["mono"], "pwl:conv=%d" % p["conv"],
              "pwl:iters=%d" % p["iters"],
              "pwl:cyclic" if p["cyclic"] else "pwl:open")
    if p["clamp_min"] or p["clamp_max"]:
      out.label("pwl:clamped")
    if bounds[0] is not None or bounds[1] is not None:
      out.label("pwl:bounded")
    if cfg["entry"] == "constraint":
      lo_c, hi_c = _pwl_bct(p)
      omin = p["omin"] if p["omin"] is not None else (
          p["omax"] if p["omax"] is not None else 0.0)
      omax = p["omax"] if p["omax"] is not None else omin
      c = tfl.pwl_calibration_layer.PWLCalibrationConstraints(
          monotonicity=p["mono"], convexity=p["conv"],
          lengths=tf.constant(kp[1:] - kp[:-1]), output_min=omin,
          output_max=omax, output_min_constraints=lo_c,
          output_max_constraints=hi_c,
          num_projection_iterations=p["iters"])
      return w, (lambda idx: c(tf.constant(w[:, idx])).numpy()), bounds

    def make(m):
      kw = S.pwl_layer_kwargs(p)
      kw["units"] = m
      layer = tfl.layers.PWLCalibration(**kw)
      layer.build((None, m))
      return layer
    return w, (lambda idx: cached(len(idx), make).kernel.constraint(
        tf.constant(w[:, idx])).numpy()), bounds

  if kind == "linear":
    d = cfg["dims"]
    w = S.materialize(case["kernel"], (d, u))
    kw = S.linear_kwargs(cfg)
    bounds = [None, None]
    if any(cfg["mono"]):
      out.label("linear:monotone")
    if cfg["mono_dom"]:
      out.label("linear:mono-dominance")
    if cfg["range_dom"]:
      out.label("linear:range-dominance")
    if cfg["norm"]:
      out.label("linear:norm=%d" % cfg["norm"])
    if cfg["entry"] == "constraint":
      c = tfl.linear_layer.LinearConstraints(**kw)
      return w, (lambda idx: c(tf.constant(w[:, idx])).numpy()), bounds

    def make(m):
      layer = tfl.layers.Linear(num_input_dims=d, units=m, **kw)
      layer.build((None, d) if m == 1 else (None, m, d))
      return layer

    def apply(idx):
      c = cached(len(idx), make).kernel.constraint
      return w[:, idx] if c is None else c(tf.constant(w[:, idx])).numpy()
    return w, apply, bounds

  if kind == "categorical":
    nb = cfg["buckets"]
    w = S.materialize(case["kernel"], (nb, u))
    mon = [tuple(p) for p in cfg["pairs"]] or None
    if mon:
      out.label("categorical:ordering-pairs")
    if cfg["omin"] is not None or cfg["omax"] is not None:
      out.label("categorical:bounded")
    if cfg["entry"] == "constraint":
      c = tfl.categorical_calibration_layer.CategoricalCalibrationConstraints(
          output_min=cfg["omin"], output_max=cfg["omax"], monotonicities=mon)
      return w, (lambda idx: c(tf.constant(w[:, idx])).numpy()), bounds

    def make(m):
      layer = tfl.layers.CategoricalCalibration(
          num_buckets=nb, units=m, output_min=cfg["omin"],
          output_max=cfg["omax"], monotonicities=mon)
      layer.build((None, m))
      return layer

    def apply(idx):
      c = cached(len(idx), make).kernel.constraint
      return w[:, idx] if c is None else c(tf.constant(w[:, idx])).numpy()
    return w, apply, bounds

  # KroneckerFactoredLattice kernel / scale
  size, d, t = cfg["size"], cfg["dims"], cfg["terms"]
  sc = S.materialize(cfg["scale"], (t, u))          # column = unit
  mono = list(cfg["mono"]) if any(cfg["mono"]) else None
  out.label("kfl:mono" if mono else "kfl:no-mono",
            "kfl:bounds=%s" % ("none" if cfg["omin"] is None and
                               cfg["omax"] is None else "min" if
                               cfg["omax"] is None else "max" if
                               cfg["omin"] is None else "both"),
            "kfl:terms=%d" % t, "kfl:dims=%d" % d)

  def make(m):
    kw = dict(lattice_sizes=size, units=m, num_terms=t,
              output_min=cfg["omin"], output_max=cfg["omax"])
    if mono:
      kw["monotonicities"] = mono
    layer = tfl.layers.KroneckerFactoredLattice(**kw)
    layer.build(tf.TensorShape((None, d) if m == 1 else (None, m, d)))
    return layer

  if kind == "kfl_scale":
    w = sc
    if cfg["entry"] == "constraint":
      c = tfl.kronecker_factored_lattice_layer.ScaleConstraints(
          output_min=cfg["omin"], output_max=cfg["omax"])
      return w, (lambda idx: c(tf.constant(w[:, idx].T.copy())).numpy().T), bounds

    def apply(idx):
      c = cached(len(idx), make).scale.constraint
      s = w[:, idx].T.copy()
      return (s if c is None else c(tf.constant(s)).numpy()).T
    return w, apply, bounds

  w = S.materialize(case["kernel"], (size * d * t, u))
  bounds = [cfg["omin"], cfg["omax"], 1.0]

  def apply(idx):
    m = len(idx)
    k = tf.constant(_kfl_to_lib(w[:, idx], cfg))
    s = sc[:, idx].T.copy()
    if cfg["entry"] == "constraint":
      c = tfl.kronecker_factored_lattice_layer.KroneckerFactoredLatticeConstraints(
          units=m, scale=tf.constant(s), monotonicities=mono,
          output_min=cfg["omin"], output_max=cfg["omax"])
    else:
      layer = cached(m, make)
      layer.scale.assign(s)
      c = layer.kernel.constraint
    return _kfl_from_lib(c(k).numpy() if c is not None else k.numpy(), cfg, m)
  return w, apply, bounds


def _mismatch(a, b, tol):
  """Largest |a-b| beyond identical positions; inf if non-finite values differ."""
  a, b = np.asarray(a, np.float64), np.asarray(b, np.float64)
  if a.shape != b.shape:
    return np.inf
  if a.size == 0 or np.array_equal(a, b, equal_nan=True):
    return 0.0
  fin = np.isfinite(a) & np.isfinite(b)
  same = (a == b) | (np.isnan(a) & np.isnan(b))
  if np.any(~fin & ~same):
    return np.inf
  return float(np.max(np.abs(a - b)[fin])) if np.any(fin) else 0.0


def _run_weights(case, out, rs):
  kind, rel, u = case["kind"], case["rel"], case["units"]
  w, apply, bounds = _weights_problem(case, out)
  out.label("entry:" + case["cfg"]["entry"])
  full = np.asarray(apply(list(range(u))), np.float64)
  sig = dict(group="weights", layer=kind, rel=rel)
  out.checks += 1
  if full.shape != w.shape:
    out.violate("constraint changed the kernel shape %s -> %s" %
                (w.shape, full.shape), clause="shape", **sig)
    return
  if rel == "unit-column":
    subsets = [[i] for i in range(u)]
  elif rel == "unit-perm":
    perm = list(rs.permutation(u))
    if perm == list(range(u)):
      perm = perm[1:] + perm[:1]
    subsets = [[int(i) for i in perm]]
  else:
    size = rs.randint(2, u)
    subsets = [[int(i) for i in rs.permutation(u)[:size]]]
  # the bounds do not enter S: a clipped result is already part of `full`
  # (1e-3 absolute for output_max = 1000 would make small kernels vacuous)
  s = scale_of(w, full)
  tol = TOL * s
  worst, bits = 0.0, True
  for idx in subsets:
    sub = np.asarray(apply(idx), np.float64)
    out.checks += 1
    err = _mismatch(full[:, idx], sub, tol)
    bits &= err == 0.0
    worst = max(worst, err / s)
    if err > tol:
      out.violate(
          "%s %s: constraint(W)[:, %s] differs from constraint(W[:, %s]) by "
          "%.3g (tolerance %.3g)" % (kind, rel, idx, idx, err, tol),
          clause="per-unit", **sig)
      break
  out.info["worst_mismatch_over_S"] = worst
  out.label("bit-identical" if bits else "rounding-differences")
  moved = _mismatch(full, w, tol)
  distinct = u >= 2 and not all(
      np.array_equal(w[:, 0], w[:, j]) for j in range(1, u))
  out.nontrivial = bool(moved > tol and distinct)
  out.label("constraint-moved-kernel" if moved > tol else
            "constraint-left-kernel")


# ---------------------------------------------------------------------------
def _compare_outputs(out, ya, yb, s, what, sig, extra=None):
  """|a-b| <= TOL*s (+ extra, an elementwise conditioning allowance)."""
  out.checks += 1
  worst = 0.0
  for k, (a, b) in enumerate(zip(ya, yb)):
    if a.shape != b.shape:
      out.violate("%s: output %d has shape %s vs %s" % (what, k, a.shape,
                                                       b.shape), **sig)
      return False, np.inf
    if a.size == 0 or np.array_equal(a, b, equal_nan=True):
      continue
    tol = np.full(a.shape, TOL * s)
    if extra is not None:
      tol = tol + extra[k]
    same = (a == b) | (np.isnan(a) & np.isnan(b))
    with np.errstate(invalid="ignore"):
      err = np.where(same, 0.0, np.abs(a - b))
    bad = ~same & (~np.isfinite(err) | (err > tol))
    worst = max(worst, float(np.max(np.where(np.isfinite(err), err, np.inf))))
    if np.any(bad):
      i = np.unravel_index(int(np.argmax(np.where(bad, np.where(
          np.isfinite(err), err / tol, np.inf), 0.0))), a.shape)
      out.violate("%s: output %d differs by %.3g at %s (%r vs %r, tolerance "
                  "%.3g)" % (what, k, err[i], list(map(int, i)), float(a[i]),
                             float(b[i]), tol[i]), **sig)
      return False, worst
  return True, worst


def _run_units(case, out, rs):
  kind, u = case["kind"], case["units"]
  m = BUILDERS[kind](case, rs)
  out.label(*m.labels)
  arrs = [a for a, _ in m.inputs]
  v = int(rs.randint(u))
  others = [i for i in range(u) if i != v]
  sig = dict(group="units", layer=kind, rel="unit-perturb")
  y0 = m.call(arrs)[0]
  out.checks += 1
  want = tuple(m.out_shape or (case["batch"], u))
  if y0.shape != want:
    out.violate("output shape %s, expected %s" % (y0.shape, want),
                clause="shape", **sig)
    return
  m.perturb(v)
  y1 = m.call(arrs)[0]
  s = scale_of(y0, y1, m.mag)
  ok, w1 = _compare_outputs(
      out, [y0[..., others]], [y1[..., others]], s,
      "%s: replacing the parameters of unit %d changed other units" % (kind, v),
      dict(clause="other-unit-parameters", **sig))
  changed = _mismatch(y0[..., v], y1[..., v], s) > TOL * s
  w2 = 0.0
  if ok and m.unit_inputs:
    hostile = case.get("xpert", "swap") == "hostile" and m.hostile is not None
    arrs2 = [a.copy() for a in arrs]
    for i, axis in m.unit_inputs:
      a = arrs2[i]

      def at(j, a=a, axis=axis):
        ix = [slice(None)] * a.ndim
        ix[axis] = j
        return tuple(ix)
      if hostile:
        # unit v's inputs leave the range the other units' inputs live in
        # (outside the lattice / keypoint range, the missing value, ...)
        a[at(v)] = m.hostile(i, a[at(v)])
        continue
      src = (v + 1) % u
      # unit v receives another unit's inputs, reversed over the batch
      a[at(v)] = a[::-1][at(src)]
      if np.array_equal(a[at(v)], arrs[i][at(v)]):
        a[at(v)] = a[::-1][at(v)]
    y2 = m.call(arrs2)[0]
    # unit v's own (possibly far larger) output does not enter the scale
    s = scale_of(s, y2[..., others])
    ok, w2 = _compare_outputs(
        out, [y0[..., others]], [y2[..., others]], s,
        "%s: replacing the inputs of unit %d changed other units" % (kind, v),
        dict(clause="other-unit-inputs", **sig))
    out.label("inputs-perturbed",
              "inputs-perturbed:" + ("hostile" if hostile else "swapped"),
              "inputs-perturbed:%s:%s" % (kind, "hostile" if hostile else
                                          "swapped"))
  out.info["worst_mismatch_over_S"] = max(w1, w2) / s
  out.label("bit-identical" if max(w1, w2) == 0.0 else "rounding-differences")
  out.nontrivial = bool(changed)


def _run_batch(case, out, rs):
  kind, rel, b = case["kind"], case["rel"], case["batch"]
  m = BUILDERS[kind](case, rs)
  out.label(*m.labels)
  arrs = [a for a, _ in m.inputs]
  flags = [f for _, f in m.inputs]
  full = m.call(arrs)
  sig = dict(group="batch", layer=kind, rel=rel)
  out.checks += 1
  if any(y.shape[:1] != (b,) for y in full):
    out.violate("output batch dimension %s, expected %d" %
                ([y.shape for y in full], b), clause="shape", **sig)
    return
  if rel == "batch-row":
    subsets = [[i] for i in range(b)]
  elif rel == "batch-perm":
    perm = [int(i) for i in rs.permutation(b)]
    if perm == list(range(b)):
      perm = perm[1:] + perm[:1]
    subsets = [perm]
  else:
    size = rs.randint(2, b)
    subsets = [[int(i) for i in rs.permutation(b)[:size]]]
  s = scale_of(m.mag, *full)
  extra = m.extra_tol(arrs) if m.extra_tol is not None else None
  worst = 0.0
  for idx in subsets:
    sub = m.call([a[idx] if f else a for a, f in zip(arrs, flags)])
    ok, w = _compare_outputs(
        out, [y[idx] for y in full], sub, s,
        "%s %s: layer(x)[%s] differs from layer(x[%s])" % (kind, rel, idx, idx),
        dict(clause="per-row", **sig),
        extra=None if extra is None else [e[idx] for e in extra])
    worst = max(worst, w)
    if not ok:
      break
  out.info["worst_mismatch_over_S"] = worst / s
  out.label("bit-identical" if worst == 0.0 else "rounding-differences")
  out.nontrivial = bool(any(
      np.any(y != y[:1]) for y in full if y.size))


def run_case(case):
  import tensorflow as tf
  out = Outcome()
  tf.random.set_seed(case["aux"] % (2**31 - 1))
  np.random.seed(case["aux"] % (2**31 - 1))
  rs = np.random.RandomState(case["aux"])
  group = case["group"]
  out.label("%s:%s|%s" % (group, case["kind"], case["rel"]),
            "rel:" + case["rel"], "kind:" + case["kind"],
            "units:%d" % case["units"])
  try:
    if group == "W":
      _run_weights(case, out, rs)
    elif group == "U":
      out.label("batch:%d" % case["batch"])
      _run_units(case, out, rs)
    else:
      out.label("batch:%d" % case["batch"])
      _run_batch(case, out, rs)
  except _FnCrash as e:
    out.nontrivial = True
    out.violate(str(e), kind="exception", exc=e.exc, where=e.name)
  return out
