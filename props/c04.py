"""C04 - PWLCalibration weight constraint returns keypoint outputs meeting all limits."""
import numpy as np
from hypothesis import strategies as st

from vlib import strategies as S
from vlib.harness import Outcome, TOL_W, scale_of

ID = "C04"
TITLE = "PWLCalibration weight constraint returns keypoint outputs meeting all its limits"
RULE = ("Hypothesis draws a valid PWLCalibration configuration (2-8 keypoints, "
        "one case in five 9-16, thorough up to 12 / 24; keypoint spacings from "
        "the grid {1e-6, 1e-5, 2e-4..100} (one gap for all segments or one "
        "per segment), log-uniform gaps in [1e-6, 1e4] or all in [1e-6, "
        "1e-4], irrational ratios (0.3/0.7), offsets of 1e4..1e6 where "
        "float32 quantises the gaps, integer keypoints; monotonicity {-1,0,1}, convexity {-1,0,1}, "
        "bounds {none,min,max,both, incl. zero width}, clamps (only with "
        "monotonicity, as documented), cyclic, units 1-3, iterations in "
        "{0,1,2,8,30}), an entry point (PWLCalibrationConstraints, "
        "project_all_constraints - both with lengths as tensor / list / "
        "ndarray / None (None only without convexity, as documented) - the "
        "layer's kernel constraint + keypoints_outputs() with fixed or "
        "learned_interior keypoints, NaiveBoundsConstraints on the missing "
        "output), a spelling (ints or 'increasing'/'convex' strings; keypoints "
        "as list / tuple / float32 / float64 ndarray / Python ints), a dtype "
        "(float32, one case in eight float64) and a kernel (random mixture "
        "incl. biases far outside the bounds and heights of the wrong sign; "
        "feasible by construction; feasible plus one injected violation; "
        "'short': monotone, convex, inside the bounds, uniform spacing, but "
        "the far clamped bound not reached). Non-trivial: a constraint is "
        "configured and the input violates one by > 10x tolerance, or the case "
        "is a non-constant feasible kernel; distinct by SHA-1 of the case.")
NT_FLOOR = 0.5
BUDGET = {"quick": 700, "thorough": 10000}
TECHNIQUE = ("property-based testing (Hypothesis): generated configurations and "
             "kernels against a float64 keypoint-output oracle; constructive "
             "feasible kernels for the unchanged clause")
LEVEL_TEXT = ("Generated-input exploration of the PWL weight constraint over "
              "configurations x kernels x entry points x spellings x dtypes; "
              "per unit the float64 oracle checks exact sign of every height, "
              "cumulative outputs inside the bounds, slope ordering for "
              "convexity, clamp values, imputed missing output inside the "
              "bounds (unchanged when it already is), and that feasible "
              "kernels come back unchanged. Inside the two tolerated "
              "relaxations of the statement only the part that the relaxation "
              "explains is exempted (and counted); the rest is judged as a "
              "residual bound (violation kinds conv-residual / clamp-residual).")
LEVEL_NOTE = ("Tolerance 2e-5*S (S = max(1,|result|,|bounds|); S incl. input for "
              "the unchanged clause); convexity judged as h[i+1] - h[i]*l[i+1]/"
              "l[i] with tolerance scaled by max(1, l[i+1]/l[i]). Residual "
              "rules (all hold for any capping-based finaliser, none compares "
              "two library runs): convexity + bounds without monotonicity - a "
              "violation may only sit at a keypoint that is, or neighbours one "
              "that is, at the bound whose capping breaks the shape (output_max "
              "for convex, output_min for concave; if that bound is not "
              "configured the full claim applies) and is at most the output "
              "range; clamp + convexity with >= 1 iteration - the clamp at the "
              "first keypoint (the bias, which neither monotonicity nor "
              "convexity constrains) is met to the clamp tolerance, and a "
              "monotone convex kernel with uniform spacing that only misses "
              "the far clamp must reach it (its L2 projection onto the clamp "
              "is feasible for every other set). The far clamp for other "
              "kernels and clamps at 0 iterations stay exempt. 'result <= "
              "input' and 'more iterations <= fewer' were tried and rejected: "
              "both fail on the unmodified library. Known findings F-C04-1/2 "
              "are matched by signature. <= 16 keypoints quick, 24 thorough.")
ASSUMPTIONS = [
    "lengths may be given to PWLCalibrationConstraints / "
    "project_all_constraints as anything TensorFlow converts to a float32 "
    "tensor (tensor, list of Python floats, float32 ndarray); a float64 "
    "ndarray next to float32 weights is not generated",
    "spelled monotonicity / convexity strings are only given to the layer and "
    "to PWLCalibrationConstraints (project_all_constraints documents ints)"]

ENTRIES = ["constraint", "constraint", "lib", "layer", "layer"]
ENTRIES_CYCLIC = ["layer", "layer", "layer", "constraint", "lib"]
KP_MODES = ["grid", "grid", "grid", "grid", "loguniform", "loguniform",
            "loguniform-tiny", "irrational", "far-offset", "ints"]
# the shared fine grid plus gaps of neighbouring float32 / quantile keypoints.
SPACINGS_TINY = [1e-6, 1e-5] + list(S.SPACINGS_FINE)
GAPS_IRRATIONAL = [0.3, 0.7, 0.1, 1.0 / 3.0, 2.0 / 3.0, 0.011]
MONO_STR = {1: "increasing", -1: "decreasing", 0: "none"}
CONV_STR = {1: "convex", -1: "concave", 0: "none"}


@st.composite
def _keypoints(draw, max_k, long_k):
  """Strictly increasing float32-representable keypoints + how they were made."""
  mode = draw(st.sampled_from(KP_MODES))
  if draw(st.integers(0, 4)) == 0:
    k = draw(st.integers(9, long_k))
  else:
    k = draw(st.integers(2, max_k))
  if mode == "grid":
    return draw(S.pwl_keypoints(min_k=k, max_k=k,
                                spacings=SPACINGS_TINY)), mode
  same = draw(st.integers(0, 3)) == 0
  if mode == "loguniform":
    start = draw(st.sampled_from([-100.0, -1.0, 0.0, 0.5, 10.0]))
    gap = st.floats(min_value=-6.0, max_value=4.0, allow_nan=False).map(
        lambda e: 10.0 ** e)
  elif mode == "loguniform-tiny":      # every gap tiny: neighbouring tiny gaps
    start = draw(st.sampled_from([-1.0, 0.0, 0.5]))
    gap = st.floats(min_value=-6.0, max_value=-4.0, allow_nan=False).map(
        lambda e: 10.0 ** e)
  elif mode == "irrational":
    start = draw(st.sampled_from([-1.0, 0.0, 0.5, 10.0]))
    gap = st.sampled_from(GAPS_IRRATIONAL)
  elif mode == "far-offset":
    start = draw(st.sampled_from([1e4, -1e5, 1e6, -1e6]))
    gap = st.sampled_from([1e-5] + S.SPACINGS_FINE)
  else:
    start = draw(st.sampled_from([-100.0, -1.0, 0.0, 10.0]))
    gap = st.sampled_from([1.0, 1.0, 2.0, 3.0, 100.0])
  if same:
    gaps = [draw(gap)] * (k - 1)
  else:
    gaps = [draw(gap) for _ in range(k - 1)]
  kp = [start]
  for g in gaps:
    kp.append(kp[-1] + g)
  kp = S.f32(kp)
  for i in range(1, len(kp)):
    if kp[i] <= kp[i - 1]:
      kp[i] = float(np.nextafter(np.float32(kp[i - 1]), np.float32(np.inf)))
  return kp, mode


@st.composite
def _config(draw, max_k, long_k):
  """S.pwl_config with the wider keypoint generator."""
  kp, mode = draw(_keypoints(max_k, long_k))
  mono = draw(st.sampled_from([-1, 0, 1, 1]))
  conv = draw(st.sampled_from([0, 0, -1, 1]))
  cyclic = False
  if len(kp) >= 3 and draw(st.integers(0, 5)) == 0:
    cyclic, mono, conv = True, 0, 0
  bm = draw(st.sampled_from(["none", "min", "max", "both", "both"]))
  lo = S.f32(draw(st.sampled_from([-10.0, -1.0, 0.0, 0.5, 100.0])))
  width = S.f32(draw(st.sampled_from([0.0, 0.5, 1.0, 3.0, 1000.0])))
  omin = lo if bm in ("min", "both") else None
  omax = S.f32(lo + width) if bm in ("max", "both") else None
  clamp_min = bool(mono != 0 and omin is not None and draw(st.booleans()))
  clamp_max = bool(mono != 0 and omax is not None and draw(st.booleans()))
  return {"keypoints": kp, "units": draw(st.integers(1, 3)), "mono": mono,
          "conv": conv, "cyclic": cyclic, "omin": omin, "omax": omax,
          "clamp_min": clamp_min, "clamp_max": clamp_max,
          "iters": draw(st.sampled_from([0, 1, 2, 8, 30])), "kp_mode": mode}


@st.composite
def _short_config(draw, long_k):
  """Monotone + convex + far clamp, exactly uniform (dyadic) spacing, >= 1
  iteration: the configuration of the 'short' kernel class."""
  k = draw(st.integers(3, long_k if draw(st.integers(0, 4)) == 0 else 8))
  start = draw(st.sampled_from([-1.0, 0.0, 0.5, 10.0]))
  gap = draw(st.sampled_from([2.0 ** -10, 0.25, 0.5, 1.0, 2.0]))
  mono = draw(st.sampled_from([-1, 1]))
  lo = S.f32(draw(st.sampled_from([-10.0, -1.0, 0.0, 0.5, 100.0])))
  width = S.f32(draw(st.sampled_from([0.5, 1.0, 3.0, 1000.0])))
  near = draw(st.sampled_from(["none", "bound", "clamped"]))
  far_is_max = mono == 1
  omin, omax = lo, S.f32(lo + width)
  clamp_min, clamp_max = not far_is_max, far_is_max
  if near == "none":
    if far_is_max:
      omin = None
    else:
      omax = None
  elif near == "clamped":
    clamp_min = clamp_max = True
  return {"keypoints": S.f32([start + i * gap for i in range(k)]),
          "units": draw(st.integers(1, 3)), "mono": mono,
          "conv": draw(st.sampled_from([-1, 1])), "cyclic": False,
          "omin": omin, "omax": omax, "clamp_min": clamp_min,
          "clamp_max": clamp_max, "iters": draw(st.sampled_from([1, 2, 8, 30])),
          "kp_mode": "uniform-dyadic"}


@st.composite
def _case(draw, tier):
  max_k, long_k = (8, 16) if tier == "quick" else (12, 24)
  kmode = draw(st.sampled_from(["raw"] * 5 + ["feasible"] * 3 +
                               ["feasible+viol"] * 3 + ["short"]))
  if kmode == "short":
    cfg = draw(_short_config(long_k))
  else:
    cfg = draw(_config(max_k, long_k))
  entry = draw(st.sampled_from(ENTRIES_CYCLIC if cfg["cyclic"] else ENTRIES))
  rows = len(cfg["keypoints"]) - (1 if cfg["cyclic"] else 0)
  case = {"cfg": cfg, "entry": entry, "kmode": kmode,
          "kernel": draw(S.array_desc(shape=(rows, cfg["units"]))),
          "missing": draw(S.array_desc(kinds=["normal", "ints"],
                                       shape=(1, cfg["units"]))),
          "aux": draw(S.seeds)}
  # how the arguments are written: all documented-as-equivalent forms.
  integral = all(float(v).is_integer() and abs(v) < 2 ** 24
                 for v in cfg["keypoints"])
  case["spell"] = {
      "mono": draw(st.sampled_from(["int", "int", "str"])),
      "conv": draw(st.sampled_from(["int", "int", "str"])),
      "kp": ("ints" if integral and draw(st.booleans()) else draw(
          st.sampled_from(["list", "list", "tuple", "ndarray32",
                           "ndarray64"])))}
  case["dtype"] = "float64" if draw(st.integers(0, 7)) == 0 else "float32"
  if entry == "layer":
    case["kp_type"] = ("learned_interior" if cfg["conv"] == 0 and
                       draw(st.booleans()) else "fixed")
  else:
    forms = ["tensor", "tensor", "list", "ndarray"]
    if cfg["conv"] == 0:
      forms = ["tensor", "none", "none", "list", "ndarray"]
    case["lengths"] = draw(st.sampled_from(forms))
    if case["lengths"] == "list":
      case["dtype"] = "float32"     # a Python list becomes a float32 tensor
  case["missing_mode"] = draw(st.sampled_from(["raw", "raw", "inside"]))
  return case


def strategy(tier):
  return _case(tier)


def lengths_of(cfg):
  kp = np.asarray(cfg["keypoints"], np.float32)
  return (kp[1:] - kp[:-1]).astype(np.float64)


def feasible_kernel(cfg, rows, aux):
  """Feasible (n_rows, units) float32 kernel built constructively."""
  rs = np.random.RandomState(aux)
  units = cfg["units"]
  lens = lengths_of(cfg)[:rows - 1]
  out = np.zeros((rows, units))
  lo, hi = cfg["omin"], cfg["omax"]
  for u in range(units):
    nh = rows - 1
    if cfg["conv"] != 0:
      slopes = rs.normal(size=nh) * rs.choice([0.1, 1.0, 30.0])
      if cfg["mono"] != 0:
        slopes = np.abs(slopes) * cfg["mono"]
      slopes = np.sort(slopes)
      if cfg["conv"] == -1:
        slopes = slopes[::-1]
      h = slopes * lens
    elif cfg["mono"] != 0:
      h = np.abs(rs.normal(size=nh)) * cfg["mono"]
      h = h * (rs.rand(nh) > 0.25)            # some flat segments
    else:
      h = rs.normal(size=nh)
    y = np.concatenate([[0.0], np.cumsum(h)]) + rs.normal() * 3
    mn, mx = float(y.min()), float(y.max())
    # positive affine maps keep monotonicity and convexity.
    if lo is not None and hi is not None:
      a, b = sorted(rs.uniform(0, 1, size=2))
      if cfg["clamp_min"]:
        a = 0.0
      if cfg["clamp_max"]:
        b = 1.0
      if mx > mn:
        y = (y - mn) / (mx - mn) * (b - a) * (hi - lo) + lo + a * (hi - lo)
      elif cfg["clamp_min"] and cfg["clamp_max"] and hi > lo:
        return None            # a constant function cannot hit both clamps
      else:
        y = np.full_like(y, hi if cfg["clamp_max"] else lo + a * (hi - lo))
    elif lo is not None:
      y = y + (lo - mn) + (0.0 if cfg["clamp_min"] else rs.uniform(0, 2))
    elif hi is not None:
      y = y - (mx - hi) - (0.0 if cfg["clamp_max"] else rs.uniform(0, 2))
    out[:, u] = np.concatenate([[y[0]], np.diff(y)])
  return out.astype(np.float32)


def short_kernel(cfg, rows, aux):
  """Strictly monotone, convex/concave, inside the bounds, the clamp at the
  first keypoint (if any) met, the clamp at the last keypoint missed by
  10-60 % of the width.  Uniform spacing, so slopes order like heights."""
  rs = np.random.RandomState(aux)
  mono, conv = cfg["mono"], cfg["conv"]
  lo, hi = cfg["omin"], cfg["omax"]
  far = hi if mono == 1 else lo
  near = lo if mono == 1 else hi
  width = abs(hi - lo) if near is not None else max(1.0, abs(far))
  near_clamped = cfg["clamp_min"] if mono == 1 else cfg["clamp_max"]
  out = np.zeros((rows, cfg["units"]))
  for u in range(cfg["units"]):
    h = np.sort(rs.uniform(0.05, 1.0, size=rows - 1))     # increasing, > 0
    if conv * mono == -1:
      h = h[::-1]
    short = rs.uniform(0.1, 0.6) * width
    a = 0.0 if near_clamped else rs.uniform(0.02, 0.3) * width
    if near is None:
      total = rs.uniform(0.2, 2.0) * width
    else:
      total = width - short - a
    h = h / h.sum() * total
    # y runs from its first value towards the far bound, stopping short.
    y0 = far - mono * (short + total)
    out[:, u] = np.concatenate([[y0], mono * h])
  return out.astype(np.float32)


def measures(cfg, k64):
  """Per-unit violation measures of a kernel (rows, units) in float64."""
  rows, units = k64.shape
  lens = lengths_of(cfg)[:rows - 1]
  res = []
  for u in range(units):
    h = k64[1:, u]
    y = np.cumsum(k64[:, u])
    m = {"mono": 0.0, "bounds": 0.0, "conv": 0.0, "clamp": 0.0}
    if cfg["mono"] != 0 and h.size:
      m["mono"] = float(max(0.0, np.max(-cfg["mono"] * h)))
    if cfg["omin"] is not None:
      m["bounds"] = max(m["bounds"], float(cfg["omin"] - y.min()))
    if cfg["omax"] is not None:
      m["bounds"] = max(m["bounds"], float(y.max() - cfg["omax"]))
    if cfg["conv"] != 0 and h.size >= 2:
      ratio = lens[1:] / lens[:-1]
      d = cfg["conv"] * (h[1:] - h[:-1] * ratio) / np.maximum(1.0, ratio)
      m["conv"] = float(max(0.0, np.max(-d)))
    first, last = (y[0], y[-1]) if cfg["mono"] >= 0 else (y[-1], y[0])
    if cfg["clamp_min"] and cfg["omin"] is not None:
      m["clamp"] = max(m["clamp"], abs(float(first - cfg["omin"])))
    if cfg["clamp_max"] and cfg["omax"] is not None:
      m["clamp"] = max(m["clamp"], abs(float(last - cfg["omax"])))
    res.append(m)
  return res


def clamp_parts(cfg, col):
  """(miss of the clamp at the first keypoint, miss of the clamp at the last
  keypoint) of one unit; None where that end is not clamped.  An increasing
  function has output_min at its first keypoint, a decreasing one output_max."""
  y = np.cumsum(col)
  if cfg["mono"] >= 0:
    near = (cfg["clamp_min"], cfg["omin"])
    far = (cfg["clamp_max"], cfg["omax"])
  else:
    near = (cfg["clamp_max"], cfg["omax"])
    far = (cfg["clamp_min"], cfg["omin"])
  return (abs(float(y[0] - near[1])) if near[0] and near[1] is not None
          else None,
          abs(float(y[-1] - far[1])) if far[0] and far[1] is not None
          else None)


def conv_residual(cfg, col, tol):
  """Residual rules for convexity + bounds without monotonicity.

  The documented reason for the residual is the last step, which caps the
  keypoint outputs at the bounds.  Capping a convex function from below (a
  concave one from above) keeps the shape; capping from the other side changes
  slopes only on segments that touch a capped keypoint.  Returns
  (problem or None, number of tolerated violations)."""
  rows = col.size
  lens = lengths_of(cfg)[:rows - 1]
  h, y = col[1:], np.cumsum(col)
  if h.size < 2:
    return None, 0
  ratio = lens[1:] / lens[:-1]
  d = cfg["conv"] * (h[1:] - h[:-1] * ratio) / np.maximum(1.0, ratio)
  v = np.maximum(0.0, -d)            # v[i]: violation at interior keypoint i+1
  brk = cfg["omax"] if cfg["conv"] == 1 else cfg["omin"]
  tolerated = 0
  for i in np.nonzero(v > tol)[0]:
    if brk is None:
      return ("by %.3g at keypoint %d although the only bound configured (%s) "
              "cannot break the shape" % (
                  v[i], i + 1, "output_min" if cfg["conv"] == 1 else
                  "output_max")), tolerated
    if not np.any(np.abs(y[i:i + 3] - brk) <= tol):
      return ("by %.3g at keypoint %d whose outputs %s and neighbours are not "
              "at the capping bound %g" % (v[i], i + 1, y[i:i + 3].tolist(),
                                           brk)), tolerated
    tolerated += 1
  if float(v.max()) > float(y.max() - y.min()) + tol:
    return ("by %.3g, more than the whole output range %.3g" % (
        v.max(), y.max() - y.min())), tolerated
  return None, tolerated


def inject_violation(cfg, k32, aux):
  rs = np.random.RandomState(aux + 1)
  k = k32.astype(np.float64).copy()
  u = rs.randint(k.shape[1])
  sc = max(1.0, float(np.max(np.abs(k))))
  kinds = []
  if cfg["mono"] != 0 and k.shape[0] > 1:
    kinds.append("mono")
  if cfg["omin"] is not None or cfg["omax"] is not None:
    kinds.append("bounds")
  if cfg["conv"] != 0 and k.shape[0] > 2:
    kinds.append("conv")
  if not kinds:
    return k32
  kind = kinds[rs.randint(len(kinds))]
  if kind == "mono":
    i = 1 + rs.randint(k.shape[0] - 1)
    k[i, u] = -cfg["mono"] * sc * rs.uniform(0.05, 1.0)
  elif kind == "bounds":
    if cfg["omax"] is not None and (cfg["omin"] is None or rs.rand() < 0.5):
      k[0, u] = cfg["omax"] + sc * rs.uniform(0.05, 50.0)
    else:
      k[0, u] = cfg["omin"] - sc * rs.uniform(0.05, 50.0)
  else:
    i = 2 + rs.randint(k.shape[0] - 2)
    lens = lengths_of(cfg)
    k[i, u] = k[i - 1, u] * lens[i - 1] / lens[i - 2] - cfg["conv"] * sc * (
        rs.uniform(0.05, 1.0))
  return k.astype(np.float32)


def _bct(cfg):
  from tensorflow_lattice.python import pwl_calibration_lib as L
  b = L.BoundConstraintsType
  omin_c = b.NONE if cfg["omin"] is None else (
      b.CLAMPED if cfg["clamp_min"] else b.BOUND)
  omax_c = b.NONE if cfg["omax"] is None else (
      b.CLAMPED if cfg["clamp_max"] else b.BOUND)
  return omin_c, omax_c


def spelled_keypoints(cfg, how):
  kp = list(cfg["keypoints"])
  if how == "tuple":
    return tuple(kp)
  if how == "ndarray32":
    return np.asarray(kp, np.float32)
  if how == "ndarray64":
    return np.asarray(kp, np.float64)
  if how == "ints" and all(float(v).is_integer() for v in kp):
    return [int(v) for v in kp]
  return kp


def missing_value(case, cfg):
  """float32 (1, units) value assigned to the imputed missing output."""
  if case.get("missing_mode", "raw") != "inside":
    return S.materialize(case["missing"], (1, cfg["units"]))
  rs = np.random.RandomState(case["aux"] + 7)
  lo, hi = cfg["omin"], cfg["omax"]
  t = rs.choice([0.0, 1.0, rs.uniform(), rs.uniform()], size=cfg["units"])
  if lo is not None and hi is not None:
    v = np.clip(lo + t * (hi - lo), lo, hi)
  elif lo is not None:
    v = lo + t * rs.choice([1e-3, 1.0, 1e3])
  elif hi is not None:
    v = hi - t * rs.choice([1e-3, 1.0, 1e3])
  else:
    v = rs.normal(size=cfg["units"]) * rs.choice([1e-3, 1.0, 1e3])
  v = v.astype(np.float32)
  # float32 rounding must not leave the interval.
  if lo is not None:
    v = np.maximum(v, np.float32(lo))
  if hi is not None:
    v = np.minimum(v, np.float32(hi))
  return v.reshape(1, cfg["units"])


def apply_entry(case, k32, out):
  import tensorflow as tf
  import tensorflow_lattice as tfl
  from tensorflow_lattice.python import pwl_calibration_lib as L
  cfg = case["cfg"]
  spell = case.get("spell") or {}
  np_dtype = np.float64 if case.get("dtype") == "float64" else np.float32
  mono_arg = MONO_STR[cfg["mono"]] if spell.get("mono") == "str" else (
      cfg["mono"])
  conv_arg = CONV_STR[cfg["conv"]] if spell.get("conv") == "str" else (
      cfg["conv"])
  lens32 = (np.asarray(cfg["keypoints"], np.float32)[1:] -
            np.asarray(cfg["keypoints"], np.float32)[:-1])
  omin_c, omax_c = _bct(cfg)
  # the constraint classes receive what convert_all_constraints would produce.
  omin = cfg["omin"] if cfg["omin"] is not None else (
      cfg["omax"] if cfg["omax"] is not None else 0.0)
  omax = cfg["omax"] if cfg["omax"] is not None else omin
  if case["entry"] in ("constraint", "lib"):
    form = case.get("lengths", "tensor")
    lens = lens32.astype(np_dtype)
    lengths = (None if form == "none" else [float(v) for v in lens32]
               if form == "list" else lens if form == "ndarray" else
               tf.constant(lens))
    out.label("lengths:" + form)
    weights = tf.constant(k32.astype(np_dtype))
    if case["entry"] == "constraint":
      c = tfl.pwl_calibration_layer.PWLCalibrationConstraints(
          monotonicity=mono_arg, convexity=conv_arg, lengths=lengths,
          output_min=omin, output_max=omax, output_min_constraints=omin_c,
          output_max_constraints=omax_c,
          num_projection_iterations=cfg["iters"])
      return c(weights).numpy()
    return L.project_all_constraints(
        weights=weights, monotonicity=cfg["mono"], output_min=omin,
        output_max=omax, output_min_constraints=omin_c,
        output_max_constraints=omax_c, convexity=cfg["conv"], lengths=lengths,
        num_projection_iterations=cfg["iters"]).numpy()
  kw = S.pwl_layer_kwargs(cfg)
  kw["input_keypoints"] = spelled_keypoints(cfg, spell.get("kp", "list"))
  kw["monotonicity"], kw["convexity"] = mono_arg, conv_arg
  kp_type = case.get("kp_type", "fixed")
  if kp_type != "fixed":
    kw["input_keypoints_type"] = kp_type
  if np_dtype is np.float64:
    kw["dtype"] = "float64"
  out.label("keypoints-type:" + kp_type,
            "keypoints-as:" + ("ints" if isinstance(
                kw["input_keypoints"], list) and isinstance(
                    kw["input_keypoints"][0], int) else
                               spell.get("kp", "list").replace("ints", "list")))
  layer = tfl.layers.PWLCalibration(impute_missing=True, **kw)
  layer.build((None, cfg["units"]))
  layer.kernel.assign(k32.astype(np_dtype))
  layer.kernel.assign(layer.kernel.constraint(layer.kernel))
  res = layer.kernel.numpy()
  # keypoints_outputs() must report the cumulative sums (closing point if cyclic)
  kpo = layer.keypoints_outputs().numpy().astype(np.float64)
  y = np.cumsum(res.astype(np.float64), axis=0)
  if cfg["cyclic"]:
    y = np.concatenate([y, y[:1]], axis=0)
  out.checks += 1
  if kpo.shape != y.shape or np.max(np.abs(kpo - y)) > TOL_W * scale_of(y):
    out.violate("keypoints_outputs() differs from cumulative kernel sums",
                kind="keypoints_outputs")
  # imputed missing output
  mo = missing_value(case, cfg)
  layer.missing_output.assign(mo.astype(np_dtype))
  layer.missing_output.assign(layer.missing_output.constraint(
      layer.missing_output))
  mv = layer.missing_output.numpy().astype(np.float64)
  mo64 = mo.astype(np.float64)
  out.checks += 1
  out.label("missing-output-checked")
  inside = (cfg["omin"] is None or mo64.min() >= cfg["omin"]) and (
      cfg["omax"] is None or mo64.max() <= cfg["omax"])
  if (cfg["omin"] is not None and mv.min() < cfg["omin"]) or (
      cfg["omax"] is not None and mv.max() > cfg["omax"]):
    out.violate("imputed missing output %s outside the bounds" % mv.tolist(),
                kind="missing-bounds")
  elif inside:
    # already within the bounds (or no bounds): returned unchanged, exactly.
    if cfg["omin"] is not None or cfg["omax"] is not None:
      out.label("missing-output:inside-bounds")
    # (TensorFlow kernels may flush float32 denormals to zero: a value below
    # the smallest normal float32 may also come back as 0.)
    denormal = np.abs(mo64) < float(np.finfo(np.float32).tiny)
    if not np.all((mv == mo64) | (denormal & (mv == 0.0))):
      out.violate("missing output %s already inside the bounds changed to %s "
                  "by its constraint" % (mo64.tolist(), mv.tolist()),
                  kind="missing-unchanged")
  return res


def _bias_outside(cfg, k):
  """Region of finding F-C04-1: the returned bias (first keypoint output) is
  outside the bounds or within the 0.001 dead zone of the bound the function
  moves towards, so the scaling finaliser cannot (and does not try to) fix it."""
  b = float(k[0])
  lo, hi = cfg["omin"], cfg["omax"]
  if cfg["mono"] >= 0:
    return bool((hi is not None and b >= hi - 0.0011) or
                (lo is not None and b < lo))
  return bool((lo is not None and b <= lo + 0.0011) or
              (hi is not None and b > hi))


def _spacing_labels(cfg, out):
  lens = lengths_of(cfg)
  out.label("kp:" + cfg.get("kp_mode", "grid"))
  if lens.min() < 2e-4:
    out.label("gap<2e-4")
  if lens.min() < 1e-5:
    out.label("gap<1e-5")
  if lens.max() > 100.0:
    out.label("gap>100")
  if lens.size >= 2:
    r = lens[1:] / lens[:-1]
    if r.max() > 5e5 or r.min() < 2e-6:
      out.label("gap-ratio-beyond-5e5")
  if len(cfg["keypoints"]) > 8:
    out.label("keypoints>8")
  if abs(cfg["keypoints"][0]) >= 1e4:
    out.label("keypoints-offset>=1e4")


def _convexity_conditioning(cfg, rows, s_in):
  """Extra movement a float32-rounded feasible kernel may show under convexity.

  Convexity compares slopes h[i] / l[i].  The feasible kernel is exact in
  float64 and then rounded to float32, so a height carries an error of up to
  ulp32(S); seen as a slope error ulp32(S) / l[i] it has to be absorbed by
  every later height h[j] = slope * l[j].  The movement is therefore bounded by
  8 * ulp32(S) * max_{i<j} l[j] / l[i], which is negligible for ordinary
  spacings and dominates only for gap ratios beyond ~1e3 (thorough tier:
  keypoints one float32 ulp apart next to gaps of 1e3).
  """
  if cfg["conv"] == 0 or rows < 3:
    return 0.0
  lens = np.asarray(lengths_of(cfg)[:rows - 1], np.float64)
  amp = 1.0
  smallest = lens[0]
  for l in lens[1:]:
    amp = max(amp, l / smallest)
    smallest = min(smallest, l)
  return 8.0 * float(np.spacing(np.float32(s_in))) * amp


def run_case(case):
  out = Outcome()
  cfg = case["cfg"]
  rows = len(cfg["keypoints"]) - (1 if cfg["cyclic"] else 0)
  units = cfg["units"]
  raw = S.materialize(case["kernel"], (rows, units))
  k32, feasible = raw, False
  kmode = case["kmode"]
  if kmode == "short":
    k32 = short_kernel(cfg, rows, case["aux"])
  elif kmode != "raw":
    fk = feasible_kernel(cfg, rows, case["aux"])
    if fk is None:
      out.discard = "no-feasible-kernel"
      return out
    k32, feasible = fk, True
    if kmode == "feasible+viol":
      k32 = inject_violation(cfg, fk, case["aux"])
      feasible = bool(np.array_equal(k32, fk))
  has_bounds = cfg["omin"] is not None or cfg["omax"] is not None
  one_sided = (cfg["omin"] is None) != (cfg["omax"] is None)
  spell = case.get("spell") or {}
  out.label("entry:" + case["entry"], "kernel:" + kmode, "units:%d" % units,
            "mono:%d" % cfg["mono"], "conv:%d" % cfg["conv"],
            "iters:%d" % cfg["iters"], "keypoints:%d" % len(cfg["keypoints"]),
            "dtype:" + case.get("dtype", "float32"))
  if has_bounds:
    out.label("bounded")
  if cfg["clamp_min"] or cfg["clamp_max"]:
    out.label("clamped")
  if cfg["cyclic"]:
    out.label("cyclic", "cyclic:entry=" + case["entry"])
    if has_bounds:
      out.label("cyclic+bounded")
    if one_sided:
      out.label("cyclic+one-sided-bound")
    if len(cfg["keypoints"]) == 3:
      out.label("cyclic+3-keypoints")
  if case["entry"] != "lib" and (
      (cfg["mono"] != 0 and spell.get("mono") == "str") or
      (cfg["conv"] != 0 and spell.get("conv") == "str")):
    out.label("spelled:strings")
  _spacing_labels(cfg, out)

  k64 = k32.astype(np.float64)
  s_in = scale_of(k64, cfg["omin"], cfg["omax"])
  in_m = measures(cfg, k64)
  in_viol = max(max(m.values()) for m in in_m)

  res = apply_entry(case, k32, out).astype(np.float64)
  out.checks += 1
  sig = dict(mono=cfg["mono"] != 0, conv=cfg["conv"] != 0, bounded=has_bounds,
             iters0=cfg["iters"] == 0)
  if res.shape != (rows, units) or not np.all(np.isfinite(res)):
    out.violate("result has shape %s / non-finite values" % (res.shape,),
                kind="finite", **sig)
    return out
  s_out = scale_of(np.cumsum(res, axis=0), res, cfg["omin"], cfg["omax"])
  tol = TOL_W * s_out
  # The clamp is reached inside the Dykstra loop by spreading
  # (bound - bias - sum(heights)) over the heights in float32, i.e. with a
  # rounding error of a few ulp32 of the INPUT kernel per row; the final clip
  # only guarantees "<= bound".
  clamp_tol = max(tol, 8.0 * rows * float(np.spacing(np.float32(
      scale_of(np.sum(np.abs(k64), axis=0))))))
  exempt_conv = cfg["conv"] != 0 and has_bounds and cfg["mono"] == 0
  exempt_clamp = cfg["conv"] != 0
  clamped = cfg["clamp_min"] or cfg["clamp_max"]
  worst = 0.0
  for u, m in enumerate(measures(cfg, res)):
    out.checks += 4
    if m["mono"] > 0.0:      # exact claim
      out.violate("height of the wrong sign (%.3g) in unit %d via %s" %
                  (m["mono"], u, case["entry"]), kind="mono", **sig)
    if m["bounds"] > tol:
      out.violate("keypoint output outside the bounds by %.3g (tolerance %.3g)"
                  " in unit %d via %s" % (m["bounds"], tol, u, case["entry"]),
                  kind="bounds", bias_outside=_bias_outside(cfg, res[:, u]),
                  **sig)
    if exempt_conv:
      # tolerated relaxation; only what the capping of the outputs explains.
      problem, tolerated = conv_residual(cfg, res[:, u], tol)
      out.label("residual:convexity+bounds-without-monotonicity-judged")
      if tolerated:
        out.label("exempt:convexity+bounds-without-monotonicity")
      if problem is not None:
        out.violate("convexity (with bounds, without monotonicity) violated "
                    "%s (tolerance %.3g) in unit %d via %s" % (
                        problem, tol, u, case["entry"]),
                    kind="conv-residual", **sig)
    elif m["conv"] > tol:
      out.violate("convexity violated by %.3g (tolerance %.3g) in unit %d via "
                  "%s" % (m["conv"], tol, u, case["entry"]), kind="conv", **sig)
    if clamped and exempt_clamp:
      near, far = clamp_parts(cfg, res[:, u])
      judged_far = kmode == "short"
      if cfg["iters"] == 0:
        out.label("exempt:clamp+convexity")
      else:
        if near is not None:
          out.label("residual:clamp+convexity-first-keypoint-judged")
          if near > clamp_tol:
            out.violate("clamp at the first keypoint missed by %.3g (tolerance "
                        "%.3g) with convexity after %d iteration(s) in unit %d "
                        "via %s" % (near, clamp_tol, cfg["iters"], u,
                                    case["entry"]),
                        kind="clamp-residual", end="first", **sig)
        if far is not None and judged_far:
          out.label("residual:clamp+convexity-short-kernel-judged")
          if far > clamp_tol:
            out.violate("monotone convex kernel short of the clamp: clamp at "
                        "the last keypoint still missed by %.3g (tolerance "
                        "%.3g) after %d iteration(s) in unit %d via %s" % (
                            far, clamp_tol, cfg["iters"], u, case["entry"]),
                        kind="clamp-residual", end="last", **sig)
        elif far is not None:
          out.label("exempt:clamp+convexity")
    elif m["clamp"] > clamp_tol:
      out.violate("clamped bound missed by %.3g (tolerance %.3g) in unit %d "
                  "via %s" % (m["clamp"], clamp_tol, u, case["entry"]),
                  kind="clamp", **sig)
    worst = max(worst, m["bounds"] / s_out, m["conv"] / s_out)
  out.info["worst_violation_over_S"] = worst
  if feasible:
    moved = float(np.max(np.abs(res - k64)))
    out.checks += 1
    out.info["moved_over_S"] = moved / s_in
    tol_moved = TOL_W * s_in + _convexity_conditioning(cfg, rows, s_in)
    if moved > tol_moved:
      out.violate("feasible kernel moved by %.3g (tolerance %.3g) via %s" %
                  (moved, tol_moved, case["entry"]), kind="unchanged", **sig)
    out.nontrivial = bool(rows > 1 and np.any(k64[1:] != 0))
  else:
    configured = cfg["mono"] != 0 or cfg["conv"] != 0 or has_bounds
    out.nontrivial = bool(configured and in_viol > 10 * TOL_W * s_in)
  return out
