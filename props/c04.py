"""C04 - PWLCalibration weight constraint returns keypoint outputs meeting all limits."""
import numpy as np
from hypothesis import strategies as st

from vlib import strategies as S
from vlib.harness import Outcome, TOL_W, scale_of

ID = "C04"
TITLE = "PWLCalibration weight constraint returns keypoint outputs meeting all its limits"
RULE = ("Hypothesis draws a valid PWLCalibration configuration (2-8 keypoints "
        "with spacings from {1e-2..100}, thorough up to 12; monotonicity "
        "{-1,0,1}, convexity {-1,0,1}, bounds {none,min,max,both, incl. "
        "zero width}, clamps (only with monotonicity, as documented), cyclic, "
        "units 1-3, iterations in {0,1,2,8,30}), an entry point "
        "(PWLCalibrationConstraints, project_all_constraints, the layer's "
        "kernel constraint + keypoints_outputs(), NaiveBoundsConstraints on the "
        "missing output) and a kernel (random mixture incl. biases far outside "
        "the bounds and heights of the wrong sign; feasible by construction; "
        "feasible plus one injected violation). Non-trivial: a constraint is "
        "configured and the input violates one by > 10x tolerance, or the case "
        "is a non-constant feasible kernel; distinct by SHA-1 of the case.")
NT_FLOOR = 0.5
BUDGET = {"quick": 700, "thorough": 10000}
TECHNIQUE = ("property-based testing (Hypothesis): generated configurations and "
             "kernels against a float64 keypoint-output oracle; constructive "
             "feasible kernels for the unchanged clause")
LEVEL_TEXT = ("Generated-input exploration of the PWL weight constraint over "
              "configurations x kernels x entry points; per unit the float64 "
              "oracle checks exact sign of every height, cumulative outputs "
              "inside the bounds, slope ordering for convexity, clamp values, "
              "imputed missing output inside the bounds, and that feasible "
              "kernels come back unchanged. The two tolerated relaxations of the "
              "statement are exempted and counted.")
LEVEL_NOTE = ("Tolerance 2e-5*S (S = max(1,|result|,|bounds|); S incl. input for "
              "the unchanged clause); convexity judged as h[i+1] - h[i]*l[i+1]/"
              "l[i] with tolerance scaled by max(1, l[i+1]/l[i]). Known findings "
              "F-C04-1/2 are matched by signature. <= 8 keypoints quick, 12 "
              "thorough.")

ENTRIES = ["constraint", "constraint", "lib", "layer", "layer"]


@st.composite
def _case(draw, tier):
  cfg = draw(S.pwl_config(max_k=8 if tier == "quick" else 12,
                          spacings=S.SPACINGS_FINE))
  entry = "layer" if cfg["cyclic"] else draw(st.sampled_from(ENTRIES))
  rows = len(cfg["keypoints"]) - (1 if cfg["cyclic"] else 0)
  return {"cfg": cfg, "entry": entry,
          "kmode": draw(st.sampled_from(["raw", "raw", "feasible",
                                         "feasible+viol"])),
          "kernel": draw(S.array_desc(shape=(rows, cfg["units"]))),
          "missing": draw(S.array_desc(kinds=["normal", "ints"],
                                       shape=(1, cfg["units"]))),
          "aux": draw(S.seeds)}


def strategy(tier):
  return _case(tier)


def lengths_of(cfg):
  kp = np.asarray(cfg["keypoints"], np.float32)
  return (kp[1:] - kp[:-1]).astype(np.float64)


def feasible_kernel(cfg, rows, aux):
  """Feasible (n_rows, units) float32 kernel built constructively."""
  rs = np.random.RandomState(aux)
  units = cfg["units"]
  lens = lengths_of(cfg)[:rows - 1]
  out = np.zeros((rows, units))
  lo, hi = cfg["omin"], cfg["omax"]
  for u in range(units):
    nh = rows - 1
    if cfg["conv"] != 0:
      slopes = rs.normal(size=nh) * rs.choice([0.1, 1.0, 30.0])
      if cfg["mono"] != 0:
        slopes = np.abs(slopes) * cfg["mono"]
      slopes = np.sort(slopes)
      if cfg["conv"] == -1:
        slopes = slopes[::-1]
      h = slopes * lens
    elif cfg["mono"] != 0:
      h = np.abs(rs.normal(size=nh)) * cfg["mono"]
      h = h * (rs.rand(nh) > 0.25)            # some flat segments
    else:
      h = rs.normal(size=nh)
    y = np.concatenate([[0.0], np.cumsum(h)]) + rs.normal() * 3
    mn, mx = float(y.min()), float(y.max())
    # positive affine maps keep monotonicity and convexity.
    if lo is not None and hi is not None:
      a, b = sorted(rs.uniform(0, 1, size=2))
      if cfg["clamp_min"]:
        a = 0.0
      if cfg["clamp_max"]:
        b = 1.0
      if mx > mn:
        y = (y - mn) / (mx - mn) * (b - a) * (hi - lo) + lo + a * (hi - lo)
      elif cfg["clamp_min"] and cfg["clamp_max"] and hi > lo:
        return None            # a constant function cannot hit both clamps
      else:
        y = np.full_like(y, hi if cfg["clamp_max"] else lo + a * (hi - lo))
    elif lo is not None:
      y = y + (lo - mn) + (0.0 if cfg["clamp_min"] else rs.uniform(0, 2))
    elif hi is not None:
      y = y - (mx - hi) - (0.0 if cfg["clamp_max"] else rs.uniform(0, 2))
    out[:, u] = np.concatenate([[y[0]], np.diff(y)])
  return out.astype(np.float32)


def measures(cfg, k64):
  """Per-unit violation measures of a kernel (rows, units) in float64."""
  rows, units = k64.shape
  lens = lengths_of(cfg)[:rows - 1]
  res = []
  for u in range(units):
    h = k64[1:, u]
    y = np.cumsum(k64[:, u])
    m = {"mono": 0.0, "bounds": 0.0, "conv": 0.0, "clamp": 0.0}
    if cfg["mono"] != 0 and h.size:
      m["mono"] = float(max(0.0, np.max(-cfg["mono"] * h)))
    if cfg["omin"] is not None:
      m["bounds"] = max(m["bounds"], float(cfg["omin"] - y.min()))
    if cfg["omax"] is not None:
      m["bounds"] = max(m["bounds"], float(y.max() - cfg["omax"]))
    if cfg["conv"] != 0 and h.size >= 2:
      ratio = lens[1:] / lens[:-1]
      d = cfg["conv"] * (h[1:] - h[:-1] * ratio) / np.maximum(1.0, ratio)
      m["conv"] = float(max(0.0, np.max(-d)))
    first, last = (y[0], y[-1]) if cfg["mono"] >= 0 else (y[-1], y[0])
    if cfg["clamp_min"] and cfg["omin"] is not None:
      m["clamp"] = max(m["clamp"], abs(float(first - cfg["omin"])))
    if cfg["clamp_max"] and cfg["omax"] is not None:
      m["clamp"] = max(m["clamp"], abs(float(last - cfg["omax"])))
    res.append(m)
  return res


def inject_violation(cfg, k32, aux):
  rs = np.random.RandomState(aux + 1)
  k = k32.astype(np.float64).copy()
  u = rs.randint(k.shape[1])
  sc = max(1.0, float(np.max(np.abs(k))))
  kinds = []
  if cfg["mono"] != 0 and k.shape[0] > 1:
    kinds.append("mono")
  if cfg["omin"] is not None or cfg["omax"] is not None:
    kinds.append("bounds")
  if cfg["conv"] != 0 and k.shape[0] > 2:
    kinds.append("conv")
  if not kinds:
    return k32
  kind = kinds[rs.randint(len(kinds))]
  if kind == "mono":
    i = 1 + rs.randint(k.shape[0] - 1)
    k[i, u] = -cfg["mono"] * sc * rs.uniform(0.05, 1.0)
  elif kind == "bounds":
    if cfg["omax"] is not None and (cfg["omin"] is None or rs.rand() < 0.5):
      k[0, u] = cfg["omax"] + sc * rs.uniform(0.05, 50.0)
    else:
      k[0, u] = cfg["omin"] - sc * rs.uniform(0.05, 50.0)
  else:
    i = 2 + rs.randint(k.shape[0] - 2)
    lens = lengths_of(cfg)
    k[i, u] = k[i - 1, u] * lens[i - 1] / lens[i - 2] - cfg["conv"] * sc * (
        rs.uniform(0.05, 1.0))
  return k.astype(np.float32)


def _bct(cfg):
  from tensorflow_lattice.python import pwl_calibration_lib as L
  b = L.BoundConstraintsType
  omin_c = b.NONE if cfg["omin"] is None else (
      b.CLAMPED if cfg["clamp_min"] else b.BOUND)
  omax_c = b.NONE if cfg["omax"] is None else (
      b.CLAMPED if cfg["clamp_max"] else b.BOUND)
  return omin_c, omax_c


def apply_entry(case, k32, out):
  import tensorflow as tf
  import tensorflow_lattice as tfl
  from tensorflow_lattice.python import pwl_calibration_lib as L
  cfg = case["cfg"]
  lens32 = (np.asarray(cfg["keypoints"], np.float32)[1:] -
            np.asarray(cfg["keypoints"], np.float32)[:-1])
  omin_c, omax_c = _bct(cfg)
  # the constraint classes receive what convert_all_constraints would produce.
  omin = cfg["omin"] if cfg["omin"] is not None else (
      cfg["omax"] if cfg["omax"] is not None else 0.0)
  omax = cfg["omax"] if cfg["omax"] is not None else omin
  if case["entry"] == "constraint":
    c = tfl.pwl_calibration_layer.PWLCalibrationConstraints(
        monotonicity=cfg["mono"], convexity=cfg["conv"],
        lengths=tf.constant(lens32), output_min=omin, output_max=omax,
        output_min_constraints=omin_c, output_max_constraints=omax_c,
        num_projection_iterations=cfg["iters"])
    return c(tf.constant(k32)).numpy()
  if case["entry"] == "lib":
    return L.project_all_constraints(
        weights=tf.constant(k32), monotonicity=cfg["mono"], output_min=omin,
        output_max=omax, output_min_constraints=omin_c,
        output_max_constraints=omax_c, convexity=cfg["conv"],
        lengths=tf.constant(lens32),
        num_projection_iterations=cfg["iters"]).numpy()
  layer = tfl.layers.PWLCalibration(impute_missing=True,
                                    **S.pwl_layer_kwargs(cfg))
  layer.build((None, cfg["units"]))
  layer.kernel.assign(k32)
  layer.kernel.assign(layer.kernel.constraint(layer.kernel))
  res = layer.kernel.numpy()
  # keypoints_outputs() must report the cumulative sums (closing point if cyclic)
  kpo = layer.keypoints_outputs().numpy().astype(np.float64)
  y = np.cumsum(res.astype(np.float64), axis=0)
  if cfg["cyclic"]:
    y = np.concatenate([y, y[:1]], axis=0)
  out.checks += 1
  if kpo.shape != y.shape or np.max(np.abs(kpo - y)) > TOL_W * scale_of(y):
    out.violate("keypoints_outputs() differs from cumulative kernel sums",
                kind="keypoints_outputs")
  # imputed missing output
  mo = S.materialize(case["missing"], (1, cfg["units"]))
  layer.missing_output.assign(mo)
  layer.missing_output.assign(layer.missing_output.constraint(
      layer.missing_output))
  mv = layer.missing_output.numpy().astype(np.float64)
  out.checks += 1
  out.label("missing-output-checked")
  if (cfg["omin"] is not None and mv.min() < cfg["omin"]) or (
      cfg["omax"] is not None and mv.max() > cfg["omax"]):
    out.violate("imputed missing output %s outside the bounds" % mv.tolist(),
                kind="missing-bounds")
  elif cfg["omin"] is None and cfg["omax"] is None and not np.array_equal(
      mv, mo.astype(np.float64)):
    out.violate("unbounded missing output changed by its constraint",
                kind="missing-unchanged")
  return res


def _bias_outside(cfg, k):
  """Region of finding F-C04-1: the returned bias (first keypoint output) is
  outside the bounds or within the 0.001 dead zone of the bound the function
  moves towards, so the scaling finaliser cannot (and does not try to) fix it."""
  b = float(k[0])
  lo, hi = cfg["omin"], cfg["omax"]
  if cfg["mono"] >= 0:
    return bool((hi is not None and b >= hi - 0.0011) or
                (lo is not None and b < lo))
  return bool((lo is not None and b <= lo + 0.0011) or
              (hi is not None and b > hi))


def run_case(case):
  out = Outcome()
  cfg = case["cfg"]
  rows = len(cfg["keypoints"]) - (1 if cfg["cyclic"] else 0)
  units = cfg["units"]
  raw = S.materialize(case["kernel"], (rows, units))
  k32, feasible = raw, False
  kmode = case["kmode"]
  if kmode != "raw":
    fk = feasible_kernel(cfg, rows, case["aux"])
    if fk is None:
      out.discard = "no-feasible-kernel"
      return out
    k32, feasible = fk, True
    if kmode == "feasible+viol":
      k32 = inject_violation(cfg, fk, case["aux"])
      feasible = bool(np.array_equal(k32, fk))
  has_bounds = cfg["omin"] is not None or cfg["omax"] is not None
  out.label("entry:" + case["entry"], "kernel:" + kmode, "units:%d" % units,
            "mono:%d" % cfg["mono"], "conv:%d" % cfg["conv"],
            "iters:%d" % cfg["iters"], "keypoints:%d" % len(cfg["keypoints"]))
  if has_bounds:
    out.label("bounded")
  if cfg["clamp_min"] or cfg["clamp_max"]:
    out.label("clamped")
  if cfg["cyclic"]:
    out.label("cyclic")

  k64 = k32.astype(np.float64)
  s_in = scale_of(k64, cfg["omin"], cfg["omax"])
  in_m = measures(cfg, k64)
  in_viol = max(max(m.values()) for m in in_m)

  res = apply_entry(case, k32, out).astype(np.float64)
  out.checks += 1
  sig = dict(mono=cfg["mono"] != 0, conv=cfg["conv"] != 0, bounded=has_bounds,
             iters0=cfg["iters"] == 0)
  if res.shape != (rows, units) or not np.all(np.isfinite(res)):
    out.violate("result has shape %s / non-finite values" % (res.shape,),
                kind="finite", **sig)
    return out
  s_out = scale_of(np.cumsum(res, axis=0), res, cfg["omin"], cfg["omax"])
  tol = TOL_W * s_out
  # The clamp is reached inside the Dykstra loop by spreading
  # (bound - bias - sum(heights)) over the heights in float32, i.e. with a
  # rounding error of a few ulp32 of the INPUT kernel per row; the final clip
  # only guarantees "<= bound".
  clamp_tol = max(tol, 8.0 * rows * float(np.spacing(np.float32(
      scale_of(np.sum(np.abs(k64), axis=0))))))
  exempt_conv = cfg["conv"] != 0 and has_bounds and cfg["mono"] == 0
  exempt_clamp = cfg["conv"] != 0
  worst = 0.0
  for u, m in enumerate(measures(cfg, res)):
    out.checks += 4
    if m["mono"] > 0.0:      # exact claim
      out.violate("height of the wrong sign (%.3g) in unit %d via %s" %
                  (m["mono"], u, case["entry"]), kind="mono", **sig)
    if m["bounds"] > tol:
      out.violate("keypoint output outside the bounds by %.3g (tolerance %.3g)"
                  " in unit %d via %s" % (m["bounds"], tol, u, case["entry"]),
                  kind="bounds", bias_outside=_bias_outside(cfg, res[:, u]),
                  **sig)
    if exempt_conv:
      out.label("exempt:convexity+bounds-without-monotonicity")
    elif m["conv"] > tol:
      out.violate("convexity violated by %.3g (tolerance %.3g) in unit %d via "
                  "%s" % (m["conv"], tol, u, case["entry"]), kind="conv", **sig)
    if (cfg["clamp_min"] or cfg["clamp_max"]) and exempt_clamp:
      out.label("exempt:clamp+convexity")
    elif m["clamp"] > clamp_tol:
      out.violate("clamped bound missed by %.3g (tolerance %.3g) in unit %d "
                  "via %s" % (m["clamp"], clamp_tol, u, case["entry"]),
                  kind="clamp", **sig)
    worst = max(worst, m["bounds"] / s_out, m["conv"] / s_out)
  out.info["worst_violation_over_S"] = worst
  if feasible:
    moved = float(np.max(np.abs(res - k64)))
    out.checks += 1
    out.info["moved_over_S"] = moved / s_in
    if moved > TOL_W * s_in:
      out.violate("feasible kernel moved by %.3g (tolerance %.3g) via %s" %
                  (moved, TOL_W * s_in, case["entry"]), kind="unchanged", **sig)
    out.nontrivial = bool(rows > 1 and np.any(k64[1:] != 0))
  else:
    configured = cfg["mono"] != 0 or cfg["conv"] != 0 or has_bounds
    out.nontrivial = bool(configured and in_viol > 10 * TOL_W * s_in)
  return out
