"""C14 - alternative representations of the same function agree."""
import numpy as np
from hypothesis import strategies as st

from vlib import oracles as R
from vlib import strategies as S
from vlib.harness import Outcome, TOL_F, canonical, hash32, scale_of

ID = "C14"
TITLE = "Alternative representations of the same function agree"
RULE = ("Each case picks one of six representation pairs (label pair:*) and a "
        "valid configuration for it: kfl = KroneckerFactoredLattice (size 2-4, "
        "1-4 dims, 1-3 units, 1-4 terms, clip on/off, 0-2 extra batch dims of "
        "size 1-3, list inputs, assigned or initialiser weights) vs Lattice "
        "holding the dense kernel; pwl = pwl_calibration_fn (2-8 keypoints, "
        "none/increasing, clamps, cyclic, derived/fixed/no missing output, "
        "every documented parameter shape incl. per-example parameters and "
        "keypoint_input_parameters=None, input ranges down to 1e-3, free "
        "parameters up to 30 (inputs) / 100 (outputs), keyword arguments that "
        "equal their defaults omitted in a third of the cases) vs "
        "PWLCalibration (fixed keypoints, one layer per distinct keypoint "
        "set, or learned_interior logits); cdf = cdf_fn vs CDF (sigmoid/relu6, "
        "mean/none, sparsity 1-3, no/scalar/per-input scaling with and without "
        "the exp transform, per-example locations); pc = ParallelCombination "
        "of PWL (plain, missing-value imputation, learned_interior, "
        "non-default constraint options) / categorical / linear / 1-D Lattice "
        "calibrators, built from the constructor list or by append() (tensor "
        "or list input, single or list output) vs column-wise calls; agg = "
        "Aggregation of a lattice/linear keras model, bare or behind PWL / "
        "categorical (int32 ragged input) calibrators, over ragged rows of "
        "different lengths (list or dict input, feature names whose sorted "
        "order differs from the input order) vs per-example mean; rtl = RTL "
        "(dict in both key orders / list groups / plain tensor, all_vertices "
        "with hypercube or simplex, kronecker_factored, lattice_size 2-4, "
        "with and without output bounds, separate/averaged outputs, and the "
        "separate outputs chained into a second RTL) vs gathering "
        "_rtl_structure indices into stand-alone lattices. kfl, pc and rtl "
        "layers are evaluated eagerly, inside a tf.function whose signature "
        "leaves the batch size unknown, or as a Keras functional / Sequential "
        "model (label *:exec-*). Options that do not influence the rest of "
        "the case (execution mode, input container, extra batch dims, "
        "constructor form, feature naming, RTL bounds / chaining) are derived "
        "in run_case from a hash of the whole case, the other class-defining "
        "options from a hash of drawn integers. Both library sides "
        "are compared with each other and with a float64 reference. "
        "Non-trivial: the represented function is not constant (dense kernel "
        "/ keypoint outputs / step activations / per-element model values / "
        "RTL outputs vary by more than 10x the tolerance), for pc more than "
        "one calibrator, for agg some row with more than one element; "
        "distinct by SHA-1 of the case.")
NT_FLOOR = 0.6
BUDGET = {"quick": 400, "thorough": 3000}
TECHNIQUE = ("property-based testing (Hypothesis): differential testing of "
             "paired library entry points on identical inputs, each side also "
             "against an independent float64 reference")
LEVEL_TEXT = ("Generated-input exploration: thousands of random valid "
              "configurations, parameters and inputs per run for six pairs of "
              "equivalent representations; the two library sides are compared "
              "with each other and with a float64 reference written from the "
              "documentation (multilinear/simplex interpolation of the dense "
              "Kronecker kernel, softmax/sigmoid-derived piecewise-linear "
              "function, mean of shifted/scaled sigmoid/relu6 steps, column-wise "
              "calibrators, per-row mean over ragged elements, gather by the "
              "recorded RTL wiring). Finds layout, axis, broadcasting, "
              "reduction and ordering mistakes on either side; cannot show "
              "absence.")
LEVEL_NOTE = ("Tolerance 1e-4 relative to the magnitude of the terms summed "
              "(TOL_F); for PWL a conditioning term sum|dy_i|*min(1, "
              "2*(k+2)*eps32*(|x|+max|keypoint|)/len_i) is added for segments x lies "
              "in or next to (float32 keypoints of very short segments; also "
              "for learned_interior calibrators inside ParallelCombination). "
              "The second RTL of a chain is judged on the first one's actual "
              "float32 outputs. CDF "
              "geometric mean excluded as stated. KFL/Lattice with "
              "clip_inputs=False are only evaluated inside the lattice domain. "
              "Cases whose float32 keypoint deltas underflow to 0 are "
              "discarded. Shapes bounded as stated in the rule.")
ASSUMPTIONS = [
    "pwl_calibration_fn / cdf_fn are called through the public tf.function "
    "objects for the first 200 cases of a worker process and afterwards "
    "through a fresh tf.function around the same Python function (the public "
    "objects never release their traces)",
    "RTL flattening order is the sorted key order ('increasing' before "
    "'unconstrained') used by _rtl_structure; output order is the structure "
    "order with all-unconstrained lattices first",
    "CDF sparsity: unit q of units=m*factor reads kernel column q % m and the "
    "input dims congruent to q // m modulo factor (the documented 'every "
    "other input dim')",
]

PAIRS = ["kfl", "pwl", "cdf", "pc", "agg", "rtl"]
EPS32 = float(np.finfo(np.float32).eps)
# how a layer is evaluated: eager call with static shapes; inside a tf.function
# whose input signature leaves the batch size unknown; as a Keras functional
# model (symbolic inputs with batch size None).
EXEC_MODES = ["eager", "eager", "function", "model"]


@st.composite
def _picker(draw):
  """Hypothesis repeats and mutates earlier draws, which leaves some options
  of a small sampled_from list nearly unvisited in a 400-case shard.  The
  options that define the input classes of this module are therefore selected
  by hashing drawn integers together with the option's name (uniform and
  independent, still a pure function of the drawn values; the result is stored
  in the case)."""
  mix = hash32(draw(S.seeds), draw(S.seeds), draw(S.seeds))
  return lambda name, options: options[hash32(mix, name) % len(options)]


def _derived(case):
  """Options that do not influence what else is generated (execution mode,
  input container, extra batch dimensions, constructor form, ...) are derived
  inside run_case from a hash of the whole case: any difference between two
  cases re-draws them, so Hypothesis' near-duplicate examples still spread
  over all classes.  Deterministic (exact replay); an explicit key of the same
  name in the case wins; cases written before these options existed (no "v"
  key) get the old fixed behaviour `legacy`."""
  h = hash32(canonical(case))

  def opt(name, options, legacy):
    if name in case:
      return case[name]
    if case.get("v") != 2:
      return legacy
    return options[hash32(h, name) % len(options)]
  return opt


class _ExecCrash(Exception):
  """A built layer raised on a valid call in graph mode.  Inside a tf.function
  / Keras model the traceback no longer names the library file, so the harness
  could not attribute it; run_case turns it into a violation."""

  def __init__(self, mode, err):
    Exception.__init__(self, "call in %s mode raised %s: %s" % (
        mode, type(err).__name__, str(err)[:300]))
    self.mode, self.exc = mode, type(err).__name__


def _exec(layer, xin, mode):
  """layer(xin) for a tensor / list / dict of (lists of) tensors, evaluated in
  the given execution mode.  The layer is already built."""
  if mode == "eager":
    return layer(xin)
  try:
    return _exec_graph(layer, xin, mode)
  except Exception as e:  # pylint: disable=broad-except
    raise _ExecCrash(mode, e)


def _exec_graph(layer, xin, mode):
  import tensorflow as tf
  flat = tf.nest.flatten(xin)
  if mode == "function":
    specs = [tf.TensorSpec([None] + list(t.shape[1:]), t.dtype) for t in flat]

    @tf.function(input_signature=specs)
    def fn(*args):
      return layer(tf.nest.pack_sequence_as(xin, list(args)))
    return fn(*flat)
  import tf_keras as keras
  keras.backend.clear_session()   # functional models accumulate global state
  if mode == "sequential":        # single tensor in, as in the PC docstring
    seq = keras.models.Sequential()
    seq.add(keras.layers.InputLayer(input_shape=tuple(xin.shape[1:])))
    seq.add(layer)
    return seq(xin)
  ins = [keras.Input(shape=tuple(t.shape[1:]), dtype=t.dtype) for t in flat]
  model = keras.Model(inputs=ins,
                      outputs=layer(tf.nest.pack_sequence_as(xin, ins)))
  return model(flat)


# ---------------------------------------------------------------------------
# small helpers
def _vec(desc, n):
  if n == 0:
    return np.zeros((0,), np.float32)
  return S.materialize(desc, (n, 1))[:, 0]


def _desc(draw, n, kinds, scales, max_abs):
  return draw(S.array_desc(kinds=kinds, scales=scales,
                           shape=(n, 1) if n > 0 else None, max_abs=max_abs))


def _f64(t):
  return np.asarray(t.numpy() if hasattr(t, "numpy") else t, np.float64)


def _cmp(out, clause, a, b, tol, sig):
  """|a-b| <= tol elementwise (a, b float64); records a violation otherwise."""
  out.checks += 1
  a, b = np.asarray(a, np.float64), np.asarray(b, np.float64)
  if a.shape != b.shape:
    out.violate("%s: shapes differ %s vs %s" % (clause, a.shape, b.shape),
                clause=clause, kind="shape", **sig)
    return False
  if a.size == 0:
    return True
  tol = np.broadcast_to(np.asarray(tol, np.float64), a.shape)
  err = np.abs(a - b)
  bad = ~np.isfinite(a) | ~np.isfinite(b) | (err > tol)
  with np.errstate(divide="ignore", invalid="ignore"):
    ratio = np.where(tol > 0, err / tol, np.where(err > 0, np.inf, 0.0))
  key = "err_over_tol:" + clause
  worst = float(np.nanmax(ratio)) if np.all(np.isfinite(err)) else float("inf")
  out.info[key] = max(out.info.get(key, 0.0), worst)
  if np.any(bad):
    i = np.unravel_index(int(np.argmax(np.where(bad, np.where(
        np.isfinite(ratio), ratio, np.inf), -1.0))), a.shape)
    out.violate("%s: %r vs %r at index %s (tolerance %.3g)" %
                (clause, float(a[i]), float(b[i]), tuple(int(j) for j in i),
                 float(tol[i])), clause=clause, kind="value", **sig)
    return False
  return True


_FN_USES = {}


def _entry_point(fn, name, limit=200):
  """The public tf.function; it keeps every trace alive (about 1 MB per new
  argument combination), so after `limit` uses per process a fresh tf.function
  around the same Python function is used instead and freed after the case."""
  import tensorflow as tf
  n = _FN_USES.get(name, 0)
  _FN_USES[name] = n + 1
  if n < limit or not hasattr(fn, "python_function"):
    return fn
  return tf.function(fn.python_function)


def _softmax(z):
  z = z - np.max(z, axis=-1, keepdims=True)
  e = np.exp(z)
  return e / np.sum(e, axis=-1, keepdims=True)


def _sigmoid(z):
  z = np.asarray(z, np.float64)
  with np.errstate(over="ignore"):
    return np.where(z >= 0, 1.0 / (1.0 + np.exp(-z)),
                    np.exp(z) / (1.0 + np.exp(z)))


def _lattice_x(rs, mode, n, sizes, clip):
  """(n, d) float32 points for a lattice with the given sizes."""
  d = len(sizes)
  hi = np.asarray(sizes, np.float64) - 1.0
  if not clip and mode in ("outside", "mixed"):
    mode = "inside" if mode == "outside" else "vertices+inside"
  inside = rs.uniform(0, 1, size=(n, d)) * hi
  verts = np.round(inside)
  outside = np.where(rs.rand(n, d) < 0.5, -rs.uniform(0.01, 3, size=(n, d)),
                     hi + rs.uniform(0.01, 3, size=(n, d)))
  if mode == "inside":
    x = inside
  elif mode == "vertices":
    x = verts
  elif mode == "outside":
    x = np.where(rs.rand(n, d) < 0.6, outside, inside)
  elif mode == "vertices+inside":
    x = np.where(rs.rand(n, d) < 0.5, verts, inside)
  else:  # mixed
    pick = rs.randint(0, 3, size=(n, d))
    x = np.where(pick == 0, inside, np.where(pick == 1, verts, outside))
  x = x.astype(np.float32)
  if not clip:
    x = np.minimum(np.maximum(x, np.float32(0)), hi.astype(np.float32))
  return x


X_MODES = ["inside", "inside", "vertices", "outside", "mixed", "mixed"]


# ---------------------------------------------------------------------------
# pair kfl: KroneckerFactoredLattice vs Lattice with the dense kernel
@st.composite
def _kfl_case(draw, tier):
  big = tier == "thorough"
  pick = draw(_picker())
  s = draw(st.integers(2, 5 if big else 4))
  d = draw(st.integers(1, 6 if big else 4))
  while s ** d > (2048 if big else 256):
    d -= 1
  u = pick("kfl-units", [1, 1, 2, 3])
  t = draw(st.sampled_from([1, 2, 2, 3, 4]))
  weights = draw(st.sampled_from(["assigned"] * 4 + ["init"]))
  case = {"pair": "kfl", "size": s, "dims": d, "units": u, "terms": t,
          "clip": draw(st.sampled_from([True, True, False])),
          "weights": weights,
          "mono": draw(st.sampled_from([None, "all", "some"])),
          "bounds": draw(st.sampled_from([None, None, [0.0, 1.0], [-1.0, 3.0]]))
          if weights == "init" else None,
          "v": 2,
          "batch": draw(st.integers(1, 6 if big else 4)),
          "x_mode": draw(st.sampled_from(X_MODES)),
          "aux": draw(S.seeds)}
  kk = ["normal", "normal", "uniform", "ints", "sorted", "constant", "ties"]
  case["kernel"] = _desc(draw, s * u * d * t, kk, [1e-2, 1.0, 1.0, 1.0, 10.0,
                                                   1e3], 1e3)
  case["scale"] = _desc(draw, u * t, ["normal", "uniform", "ints", "constant"],
                        [1e-3, 1.0, 1.0, 1.0, 10.0, 1e3], 1e3)
  case["bias"] = _desc(draw, u, ["normal", "zeros", "ints"],
                       [1.0, 1.0, 10.0, 1e3], 1e3)
  return case


def _run_kfl(case, out):
  import tensorflow as tf
  import tensorflow_lattice as tfl
  s, d, u, t = case["size"], case["dims"], case["units"], case["terms"]
  clip = case["clip"]
  rs = np.random.RandomState(case["aux"])
  tf.random.set_seed(case["aux"])
  np.random.seed(case["aux"] % (2**32))
  mono = None
  if case["mono"] == "all":
    mono = [1] * d
  elif case["mono"] == "some":
    mono = [int(v) for v in rs.randint(0, 2, size=d)]
  opt = _derived(case)
  # extra leading dimensions (batch, e1[, e2], [units,] dims), sizes 1-3
  extra = opt("extra", [[], [], [1], [2], [3], [2, 1], [1, 3], [3, 2], [2, 3],
                        [3, 3]], [])
  if not isinstance(extra, list):            # older replay files: None / int
    extra = [extra] if extra else []
  as_list = opt("as_list", [False, False, True], False)
  mode = opt("exec", EXEC_MODES, "eager")
  batch = case["batch"] if int(np.prod(extra or [1])) <= 3 else min(
      case["batch"], 2)
  lead = [batch] + list(extra)
  n = int(np.prod(lead))
  shape = lead + ([u] if u > 1 else []) + [d]
  x = _lattice_x(rs, case["x_mode"], n * u, [s] * d, clip).reshape(shape)
  if as_list:
    xin = [tf.constant(x[..., j:j + 1]) for j in range(d)]
  else:
    xin = tf.constant(x)
  kw = {}
  if case["bounds"]:
    kw = dict(output_min=case["bounds"][0], output_max=case["bounds"][1])
  kfl = tfl.layers.KroneckerFactoredLattice(
      lattice_sizes=s, units=u, num_terms=t, monotonicities=mono,
      clip_inputs=clip, **kw)
  kfl(xin)  # builds
  if case["weights"] == "assigned":
    kfl.kernel.assign(_vec(case["kernel"], s * u * d * t).reshape(
        1, s, u * d, t))
    kfl.scale.assign(_vec(case["scale"], u * t).reshape(u, t))
    kfl.bias.assign(_vec(case["bias"], u))
  kern, scale, bias = (kfl.kernel.numpy(), kfl.scale.numpy(),
                       kfl.bias.numpy())
  out.checks += 1
  if kern.shape != (1, s, u * d, t) or scale.shape != (u, t) or (
      bias.shape != (u,)):
    out.violate("KFL weight shapes %s %s %s" % (kern.shape, scale.shape,
                                               bias.shape),
                clause="kfl-weight-shapes", kind="shape", pair="kfl")
    return
  dense = R.kfl_dense_kernel(kern, scale, bias, s, d, u, t)   # (s**d, u)
  k4 = np.abs(kern.astype(np.float64)).reshape(s, u, d, t)
  mag = (np.abs(scale.astype(np.float64)) * np.prod(k4.max(axis=0), axis=1)
         ).mean(axis=1) + np.abs(bias.astype(np.float64))        # (u,)
  tol = TOL_F * mag + 1e-30
  y_kfl = _f64(_exec(kfl, xin, mode))
  lat = tfl.layers.Lattice(lattice_sizes=[s] * d, units=u, clip_inputs=clip,
                           monotonicities=mono)
  lat(xin)
  lat.kernel.assign(dense.astype(np.float32))
  y_lat = _f64(_exec(lat, xin, mode))
  x3 = x.reshape(n, u, d).astype(np.float64)
  ref = np.stack([R.interp_hypercube(x3[:, j, :], dense[:, j], [s] * d)
                  for j in range(u)], axis=-1).reshape(lead + [u])
  sig = dict(pair="kfl", units_gt1=u > 1, terms_gt1=t > 1)
  out.label("kfl:units>1" if u > 1 else "kfl:units=1",
            "kfl:terms=%d" % t, "kfl:size=%d" % s, "kfl:dims=%d" % d,
            "kfl:clip" if clip else "kfl:noclip", "kfl:x-" + case["x_mode"],
            "kfl:weights-" + case["weights"])
  if as_list:
    out.label("kfl:list-input")
  out.info["derived_options"] = dict(extra=extra, as_list=as_list, exec=mode)
  out.label("kfl:exec-" + mode)
  if extra:
    out.label("kfl:extra-batch-dim", "kfl:extra-batch-dims=%d" % len(extra))
    if max(extra) >= 3:
      out.label("kfl:extra-batch-dim-size>=3")
    if u > 1:
      out.label("kfl:extra-batch-dim,units>1")
      if as_list:
        out.label("kfl:extra-batch-dim,units>1,list-input")
  out.nontrivial = bool(np.any(np.ptp(dense, axis=0) > 10 * tol))
  _cmp(out, "kfl-vs-ref", y_kfl, ref, tol, sig)
  _cmp(out, "lattice-vs-ref", y_lat, ref, tol, sig)
  _cmp(out, "kfl-vs-lattice", y_kfl, y_lat, tol, sig)


# ---------------------------------------------------------------------------
# pair pwl: pwl_calibration_fn vs PWLCalibration
PWL_FN_DEFAULTS = dict(
    keypoint_input_min=0.0, keypoint_input_max=1.0, keypoint_output_min=0.0,
    keypoint_output_max=1.0, units=1, monotonicity="none", clamp_min=False,
    clamp_max=False, is_cyclic=False, missing_input_value=None,
    missing_output_value=None)


@st.composite
def _pwl_case(draw, tier):
  big = tier == "thorough"
  pick = draw(_picker())
  units = draw(st.sampled_from([1, 1, 2, 3]))
  k = draw(st.integers(2, 12 if big else 8))
  if pick("pwl-two-keypoints", [False] * 5 + [True]):
    k = 2
  mono = draw(st.sampled_from(["none", "increasing"]))
  cmin = cmax = cyc = False
  if mono == "increasing":
    cmin, cmax = draw(st.booleans()), draw(st.booleans())
  else:
    # a cyclic PWLCalibration layer needs at least 3 keypoints (2 weights)
    cyc = k >= 3 and draw(st.booleans())
  missing = draw(st.sampled_from(["no", "no", "derived", "fixed"]))
  if k - cmin - cmax - cyc + (missing == "derived") <= 0:
    cmax = False
  p = k - cmin - cmax - cyc + (missing == "derived")
  batch = draw(st.integers(1, 6 if big else 4))
  pin_none = k == 2 and pick("pwl-pin-none", [True, True, False])
  # keypoint_input_parameters=None carries no per-example dimension
  in_batch = draw(st.sampled_from([False, False, True])) and not pin_none
  out_batch = draw(st.sampled_from([False, False, True]))
  in_form = draw(st.sampled_from(["2d", "u1", "uU"]))
  out_form = draw(st.sampled_from(["2d", "uU"])) if units == 1 else "uU"
  in_min = S.f32(draw(st.sampled_from([-100.0, -1.0, 0.0, 0.0, 0.5, 3.0])))
  in_max = S.f32(in_min + draw(st.sampled_from([0.25, 1.0, 1.0, 2.0, 10.0,
                                                1000.0])))
  narrow = pick("pwl-narrow-range", [None] * 5 + [1e-3, 1e-2])
  if narrow is not None:
    # tiny input range; next to 0 so that float32 still resolves the keypoints
    in_min = S.f32(draw(st.sampled_from([0.0, 0.0, -1.0, 0.5, 3.0])))
    in_max = S.f32(in_min + narrow)
  omin = S.f32(draw(st.sampled_from([-10.0, -1.0, 0.0, 0.0, 0.5, 100.0])))
  omax = S.f32(omin + draw(st.sampled_from([0.0, 0.5, 1.0, 1.0, 3.0, 1000.0])))
  # omit every keyword argument that equals its documented default
  omit = pick("pwl-omit-defaults", [False, False, True])
  if omit and pick("pwl-default-in-range", [True, False]):
    in_min, in_max, narrow = 0.0, 1.0, None
  if omit and pick("pwl-default-out-range", [True, False]):
    omin, omax = 0.0, 1.0
  # large free parameters (saturated sigmoids / softmax) in a share of cases
  big_par = pick("pwl-large-params", [False, False, False, True])
  n_in = (batch if in_batch else 1) * (units if in_form == "uU" else 1) * (k - 2)
  n_out = (batch if out_batch else 1) * units * p
  case = {"pair": "pwl", "units": units, "k": k, "mono": mono, "cmin": cmin,
          "cmax": cmax, "cyclic": cyc, "missing": missing, "batch": batch,
          "in_batch": in_batch, "out_batch": out_batch, "in_form": in_form,
          "out_form": out_form, "in_min": in_min, "in_max": in_max,
          "omin": omin, "omax": omax,
          "pin": _desc(draw, n_in, ["normal", "normal", "uniform", "zeros",
                                    "ints", "ties"],
                       [8.0, 30.0] if big_par else [0.1, 1.0, 1.0, 2.0, 4.0],
                       30.0 if big_par else 4.0),
          "pout": _desc(draw, n_out, ["normal", "normal", "uniform", "zeros",
                                      "ints", "sorted"],
                        [30.0, 100.0] if big_par else
                        [0.1, 1.0, 1.0, 3.0, 10.0],
                        100.0 if big_par else 10.0),
          "large_params": big_par, "narrow": narrow is not None,
          "omit_defaults": omit,
          "pin_none": pin_none,
          "x_cols": draw(st.sampled_from([1, units])),
          "x_mode": draw(st.sampled_from(["inside", "inside", "keypoints",
                                          "outside", "mixed", "mixed"])),
          "layer_mode": draw(st.sampled_from(["fixed", "fixed", "learned"])),
          "miss_in": None, "miss_out": None, "aux": draw(S.seeds)}
  if missing != "no":
    case["miss_in"] = S.f32(draw(st.sampled_from(
        [-1.0, in_min - 5.0, in_min + 0.5 * (in_max - in_min)])))
  if missing == "fixed":
    case["miss_out"] = S.f32(draw(st.sampled_from([omin - 1.0, 0.0,
                                                   omax + 2.5])))
  return case


def _pwl_reference(case, pin, pout):
  """float64 derivation of keypoints / outputs from the free parameters.

  pin (Bi, Ui, k-2), pout (Bo, U, p).  Returns dict with kp (Bi, U, k) keypoint
  x's, deltas (Bi, U, k-1), kernel (Bo, U, k) = [first y, y increments],
  miss (Bo, U) or None.
  """
  u, k = case["units"], case["k"]
  lo, hi = float(case["in_min"]), float(case["in_max"])
  omin, omax = float(case["omin"]), float(case["omax"])
  pin = np.broadcast_to(pin.astype(np.float64), (pin.shape[0], u, k - 2))
  logits = np.concatenate([np.zeros(pin.shape[:2] + (1,)), pin], axis=-1)
  deltas = _softmax(logits) * (hi - lo)
  kp = lo + np.concatenate([np.zeros(pin.shape[:2] + (1,)),
                            np.cumsum(deltas, axis=-1)], axis=-1)
  kp[..., -1] = hi
  po = pout.astype(np.float64)
  miss = None
  if case["missing"] == "derived":
    miss = omin + _sigmoid(po[..., -1]) * (omax - omin)
    po = po[..., :-1]
  elif case["missing"] == "fixed":
    miss = np.full(po.shape[:2], float(case["miss_out"]))
  if case["mono"] == "none":
    y = _sigmoid(po) * (omax - omin) + omin
    if case["cyclic"]:
      y = np.concatenate([y, y[..., :1]], axis=-1)
  else:
    inc = _softmax(np.concatenate([np.zeros(po.shape[:2] + (1,)), po],
                                  axis=-1)) * (omax - omin)
    # increments between consecutive keypoint outputs; the first keypoint
    # output is omin when clamped, else omin + first increment; the last
    # increment is only used when the right end is clamped to omax.
    if case["cmin"]:
      y = omin + np.concatenate([np.zeros(po.shape[:2] + (1,)),
                                 np.cumsum(inc, axis=-1)], axis=-1)
    else:
      y = omin + np.cumsum(inc, axis=-1)
    if not case["cmax"]:
      y = y[..., :-1]
  assert y.shape[-1] == k, (y.shape, k)
  kernel = np.concatenate([y[..., :1], np.diff(y, axis=-1)], axis=-1)
  return {"kp": kp, "deltas": deltas, "y": y, "kernel": kernel, "miss": miss}


def _pwl_eval_ref(x, kp, y, miss, miss_in):
  """x (B, U); kp (Bi, U, k); y (Bo, U, k) -> (B, U) float64."""
  b, u = x.shape
  res = np.zeros((b, u))
  for i in range(b):
    for j in range(u):
      kk = kp[i if kp.shape[0] > 1 else 0, j]
      yy = y[i if y.shape[0] > 1 else 0, j]
      res[i, j] = R.pwl_eval(x[i, j], kk, yy)
      if miss_in is not None and x[i, j] == np.float32(miss_in):
        res[i, j] = miss[i if miss.shape[0] > 1 else 0, j]
  return res


def _pwl_cond_tol(x, kp, kernel):
  """Conditioning term of the tolerance: float32 rounding of x / keypoints
  moves the interpolation weight of a short segment by up to a/len."""
  b, u = x.shape
  x = x.astype(np.float64)
  res = np.zeros((b, u))
  for i in range(b):
    kk = kp[i if kp.shape[0] > 1 else 0]            # (U, k)
    dy = np.abs(kernel[i if kernel.shape[0] > 1 else 0][:, 1:])   # (U, k-1)
    left, right = kk[:, :-1], kk[:, 1:]
    ln = right - left
    xx = x[i][:, None]
    # keypoints are a float32 running sum of k gaps: their positions carry an
    # error of up to ~(k + 2) ulp32 of the largest keypoint magnitude.
    nkp = kk.shape[1]
    a = (nkp + 2) * EPS32 * (np.abs(xx) + np.max(np.abs(kk), axis=1,
                                                 keepdims=True))
    near = (xx - left >= -a) & (xx - right <= a)
    with np.errstate(divide="ignore", invalid="ignore"):
      t = np.abs(xx - left) / ln
      e = np.minimum(1.0, 2 * (a / ln) * (1 + np.minimum(t, 2.0)))
    e = np.where(near, np.where(np.isfinite(e), e, 1.0), 0.0)
    res[i] = np.sum(dy * e, axis=-1)
  return res


def _run_pwl(case, out):
  import tensorflow as tf
  import tensorflow_lattice as tfl
  fn = _entry_point(tfl.conditional_pwl_calibration.pwl_calibration_fn, "pwl")
  u, k, b = case["units"], case["k"], case["batch"]
  rs = np.random.RandomState(case["aux"])
  p = k - case["cmin"] - case["cmax"] - case["cyclic"] + (
      case["missing"] == "derived")
  bi = b if case["in_batch"] else 1
  bo = b if case["out_batch"] else 1
  ui = u if case["in_form"] == "uU" else 1
  pin = _vec(case["pin"], bi * ui * (k - 2)).reshape(bi, ui, k - 2)
  pout = _vec(case["pout"], bo * u * p).reshape(bo, u, p)
  ref = _pwl_reference(case, pin, pout)
  lo, hi = float(case["in_min"]), float(case["in_max"])
  omin, omax = float(case["omin"]), float(case["omax"])
  # inputs
  xc = case["x_cols"]
  kp_b = np.broadcast_to(ref["kp"], (b if bi > 1 else 1, u, k))
  inside = lo + rs.uniform(0, 1, size=(b, xc)) * (hi - lo)
  at_kp = np.zeros((b, xc))
  for i in range(b):
    for j in range(xc):
      at_kp[i, j] = kp_b[i if bi > 1 else 0, j if xc > 1 else rs.randint(u),
                         rs.randint(k)]
  outside = np.where(rs.rand(b, xc) < 0.5,
                     lo - rs.uniform(0.01, 2, size=(b, xc)) * (hi - lo),
                     hi + rs.uniform(0.01, 2, size=(b, xc)) * (hi - lo))
  mode = case["x_mode"]
  if mode == "inside":
    x = inside
  elif mode == "keypoints":
    x = at_kp
  elif mode == "outside":
    x = np.where(rs.rand(b, xc) < 0.6, outside, inside)
  else:
    pick = rs.randint(0, 3, size=(b, xc))
    x = np.where(pick == 0, inside, np.where(pick == 1, at_kp, outside))
  miss_in = case["miss_in"]
  if miss_in is not None:
    x = np.where(rs.rand(b, xc) < 0.35, miss_in, x)
  x = x.astype(np.float32)
  xu = np.broadcast_to(x, (b, u))

  pin_t = tf.constant(pin[:, 0, :] if case["in_form"] == "2d" else pin)
  if case.get("pin_none"):
    pin_t = None         # documented form when only the two end keypoints exist
  pout_t = tf.constant(pout[:, 0, :] if case["out_form"] == "2d" else pout)
  kwargs = dict(
      keypoint_input_min=lo, keypoint_input_max=hi, keypoint_output_min=omin,
      keypoint_output_max=omax, units=u, monotonicity=case["mono"],
      clamp_min=case["cmin"], clamp_max=case["cmax"],
      is_cyclic=case["cyclic"], missing_input_value=miss_in,
      missing_output_value=case["miss_out"])
  if case.get("omit_defaults"):
    omitted = [key for key, v in kwargs.items()
               if v == PWL_FN_DEFAULTS[key] and
               type(v) is type(PWL_FN_DEFAULTS[key])]
    for key in omitted:
      del kwargs[key]
    out.label("pwl:defaults-omitted")
    if "keypoint_input_max" in omitted and "keypoint_input_min" in omitted:
      out.label("pwl:default-input-range-omitted")
    if "keypoint_output_max" in omitted and "keypoint_output_min" in omitted:
      out.label("pwl:default-output-range-omitted")
  y_fn, d_fn, k_fn = fn(tf.constant(x), pin_t, pout_t,
                        return_derived_parameters=True, **kwargs)
  y_plain = _f64(fn(tf.constant(x), pin_t, pout_t, **kwargs))
  y_fn, d_fn, k_fn = _f64(y_fn), _f64(d_fn), _f64(k_fn)

  out.label("pwl:" + case["mono"] + ("+cyclic" if case["cyclic"] else "") + (
      "+clamp" if case["cmin"] or case["cmax"] else ""),
            "pwl:units>1" if u > 1 else "pwl:units=1",
            "pwl:missing-" + case["missing"], "pwl:x-" + mode,
            "pwl:layer-" + case["layer_mode"],
            "pwl:per-example-params" if bi > 1 or bo > 1 else
            "pwl:shared-params", "pwl:in-" + case["in_form"],
            "pwl:k=2" if k == 2 else "pwl:k>2")
  if case.get("pin_none"):
    out.label("pwl:input-parameters=None")
  if case.get("large_params"):
    out.label("pwl:large-parameters")
  if case.get("narrow"):
    out.label("pwl:narrow-input-range")
  if xc == 1 and u > 1:
    out.label("pwl:broadcast-input")
  sig = dict(pair="pwl", mono=case["mono"], cyclic=case["cyclic"],
             missing=case["missing"], units_gt1=u > 1)

  d32 = (_softmax(np.concatenate([np.zeros((bi, ui, 1)), pin.astype(
      np.float64)], -1)) * (hi - lo)).astype(np.float32)
  if np.any(d32 <= 0) or np.any(d_fn <= 0):
    out.discard = "pwl-zero-length-segment-in-float32"
    return

  sy = scale_of(omin, omax)
  y_ref = _pwl_eval_ref(xu, ref["kp"], ref["y"], ref["miss"], miss_in)
  tol = TOL_F * sy + _pwl_cond_tol(xu, ref["kp"], ref["kernel"])
  out.nontrivial = bool(np.max(np.ptp(ref["y"], axis=-1)) > 10 * TOL_F * sy)
  ok = _cmp(out, "fn-vs-ref", y_fn, y_ref, tol, sig)
  _cmp(out, "fn-derived-vs-plain", y_plain, y_fn, TOL_F * sy, sig)
  _cmp(out, "fn-derived-deltas-vs-ref", d_fn,
       np.broadcast_to(ref["deltas"], d_fn.shape) if d_fn.shape[1:] == (
           u, k - 1) else ref["deltas"], TOL_F * (hi - lo), sig)
  _cmp(out, "fn-derived-kernel-vs-ref", k_fn,
       np.broadcast_to(ref["kernel"], k_fn.shape) if k_fn.shape[1:] == (
           u, k) else ref["kernel"], TOL_F * sy, sig)
  if not ok:
    return

  # ---- the layer holding the corresponding keypoints and weights
  nb = b if (bi > 1 or bo > 1) else 1     # distinct functions along the batch
  kp = np.broadcast_to(ref["kp"], (bi, u, k))
  kern = ref["kernel"]
  miss = ref["miss"]
  nw = k - case["cyclic"]
  common = dict(monotonicity=case["mono"], output_min=omin, output_max=omax,
                clamp_min=case["cmin"], clamp_max=case["cmax"],
                is_cyclic=case["cyclic"])
  if miss_in is not None:
    common.update(impute_missing=True, missing_input_value=miss_in,
                  missing_output_value=case["miss_out"])

  def load(layer, xin, kernel_cols, miss_cols):
    layer(tf.constant(xin))   # builds
    layer.kernel.assign(kernel_cols.astype(np.float32))
    if case["missing"] == "derived":
      layer.missing_output.assign(miss_cols.astype(np.float32)[None, :])
    return layer

  y_layer = np.full((b, u), np.nan)
  if case["layer_mode"] == "learned":
    for e in range(nb):
      rows = slice(None) if nb == 1 else slice(e, e + 1)
      ei, eo = (e if bi > 1 else 0), (e if bo > 1 else 0)
      layer = tfl.layers.PWLCalibration(
          input_keypoints=np.linspace(lo, hi, k), units=u,
          input_keypoints_type="learned_interior", **common)
      load(layer, x[rows], kern[eo][:, :nw].T,
           miss[eo] if miss is not None else None)
      logits = np.concatenate([np.zeros((ui, 1), np.float32), pin[ei]], -1)
      layer.interpolation_logits.assign(np.broadcast_to(logits, (u, k - 1)))
      y_layer[rows] = _f64(layer(tf.constant(x[rows])))
  else:
    kp32 = kp.astype(np.float32)
    kp32[..., 0], kp32[..., -1] = np.float32(lo), np.float32(hi)
    if np.any(np.diff(kp32, axis=-1) <= 0):
      out.label("pwl:float32-keypoints-collapse(no-fixed-layer)")
      return
    shared = bool(nb == 1 and np.all(kp32 == kp32[:, :1, :]))
    if shared:
      out.label("pwl:fixed-multi-unit-layer" if u > 1 else
                "pwl:fixed-single-layer")
      layer = tfl.layers.PWLCalibration(input_keypoints=kp32[0, 0], units=u,
                                        **common)
      load(layer, x, kern[0][:, :nw].T, miss[0] if miss is not None else None)
      y_layer[:] = _f64(layer(tf.constant(x)))
    else:
      out.label("pwl:fixed-layer-per-unit")
      for e in range(nb):
        rows = slice(None) if nb == 1 else slice(e, e + 1)
        ei, eo = (e if bi > 1 else 0), (e if bo > 1 else 0)
        for j in range(u):
          layer = tfl.layers.PWLCalibration(input_keypoints=kp32[ei, j],
                                            units=1, **common)
          xj = x[rows][:, (j if xc > 1 else 0):(j if xc > 1 else 0) + 1]
          load(layer, xj, kern[eo][j:j + 1, :nw].T,
               miss[eo][j:j + 1] if miss is not None else None)
          y_layer[rows, j] = _f64(layer(tf.constant(xj)))[:, 0]
  _cmp(out, "layer-vs-ref", y_layer, y_ref, tol, sig)
  _cmp(out, "fn-vs-layer", y_fn, y_layer, tol, sig)


# ---------------------------------------------------------------------------
# pair cdf: cdf_fn vs CDF layer
@st.composite
def _cdf_case(draw, tier):
  big = tier == "thorough"
  sf = draw(st.sampled_from([1, 1, 2, 3]))
  m = draw(st.integers(1, 3))
  nd = draw(st.integers(1, 4 if big else 3))
  units, dim = sf * m, sf * nd
  k = draw(st.integers(1, 10 if big else 6))
  batch = draw(st.integers(1, 6 if big else 4))
  loc_batch = draw(st.sampled_from([False, False, True]))
  scaling = draw(st.sampled_from(["none", "scalar", "scalar", "per_input"]))
  case = {"pair": "cdf", "sf": sf, "units": units, "dim": dim, "k": k,
          "batch": batch, "loc_batch": loc_batch,
          "activation": draw(st.sampled_from(["sigmoid", "relu6"])),
          "reduction": draw(st.sampled_from(["mean", "none"])),
          "scaling": scaling,
          "exp_mult": None if scaling == "none" else draw(st.sampled_from(
              [None, None, 0.5, -1.0, 2.0])),
          "scalar_type": draw(st.sampled_from(["fixed", "learned_shared"])),
          "scale_mono": draw(st.sampled_from(["increasing", "none"])),
          "loc": _desc(draw, (batch if loc_batch else 1) * dim * k * m,
                       ["normal", "normal", "uniform", "ints", "sorted",
                        "ties"], [0.1, 1.0, 1.0, 3.0, 10.0], 10.0),
          "scale": _desc(draw, dim if scaling == "per_input" else 1,
                         ["normal", "uniform", "ints"], [0.3, 1.0, 1.0, 5.0],
                         5.0),
          "x": draw(S.array_desc(kinds=["normal", "normal", "uniform", "ints",
                                        "ties"],
                                 scales=[0.1, 1.0, 1.0, 3.0, 10.0])),
          "aux": draw(S.seeds)}
  return case


def _run_cdf(case, out):
  import tensorflow as tf
  import tensorflow_lattice as tfl
  fn = _entry_point(tfl.conditional_cdf.cdf_fn, "cdf")
  sf, units, dim, k, b = (case["sf"], case["units"], case["dim"], case["k"],
                          case["batch"])
  m = units // sf
  bl = b if case["loc_batch"] else 1
  loc = _vec(case["loc"], bl * dim * k * m).reshape(bl, dim, k, m)
  x = S.materialize(case["x"], (b * dim, 1)).reshape(b, dim)
  sp = None
  if case["scaling"] == "scalar":
    sp = _vec(case["scale"], 1).reshape(1, 1, 1, 1)
  elif case["scaling"] == "per_input":
    sp = _vec(case["scale"], dim).reshape(1, dim, 1, 1)
  mult = case["exp_mult"]
  # float64 reference
  if sp is None:
    sc = np.ones((1, 1, 1, 1))
  elif mult is not None:
    sc = np.exp(sp.astype(np.float64) * float(mult))
  else:
    sc = sp.astype(np.float64)
  arg = sc * (x.astype(np.float64)[:, :, None, None] - loc.astype(np.float64))
  if case["activation"] == "sigmoid":
    steps = _sigmoid(arg)
  else:
    steps = np.minimum(np.maximum(arg, 0.0), 6.0) / 6.0
  per_dim = steps.mean(axis=2)                  # (b, dim, m)
  # unit q reads kernel column q % m on the input dims i with i % sf == q // m
  none_ref = np.zeros((b, dim // sf, units))
  for q in range(units):
    dims_q = [i for i in range(dim) if i % sf == q // m]
    none_ref[:, :, q] = per_dim[:, dims_q, q % m]
  ref = none_ref.mean(axis=1) if case["reduction"] == "mean" else none_ref

  kwargs = dict(units=units, activation=case["activation"],
                reduction=case["reduction"], sparsity_factor=sf)
  if sp is not None:
    kwargs["scaling_parameters"] = tf.constant(sp)
    if mult is not None:
      kwargs["scaling_exp_transform_multiplier"] = float(mult)
  y_fn, loc_fn, sc_fn = fn(tf.constant(x), tf.constant(loc),
                           return_derived_parameters=True, **kwargs)
  y_plain = _f64(fn(tf.constant(x), tf.constant(loc), **kwargs))
  y_fn = _f64(y_fn)

  sc32 = sc.astype(np.float32)
  free = bool(np.any(sc32 < 0)) or case["scale_mono"] == "none"
  lk = dict(num_keypoints=k, units=units, activation=case["activation"],
            reduction=case["reduction"], sparsity_factor=sf,
            input_scaling_monotonicity="none" if free else "increasing")
  if case["scaling"] == "per_input":
    lk.update(input_scaling_type="learned_per_input")
  elif case["scaling"] == "scalar" and case["scalar_type"] == "learned_shared":
    lk.update(input_scaling_type="learned_shared")
  else:
    lk.update(input_scaling_type="fixed",
              input_scaling_init=float(sc32.reshape(-1)[0]))
  layer = tfl.layers.CDF(**lk)
  layer(tf.constant(x))
  if lk["input_scaling_type"] == "learned_shared":
    layer.input_scaling.assign(sc32.reshape(1))
  elif lk["input_scaling_type"] == "learned_per_input":
    layer.input_scaling.assign(np.broadcast_to(sc32, (1, dim, 1, 1)))
  y_layer = np.zeros(ref.shape)
  if bl == 1:
    layer.kernel.assign(loc)
    y_layer = _f64(layer(tf.constant(x)))
  else:
    for e in range(b):
      layer.kernel.assign(loc[e:e + 1])
      y_layer[e:e + 1] = _f64(layer(tf.constant(x[e:e + 1])))

  out.label("cdf:" + case["activation"], "cdf:" + case["reduction"],
            "cdf:sparsity=%d" % sf, "cdf:scaling-" + case["scaling"] + (
                "+exp" if mult is not None else ""),
            "cdf:layer-scaling-" + lk["input_scaling_type"],
            "cdf:per-example-locations" if bl > 1 else "cdf:shared-locations",
            "cdf:units>1" if units > 1 else "cdf:units=1")
  sig = dict(pair="cdf", activation=case["activation"],
             reduction=case["reduction"], sparse=sf > 1,
             scaling=case["scaling"], exp=mult is not None)
  tol = TOL_F
  out.nontrivial = bool(np.ptp(steps) > 10 * tol)
  _cmp(out, "fn-vs-ref", y_fn, ref, tol, sig)
  _cmp(out, "fn-derived-vs-plain", y_plain, y_fn, tol, sig)
  _cmp(out, "fn-derived-locations", _f64(loc_fn), loc.astype(np.float64), 0.0,
       sig)
  sc_b = _f64(sc_fn)
  _cmp(out, "fn-derived-scaling", sc_b, np.broadcast_to(sc, sc_b.shape),
       TOL_F * np.abs(np.broadcast_to(sc, sc_b.shape)), sig)
  _cmp(out, "layer-vs-ref", y_layer, ref, tol, sig)
  _cmp(out, "fn-vs-layer", y_fn, y_layer, tol, sig)


# ---------------------------------------------------------------------------
# pair pc: ParallelCombination vs column-wise calibrators
@st.composite
def _pc_case(draw, tier):
  big = tier == "thorough"
  pick = draw(_picker())
  n = draw(st.integers(1, 10 if big else 6))
  cals = []
  for i in range(n):
    typ = pick("pc-type-%d" % i, ["pwl", "pwl", "pwl", "cat", "lin", "lat"])
    if typ == "pwl":
      kk = draw(st.integers(2, 8 if big else 6))
      start = draw(st.sampled_from([-10.0, -1.0, 0.0, 0.5, 3.0]))
      gaps = [draw(st.sampled_from([0.25, 0.5, 1.0, 2.0])) for _ in
              range(kk - 1)]
      kp = S.f32(list(start + np.concatenate([[0.0], np.cumsum(gaps)])))
      # non-default layer options: missing-value imputation, learned interior
      # keypoints, constraint options (they do not change the function of the
      # assigned kernel)
      variant = pick("pc-pwl-variant-%d" % i,
                     ["plain", "plain", "missing", "learned", "options"])
      cals.append({"type": "pwl", "kp": kp, "variant": variant,
                   "cyclic": kk >= 3 and variant != "options" and draw(
                       st.sampled_from([False, False, True])),
                   "kernel": draw(S.array_desc(
                       kinds=["normal", "uniform", "ints", "sorted", "spike"],
                       scales=[1e-2, 1.0, 1.0, 10.0, 1e3]))})
    elif typ == "cat":
      nb = draw(st.integers(1, 7))
      cals.append({"type": "cat", "buckets": nb,
                   "default": draw(st.sampled_from([None, None, -1])),
                   "kernel": draw(S.array_desc(
                       kinds=["normal", "uniform", "ints"],
                       scales=[1e-2, 1.0, 1.0, 10.0, 1e3]))})
    elif typ == "lat":
      # "any other layers taking and returning tensor of shape (batch, 1)"
      cals.append({"type": "lat", "size": draw(st.integers(2, 5)),
                   "interp": draw(st.sampled_from(["hypercube", "simplex"])),
                   "kernel": draw(S.array_desc(
                       kinds=["normal", "uniform", "ints", "sorted"],
                       scales=[1e-2, 1.0, 1.0, 10.0, 1e3]))})
    else:
      cals.append({"type": "lin", "bias": draw(st.booleans()),
                   "kernel": draw(S.array_desc(
                       kinds=["normal", "ints"], scales=[1e-2, 1.0, 10.0]))})
  return {"pair": "pc", "v": 2, "cals": cals,
          "batch": draw(st.integers(1, 5)),
          "list_input": draw(st.sampled_from([False, False, True])),
          "single_output": draw(st.sampled_from([True, True, False])),
          "aux": draw(S.seeds)}


def _run_pc(case, out):
  import tensorflow as tf
  import tensorflow_lattice as tfl
  rs = np.random.RandomState(case["aux"])
  opt = _derived(case)
  b, cals = case["batch"], case["cals"]
  n = len(cals)
  x = np.zeros((b, n), np.float32)
  ref = np.zeros((b, n))
  mag = np.zeros(n)
  cond = np.zeros((b, n))
  layers = []
  for c, cal in enumerate(cals):
    if cal["type"] == "pwl":
      kp = np.asarray(cal["kp"], np.float64)
      kk = len(kp)
      nw = kk - cal["cyclic"]
      w = S.materialize(cal["kernel"], (nw, 1))
      variant = cal.get("variant", "plain")
      kw = {}
      miss_in = None
      if variant == "missing":
        miss_in = float(np.float32(kp[0] - 7.0))
        kw = dict(impute_missing=True, missing_input_value=miss_in)
      elif variant == "learned":
        kw = dict(input_keypoints_type="learned_interior")
      elif variant == "options":
        kw = dict(monotonicity="increasing", output_min=-2.0, output_max=5.0,
                  clamp_min=True, convexity="none",
                  num_projection_iterations=3, kernel_initializer="equal_slopes")
      layer = tfl.layers.PWLCalibration(input_keypoints=cal["kp"], units=1,
                                        is_cyclic=cal["cyclic"], **kw)
      layer.build((None, 1))
      layer.kernel.assign(w)
      w64 = w[:, 0].astype(np.float64)
      heights = w64[1:]
      if cal["cyclic"]:
        heights = np.concatenate([heights, [-np.sum(heights)]])
      ys = w64[0] + np.concatenate([[0.0], np.cumsum(heights)])
      if variant == "learned":
        # interior keypoints: softmax of the logits split the input range
        logits = rs.normal(size=(1, kk - 1)).astype(np.float32)
        layer.interpolation_logits.assign(logits)
        kp = kp[0] + np.concatenate([[0.0], np.cumsum(_softmax(
            logits[0].astype(np.float64)))]) * (kp[-1] - kp[0])
      pick = rs.randint(0, 3, size=b)
      col = np.where(pick == 0, rs.uniform(kp[0] - 1, kp[-1] + 1, size=b),
                     np.where(pick == 1, kp[rs.randint(0, kk, size=b)],
                              rs.uniform(kp[0], kp[-1], size=b)))
      miss_out = 0.0
      if variant == "missing":
        miss_out = float(np.float32(rs.normal() * 3))
        layer.missing_output.assign([[miss_out]])
        col = np.where(rs.rand(b) < 0.35, miss_in, col)
      x[:, c] = col.astype(np.float32)
      ref[:, c] = R.pwl_eval(x[:, c], kp, ys)
      if variant == "missing":
        ref[:, c] = np.where(x[:, c] == np.float32(miss_in), miss_out,
                             ref[:, c])
      mag[c] = np.abs(w64[0]) + np.sum(np.abs(heights)) + abs(miss_out)
      if variant == "learned":
        # float32 keypoints derived from a softmax: same conditioning
        # allowance as for the pwl pair
        kern = np.concatenate([ys[:1], np.diff(ys)])
        cond[:, c] = _pwl_cond_tol(x[:, c:c + 1], kp[None, None, :],
                                   kern[None, None, :])[:, 0]
    elif cal["type"] == "cat":
      nb = cal["buckets"]
      w = S.materialize(cal["kernel"], (nb, 1))
      kw = {}
      if cal["default"] is not None:
        kw["default_input_value"] = cal["default"]
      layer = tfl.layers.CategoricalCalibration(num_buckets=nb, units=1, **kw)
      layer.build((None, 1))
      layer.kernel.assign(w)
      idx = rs.randint(0, nb, size=b)
      col = idx.astype(np.float64)
      if cal["default"] is not None:
        # the default input value is mapped to the last bucket
        use = rs.rand(b) < 0.3
        col = np.where(use, float(cal["default"]), col)
        idx = np.where(use, nb - 1, idx)
      x[:, c] = col.astype(np.float32)
      ref[:, c] = w[idx, 0].astype(np.float64)
      mag[c] = np.max(np.abs(w))
    elif cal["type"] == "lat":
      sz = cal["size"]
      w = S.materialize(cal["kernel"], (sz, 1))
      layer = tfl.layers.Lattice(lattice_sizes=[sz], units=1,
                                 interpolation=cal["interp"])
      layer.build((None, 1))
      layer.kernel.assign(w)
      x[:, c] = _lattice_x(rs, "mixed", b, [sz], True)[:, 0]
      ref[:, c] = R.interp_hypercube(x[:, c:c + 1].astype(np.float64),
                                     w[:, 0], [sz])
      mag[c] = np.max(np.abs(w))
    else:
      w = S.materialize(cal["kernel"], (2, 1))[:, 0]
      layer = tfl.layers.Linear(num_input_dims=1, use_bias=cal["bias"])
      layer.build((None, 1))
      layer.kernel.assign(w[:1].reshape(1, 1))
      bias = 0.0
      if cal["bias"]:
        layer.bias.assign(w[1:2].reshape(layer.bias.shape))
        bias = float(w[1])
      x[:, c] = (rs.normal(size=b) * rs.choice([0.1, 1.0, 10.0])).astype(
          np.float32)
      ref[:, c] = float(w[0]) * x[:, c].astype(np.float64) + bias
      mag[c] = np.max(np.abs(float(w[0]) * x[:, c])) + abs(bias)
    layers.append(layer)
  # constructor list, or the docstring's append() loop
  construct = opt("construct", ["list", "append"], "list")
  if construct == "append":
    pc = tfl.layers.ParallelCombination(single_output=case["single_output"])
    for layer in layers:
      pc.append(layer)
  else:
    pc = tfl.layers.ParallelCombination(layers,
                                        single_output=case["single_output"])
  if case["list_input"]:
    xin = [tf.constant(x[:, c:c + 1]) for c in range(n)]
  else:
    xin = tf.constant(x)
  mode = opt("exec", EXEC_MODES + ["sequential"], "eager")
  if mode == "sequential" and (case["list_input"] or
                               not case["single_output"]):
    mode = "model"          # a Sequential model passes single tensors only
  y = _exec(pc, xin, mode)
  if mode == "model" and n == 1 and not case["single_output"] and not (
      isinstance(y, (list, tuple))):
    y = [y]    # a Keras functional model unwraps a one-element output list
  out.checks += 1
  sig = dict(pair="pc", list_input=case["list_input"],
             single_output=case["single_output"])
  if case["single_output"]:
    y_pc = _f64(y)
  else:
    if not isinstance(y, (list, tuple)) or len(y) != n or any(
        tuple(t.shape) != (b, 1) for t in y):
      out.violate("single_output=False did not return %d tensors of shape "
                  "(batch, 1)" % n, clause="pc-output-structure", kind="shape",
                  **sig)
      return
    y_pc = np.concatenate([_f64(t) for t in y], axis=1)
  y_cols = np.concatenate(
      [_f64(layer(tf.constant(x[:, c:c + 1]))) for c, layer in
       enumerate(layers)], axis=1)
  types = sorted(set(c["type"] for c in cals))
  out.label("pc:k=1" if n == 1 else "pc:k>1", "pc:types-" + "+".join(types),
            "pc:list-input" if case["list_input"] else "pc:tensor-input",
            "pc:single-output" if case["single_output"] else "pc:list-output",
            "pc:constructor-" + construct, "pc:exec-" + mode)
  for cal in cals:
    if cal["type"] == "pwl" and cal.get("variant", "plain") != "plain":
      out.label("pc:pwl-" + cal["variant"])
    if cal["type"] == "lat":
      out.label("pc:lattice-1d")
  out.info["derived_options"] = dict(construct=construct, exec=mode)
  tol = TOL_F * mag[None, :] + 1e-30 + cond
  out.nontrivial = bool(n > 1 and np.any(np.abs(ref) > tol))
  _cmp(out, "pc-vs-ref", y_pc, ref, tol, sig)
  _cmp(out, "columns-vs-ref", y_cols, ref, tol, sig)
  _cmp(out, "pc-vs-columns", y_pc, y_cols, tol, sig)


# ---------------------------------------------------------------------------
# pair agg: Aggregation vs per-example mean over the ragged elements
@st.composite
def _agg_case(draw, tier):
  big = tier == "thorough"
  kind = draw(st.sampled_from(["lattice", "lattice", "linear"]))
  if kind == "lattice":
    sizes = draw(S.lattice_sizes(max_rank=4 if big else 3, max_size=4,
                                 max_weights=256 if big else 64))
  else:
    sizes = [2] * draw(st.integers(1, 5 if big else 4))
  d = len(sizes)
  batch = draw(st.integers(1, 8 if big else 5))
  lengths = [draw(st.integers(1, 12 if big else 6)) for _ in range(batch)]
  n = int(np.prod(sizes)) if kind == "lattice" else d + 1
  pick = draw(_picker())
  # calibrators in front of the wrapped model: per feature none / a
  # PWLCalibration / a CategoricalCalibration fed by an int32 ragged tensor
  front = pick("agg-front", [None, None, "calibrated"])
  if front:
    front = [pick("agg-front-%d" % j, ["pwl", "pwl", "cat", "none"])
             for j in range(d)]
  return {"pair": "agg", "v": 2, "kind": kind, "sizes": sizes,
          "lengths": lengths, "front": front,
          "dict_input": pick("agg-dict", [False, True]),
          "scalar_inputs": draw(st.booleans()),
          "kernel": draw(S.array_desc(
              kinds=["normal", "normal", "uniform", "ints", "sorted", "spike"],
              scales=[1e-2, 1.0, 1.0, 10.0, 1e3], shape=(n, 1), max_abs=1e3)),
          "x_mode": draw(st.sampled_from(X_MODES)), "aux": draw(S.seeds)}


def _run_agg(case, out):
  import tensorflow as tf
  import tensorflow_lattice as tfl
  import tf_keras as keras
  keras.backend.clear_session()   # functional models accumulate global state
  rs = np.random.RandomState(case["aux"])
  sizes, lengths, kind = case["sizes"], case["lengths"], case["kind"]
  d, b, total = len(sizes), len(lengths), int(sum(lengths))
  opt = _derived(case)
  # feature names whose sorted order differs from the order of the inputs
  # (Keras orders dict inputs by key)
  naming = opt("naming", ["f0..", "f0..", "unsorted", "reversed"], "f0..")
  names = ["f%d" % i for i in range(d)]
  if naming == "unsorted":
    names = ["b", "a", "f10", "f2", "c"][:d]
  elif naming == "reversed":
    names = names[::-1]
  front = case.get("front") or ["none"] * d
  scalar = case["scalar_inputs"] and not case.get("front")
  ishape = () if scalar else (1,)
  ins = [keras.Input(shape=ishape, name=nm,
                     dtype="int32" if front[j] == "cat" else "float32")
         for j, nm in enumerate(names)]
  if kind == "lattice":
    n = int(np.prod(sizes))
    core = tfl.layers.Lattice(lattice_sizes=sizes, units=1)
    w = S.materialize(case["kernel"], (n, 1))
    xs = _lattice_x(rs, case["x_mode"], total, sizes, True)
    c_lo, c_hi = np.zeros(d), np.asarray(sizes, np.float64) - 1.0
  else:
    core = tfl.layers.Linear(num_input_dims=d, use_bias=True)
    w = S.materialize(case["kernel"], (d + 1, 1))
    xs = (rs.normal(size=(total, d)) * rs.choice([0.1, 1.0, 10.0])).astype(
        np.float32)
    c_lo, c_hi = -np.ones(d), np.ones(d)
  # calibrators: map the raw element values to the wrapped layer's inputs
  cols, cal = list(ins), xs.astype(np.float64)       # cal: float64 reference
  int_cols = set()
  for j in range(d):
    if front[j] == "pwl":
      kp = np.linspace(float(np.min(xs[:, j])) - 0.5,
                       float(np.max(xs[:, j])) + 0.5, 4).astype(np.float32)
      ys = np.sort(rs.uniform(c_lo[j], c_hi[j], size=4)) if rs.rand() < 0.5 \
          else rs.uniform(c_lo[j], c_hi[j], size=4)
      kern = np.concatenate([ys[:1], np.diff(ys)]).astype(np.float32)
      layer = tfl.layers.PWLCalibration(input_keypoints=kp, units=1,
                                        output_min=float(c_lo[j]),
                                        output_max=float(c_hi[j]))
      cols[j] = layer(ins[j])
      layer.kernel.assign(kern[:, None])
      y32 = np.cumsum(kern.astype(np.float64))
      cal[:, j] = R.pwl_eval(xs[:, j].astype(np.float64),
                             kp.astype(np.float64), y32)
    elif front[j] == "cat":
      nb = int(rs.randint(2, 6))
      kern = rs.uniform(c_lo[j], c_hi[j], size=(nb, 1)).astype(np.float32)
      layer = tfl.layers.CategoricalCalibration(
          num_buckets=nb, units=1, output_min=float(c_lo[j]),
          output_max=float(c_hi[j]))
      cols[j] = layer(ins[j])
      layer.kernel.assign(kern)
      idx = rs.randint(0, nb, size=total)
      xs[:, j] = idx                       # carried as int32 below
      cal[:, j] = kern[idx, 0].astype(np.float64)
      int_cols.add(j)
  if scalar:
    cat = keras.layers.Lambda(lambda z: tf.stack(z, axis=-1))(cols)
  elif d > 1:
    cat = keras.layers.Concatenate(axis=-1)(cols)
  else:
    cat = cols[0]
  o = core(cat)
  model = keras.Model(inputs=dict(zip(names, ins)) if case["dict_input"]
                      else ins, outputs=o)
  if kind == "lattice":
    core.kernel.assign(w)
    f_ref = R.interp_hypercube(cal, w[:, 0], sizes)
    mag = float(np.max(np.abs(w)))
  else:
    core.kernel.assign(w[:d])
    core.bias.assign(w[d:].reshape(core.bias.shape))
    terms = cal * w[:d, 0].astype(np.float64)[None, :]
    f_ref = terms.sum(-1) + float(w[d, 0])
    mag = float(np.max(np.abs(terms).sum(-1)) + abs(float(w[d, 0])))

  def column(rows, j):
    return rows[:, j].astype(np.int32) if j in int_cols else rows[:, j]
  splits = np.concatenate([[0], np.cumsum(lengths)]).astype(np.int64)
  ragged = [tf.RaggedTensor.from_row_splits(tf.constant(column(xs, j)), splits)
            for j in range(d)]
  agg = tfl.layers.Aggregation(model)
  xin = dict(zip(names, ragged)) if case["dict_input"] else ragged
  y = _f64(agg(xin))
  # wrapped model called directly on each example's elements, then averaged
  y_direct = np.zeros((b, 1))
  ref = np.zeros((b, 1))
  for e in range(b):
    rows = xs[splits[e]:splits[e + 1]]
    ecols = [tf.constant(column(rows, j) if scalar else
                         column(rows, j)[:, None]) for j in range(d)]
    fe = _f64(model(dict(zip(names, ecols)) if case["dict_input"] else ecols))
    y_direct[e, 0] = fe.astype(np.float64).mean()
    ref[e, 0] = f_ref[splits[e]:splits[e + 1]].mean()
  out.label("agg:" + kind, "agg:dims=%d" % d,
            "agg:dict-input" if case["dict_input"] else "agg:list-input",
            "agg:ragged-different-lengths" if len(set(lengths)) > 1 else
            "agg:equal-lengths",
            "agg:batch=1" if b == 1 else "agg:batch>1",
            "agg:scalar-model-inputs" if scalar else
            "agg:column-model-inputs", "agg:names-" + naming)
  if case.get("front"):
    out.label("agg:calibrated-inputs")
    if int_cols:
      out.label("agg:int32-categorical-ragged-input")
    if "pwl" in front:
      out.label("agg:pwl-calibrated-input")
  if case["dict_input"] and naming != "f0.." and d > 1:
    out.label("agg:dict-input,sorted-order-differs")
  out.info["derived_options"] = dict(naming=naming)
  sig = dict(pair="agg", model=kind, dict_input=case["dict_input"])
  tol = TOL_F * mag + 1e-30
  out.nontrivial = bool(max(lengths) > 1 and np.ptp(f_ref) > 10 * tol)
  _cmp(out, "aggregation-vs-ref", y, ref, tol, sig)
  _cmp(out, "direct-mean-vs-ref", y_direct, ref, tol, sig)
  _cmp(out, "aggregation-vs-direct-mean", y, y_direct, tol, sig)


# ---------------------------------------------------------------------------
# pair rtl: RTL vs gather of the recorded indices into stand-alone lattices
@st.composite
def _rtl_case(draw, tier):
  big = tier == "thorough"
  pick = draw(_picker())
  fmt = pick("rtl-format", ["tensor", "tensor", "dict", "dict", "dict",
                            "dict-rev", "dict-rev"])
  if fmt == "tensor":
    groups = {"unconstrained": draw(st.integers(1, 8 if big else 6))}
  else:
    groups = {}
    keys = draw(st.sampled_from([["increasing", "unconstrained"]] * 3 +
                                [["increasing"], ["unconstrained"]]))
    for key in keys:
      if draw(st.booleans()):
        groups[key] = draw(st.integers(1, 4))          # single tensor (b, D)
      else:
        groups[key] = [draw(st.integers(1, 3)) for _ in
                       range(draw(st.integers(1, 3)))]  # list of (b, D_i)
  n_in = sum(v if isinstance(v, int) else sum(v) for v in groups.values())
  rank = draw(st.integers(1, 4 if big else 3))
  min_lat = -(-n_in // rank)
  num = draw(st.integers(min_lat, min_lat + (6 if big else 4)))
  param = draw(st.sampled_from(["all_vertices", "all_vertices",
                                "kronecker_factored"]))
  # average_outputs is documented as ignored when separate_outputs is set
  outputs = pick("rtl-outputs", ["joint", "joint", "averaged", "averaged",
                                 "separate", "separate", "separate+averaged"])
  return {"pair": "rtl", "v": 2, "format": fmt, "groups": groups, "rank": rank,
          "num": num,
          "size": pick("rtl-size", [2, 2, 3, 3, 4] if rank <= 2 else
                       [2, 2, 3]),
          "param": param,
          "interp": draw(st.sampled_from(["hypercube", "hypercube",
                                          "simplex"])),
          "terms": draw(st.integers(1, 3)),
          "separate": outputs.startswith("separate"),
          "average": outputs.endswith("averaged"),
          "avoid": draw(st.sampled_from([True, True, False])),
          "clip": draw(st.sampled_from([True, True, False])),
          "rtl_seed": draw(st.integers(0, 1000)),
          "kernel": draw(S.array_desc(
              kinds=["normal", "normal", "uniform", "ints", "sorted"],
              scales=[1e-2, 1.0, 1.0, 10.0, 1e3])),
          "batch": draw(st.integers(1, 4)),
          "x_mode": draw(st.sampled_from(X_MODES)), "aux": draw(S.seeds)}


def _rtl_stage(case, out, rs, rtl, xin, flat, is_inc, sig, mode, stage):
  """Assigns weights to the sub-lattices of a built RTL layer and compares its
  output on `xin` (whose flattened columns are `flat`, `is_inc` marking the
  'increasing' ones) with a float64 reference and with stand-alone lattices
  fed by gathering the recorded indices.  Returns the layer output (dict or
  float64 array) or None after a structural violation."""
  import tensorflow as tf
  import tensorflow_lattice as tfl
  rank, s, b = rtl.lattice_rank, rtl.lattice_size, flat.shape[0]
  clip, param, interp = rtl.clip_inputs, rtl.parameterization, rtl.interpolation
  n_in = flat.shape[1]
  structure = [(tuple(int(m) for m in mono),
                [[int(i) for i in unit] for unit in units])
               for mono, units in rtl._rtl_structure]
  out.label("rtl:several-monotonicity-patterns" if len(structure) > 1 else
            "rtl:one-monotonicity-pattern")
  # the recorded wiring must be usable: right counts, indices in range and of
  # the recorded monotonicity.
  out.checks += 1
  n_units = sum(len(units) for _, units in structure)
  wiring_ok = n_units == rtl.num_lattices
  for mono, units in structure:
    for unit in units:
      wiring_ok &= len(unit) == rank == len(mono)
      wiring_ok &= all(0 <= i < n_in and is_inc[i] == bool(m)
                       for i, m in zip(unit, mono))
  if not wiring_ok:
    out.violate("_rtl_structure %r does not describe %d lattices of rank %d "
                "over the flattened input (increasing columns first: %r)" %
                (structure, rtl.num_lattices, rank, is_inc),
                clause="rtl-structure", kind="wiring", **sig)
    return None
  # assign weights to the sub-lattices, build stand-alone twins
  ref_cols, twin_cols, mags, mono_flags = [], [], [], []
  flat64 = flat.astype(np.float64)
  for li, (mono, units) in enumerate(structure):
    sub = rtl._lattice_layers[str(mono)]
    nu = len(units)
    seed_shift = dict(case["kernel"])
    if seed_shift["kind"] != "explicit":
      seed_shift["seed"] = (seed_shift["seed"] + 7919 * li +
                            104729 * stage) % (2**31 - 1)
    gathered = np.stack([flat[:, unit] for unit in units], axis=1)  # (b,nu,r)
    twin_in = gathered[:, 0, :] if nu == 1 else gathered
    if param == "all_vertices":
      w = S.materialize(seed_shift, (s ** rank, nu))
      sub.kernel.assign(w)
      dense = w.astype(np.float64)
      twin = tfl.layers.Lattice(lattice_sizes=[s] * rank, units=nu,
                                clip_inputs=clip, interpolation=interp)
      twin(tf.constant(twin_in))
      twin.kernel.assign(w)
      mag = np.max(np.abs(dense), axis=0)
    else:
      t = rtl.num_terms
      kern = S.materialize(seed_shift, (s * nu * rank * t, 1)).reshape(
          1, s, nu * rank, t)
      kern = np.clip(kern, -1e3, 1e3)
      scale = rs.normal(size=(nu, t)).astype(np.float32)
      bias = rs.normal(size=(nu,)).astype(np.float32)
      sub.kernel.assign(kern)
      sub.scale.assign(scale)
      sub.bias.assign(bias)
      dense = R.kfl_dense_kernel(kern, scale, bias, s, rank, nu, t)
      twin = tfl.layers.KroneckerFactoredLattice(
          lattice_sizes=s, units=nu, num_terms=t, clip_inputs=clip)
      twin(tf.constant(twin_in))
      twin.kernel.assign(kern)
      twin.scale.assign(scale)
      twin.bias.assign(bias)
      k4 = np.abs(kern.astype(np.float64)).reshape(s, nu, rank, t)
      mag = (np.abs(scale.astype(np.float64)) * np.prod(
          k4.max(axis=0), axis=1)).mean(axis=1) + np.abs(bias)
    twin_cols.append(_f64(twin(tf.constant(twin_in))).reshape(b, nu))
    f = R.interp_simplex if interp == "simplex" else R.interp_hypercube
    for j, unit in enumerate(units):
      ref_cols.append(f(flat64[:, unit], dense[:, j], [s] * rank))
      mags.append(float(mag[j]))
      mono_flags.append(max(mono))
  ref = np.stack(ref_cols, axis=1)                  # (b, num) structure order
  twin_y = np.concatenate(twin_cols, axis=1)
  mags = np.asarray(mags)
  mono_flags = np.asarray(mono_flags)
  tol = TOL_F * mags[None, :] + 1e-30
  if stage == 0:
    out.nontrivial = bool(np.ptp(ref) > 10 * float(np.max(tol)))
  y = _exec(rtl, xin, mode)
  if rtl.separate_outputs:
    out.checks += 1
    want = set()
    if np.any(mono_flags == 0):
      want.add("unconstrained")
    if np.any(mono_flags == 1):
      want.add("increasing")
    if not isinstance(y, dict) or set(y.keys()) != want:
      out.violate("separate_outputs keys %r, expected %r" % (
          sorted(y.keys()) if isinstance(y, dict) else type(y), sorted(want)),
                  clause="rtl-output-structure", kind="shape", **sig)
      return None
    for key, flag in (("unconstrained", 0), ("increasing", 1)):
      if key not in want:
        continue
      sel = mono_flags == flag
      _cmp(out, "rtl-vs-ref", _f64(y[key]), ref[:, sel], tol[:, sel], sig)
      _cmp(out, "twin-lattices-vs-ref", twin_y[:, sel], ref[:, sel],
           tol[:, sel], sig)
      _cmp(out, "rtl-vs-twin-lattices", _f64(y[key]), twin_y[:, sel],
           tol[:, sel], sig)
    return y
  y = _f64(y)
  if rtl.average_outputs:
    ref = ref.mean(axis=1, keepdims=True)
    twin_y = twin_y.mean(axis=1, keepdims=True)
    tol = tol.mean(axis=1, keepdims=True)
  _cmp(out, "rtl-vs-ref", y, ref, tol, sig)
  _cmp(out, "twin-lattices-vs-ref", twin_y, ref, tol, sig)
  _cmp(out, "rtl-vs-twin-lattices", y, twin_y, tol, sig)
  return y


def _run_rtl(case, out):
  import tensorflow as tf
  import tensorflow_lattice as tfl
  rs = np.random.RandomState(case["aux"])
  tf.random.set_seed(case["aux"])
  opt = _derived(case)
  groups, rank, s, b = case["groups"], case["rank"], case["size"], case["batch"]
  clip, param = case["clip"], case["param"]
  interp = case["interp"] if param == "all_vertices" else "hypercube"
  # flattened input: sorted keys ('increasing' first), groups in list order
  order = sorted(groups.keys())
  widths = {k: (groups[k] if isinstance(groups[k], int) else sum(groups[k]))
            for k in order}
  n_in = sum(widths.values())
  flat = _lattice_x(rs, case["x_mode"], b, [s] * n_in, clip)   # (b, n_in)
  is_inc = []
  arrays = {}
  pos = 0
  for k in order:
    blk = flat[:, pos:pos + widths[k]]
    is_inc += [k == "increasing"] * widths[k]
    if isinstance(groups[k], int):
      arrays[k] = tf.constant(blk)
    else:
      cuts = np.cumsum([0] + list(groups[k]))
      arrays[k] = [tf.constant(blk[:, cuts[i]:cuts[i + 1]])
                   for i in range(len(groups[k]))]
    pos += widths[k]
  if case["format"] == "tensor":
    xin = arrays["unconstrained"]
  else:
    keys = order if case["format"] == "dict" else order[::-1]
    xin = {k: arrays[k] for k in keys}
  kw = {}
  if param == "kronecker_factored":
    kw = dict(kernel_initializer="kfl_random_monotonic_initializer",
              num_terms=case["terms"])
  # output bounds only steer initialisation and constraints of the lattices;
  # the function of the assigned kernels is the same
  bounds = opt("bounds", [None, None, [-2.0, 3.0], [0.0, 1.0]], None)
  if bounds:
    kw.update(output_min=bounds[0], output_max=bounds[1])
  mode = opt("exec", EXEC_MODES, "eager")
  rtl = tfl.layers.RTL(
      num_lattices=case["num"], lattice_rank=rank, lattice_size=s,
      separate_outputs=case["separate"], average_outputs=case["average"],
      random_seed=case["rtl_seed"], clip_inputs=clip, interpolation=interp,
      parameterization=param, avoid_intragroup_interaction=case["avoid"], **kw)
  rtl(xin)   # builds
  sig = dict(pair="rtl", param=param, interp=interp,
             separate=case["separate"], format=case["format"])
  out.label("rtl:" + param, "rtl:" + interp, "rtl:input-" + case["format"],
            "rtl:separate" if case["separate"] else (
                "rtl:averaged" if case["average"] else "rtl:joint"),
            "rtl:rank=%d" % rank, "rtl:size=%d" % s, "rtl:exec-" + mode,
            "rtl:output-bounds" if bounds else "rtl:no-output-bounds")
  out.info["derived_options"] = dict(bounds=bounds, exec=mode)
  y = _rtl_stage(case, out, rs, rtl, xin, flat, is_inc, sig, mode, 0)
  # the docstring's chain: RTL(separate_outputs=True) feeding a second RTL.
  # The second layer is judged on the first layer's actual float32 outputs.
  if y is None or not case["separate"] or out.violations or not opt(
      "chain", [True, True, False], False):
    return
  order2 = sorted(y.keys())
  flat2 = np.concatenate([y[k].numpy() for k in order2], axis=1)
  is_inc2 = []
  for k in order2:
    is_inc2 += [k == "increasing"] * int(y[k].shape[1])
  n2 = flat2.shape[1]
  rank2 = min(2, n2)
  kw2 = {}
  if param == "kronecker_factored":
    kw2 = dict(kernel_initializer="kfl_random_monotonic_initializer",
               num_terms=case["terms"])
  rtl2 = tfl.layers.RTL(
      num_lattices=-(-n2 // rank2) + 1, lattice_rank=rank2, lattice_size=s,
      average_outputs=case["average"], random_seed=case["rtl_seed"] + 1,
      interpolation=interp, parameterization=param, **kw2)
  xin2 = {k: y[k] for k in (order2 if case["format"] != "dict-rev" else
                            order2[::-1])}
  rtl2(xin2)   # builds
  out.label("rtl:chained")
  _rtl_stage(case, out, rs, rtl2, xin2, flat2, is_inc2,
             dict(sig, chained=True), mode, 1)


# ---------------------------------------------------------------------------
_GEN = {"kfl": _kfl_case, "pwl": _pwl_case, "cdf": _cdf_case, "pc": _pc_case,
        "agg": _agg_case, "rtl": _rtl_case}
_RUN = {"kfl": _run_kfl, "pwl": _run_pwl, "cdf": _run_cdf, "pc": _run_pc,
        "agg": _run_agg, "rtl": _run_rtl}


def strategy(tier):
  return st.sampled_from(PAIRS).flatmap(lambda p: _GEN[p](tier))


def run_case(case):
  out = Outcome()
  out.label("pair:" + case["pair"])
  try:
    _RUN[case["pair"]](case, out)
  except _ExecCrash as e:
    out.nontrivial = True
    out.violate(str(e), kind="exception", exc=e.exc, where="exec-" + e.mode,
                pair=case["pair"])
  return out
