"""C03 - premade / composed models stay monotone and bounded after any history.

Stateful: a rule-based machine draws a fully specified model description
(calibrated linear / lattice / ensemble explicit, random, RTL / all-vertices or
Kronecker-factored / output calibration / bounds, or a hand-assembled
ParallelCombination -> Lattice|Linear stack) and a history of optimizer steps
(eager apply_gradients and model.compile/model.fit in graph mode),
hostile updates (an SGD step whose gradient throws every variable to a generated
far-away value, so the optimizer itself re-applies the constraints), weight
round-trips, clone-and-restore and finalize; after construction and after every
step the model is probed with input pairs that differ in one constrained
feature.

Descriptions come from vlib.models.model_desc and are post-processed here
(model_desc below) with documented variants that generator does not draw; a
Hypothesis example plays its history on two models, one per model kind of the
shard's pair (begin_shard / desc_group), so every kind gets the same share.
"""
import numpy as np
from hypothesis import strategies as st
from hypothesis.stateful import RuleBasedStateMachine, initialize, rule

from vlib import models as M
from vlib import strategies as S
from vlib.harness import Outcome, TOL_MONO_F, safe_run

ID = "C03"
TITLE = "Premade and composed models stay monotone and bounded after any training history"
RULE = ("A Hypothesis RuleBasedStateMachine draws, per example, one model "
        "description for each of the two model kinds its shard owns (8 kinds "
        "stratified over the shards: linear, lattice, ensemble explicit / "
        "random / RTL, stack_lattice, stack_linear, stack_rtl2 = multi-unit "
        "calibrators -> RTL(separate outputs) -> RTL -> Linear; 1-4 features "
        "quick / 6 thorough: numeric increasing / decreasing / none with "
        "optional default value (-1000, next to the keypoint range, inside "
        "it, or equal to a keypoint), clamps, convexity, learned keypoints; "
        "categorical with ordering pairs and default bucket (-1 or one of "
        "the buckets); lattice sizes 2-3; trust / dominance pairs incl. "
        "Edgeworth trust + dominance together and dominance inside the "
        "Linear layer of a calibrated linear model; output calibration; "
        "bounds none/both/one-sided) and ONE history that is played on both "
        "models: sgd_step (lr 1e-3..1e2, momentum 0 or 0.9, three losses with "
        "targets pushing against the constraints), adam_step, fit_step "
        "(model.compile + model.fit in graph mode on 16 rows, batch 8, with "
        "SGD / SGD momentum 0.9 / Adagrad / RMSprop / Adam), hostile_update "
        "(every trainable variable thrown to a generated value of scale "
        "1e-2..1e3 through optimizer.apply_gradients), roundtrip_weights, "
        "clone_restore and finalize. Invariant after construction and every "
        "step: 40 base rows x every constrained feature x 3 increments (in "
        "range, across keypoints, out of range) move the output in the "
        "configured direction, every categorical pair (of non-missing "
        "buckets) is ordered, all outputs computed for these comparisons and "
        "the missing-value rows are finite and inside the bounds. "
        "Non-trivial: a history with >= 1 hostile update or >= 1 SGD / fit "
        "step with lr >= 1; distinct by SHA-1 of (description, history).")
NT_FLOOR = 0.4
# Hypothesis examples PER SHARD; every example is played on two models (one per
# kind of the shard's pair, see desc_group), i.e. 20 / 200 histories per shard.
BUDGET = {"quick": 10, "thorough": 100}
STEP_COUNT = {"quick": 7, "thorough": 20}
TECHNIQUE = ("stateful property-based testing (Hypothesis RuleBasedStateMachine) "
             "over model configurations and training histories with "
             "metamorphic input pairs as the oracle")
LEVEL_TEXT = ("Model-based exploration of training histories on real premade "
              "and hand-assembled models: eager optimizer steps (SGD with and "
              "without momentum, Adam), Keras' own compiled training loop "
              "(model.fit with five optimizers) and adversarial updates "
              "applied through optimizer.apply_gradients so that Keras itself "
              "re-applies every variable constraint; after each step the "
              "model function is compared pairwise on generated inputs for "
              "every configured monotonicity / categorical ordering and "
              "against the output bounds on every probe row including "
              "far-out-of-range and missing-value inputs.")
LEVEL_NOTE = ("Monotonicity tolerance 1e-5*max|f| per pair, bounds 1e-5*max(1,"
              "|bound|). Configurations inside open findings F-C01-1 (Edgeworth "
              "and trapezoid trusts together) and F-C04-1 (monotone + convex "
              "calibrator) are not generated; conditional features of trusts "
              "are numeric; adversarial updates keep learned "
              "keypoint logits below |30|, optimizer steps that push them apart "
              "by more than 85 reach finding F-C03-4 (= F-C15-2). Non-finite weights after a step (float "
              "overflow) end the history and are counted, not judged. A pair "
              "whose bucket is the categorical default value (= missing) makes "
              "no claim. Optimizers other than the five used are assumed to "
              "apply constraints the same way.")

N_BASE = 40
FIT_ROWS, FIT_BATCH = 16, 8       # fit_step: 2 optimizer steps of 8 rows


def _probe_plan(desc, seed):
  """Base rows plus, per constrained feature, the modified copies."""
  x = M.base_points(desc, N_BASE, seed)
  rs = np.random.RandomState(seed + 1)
  # A categorical default value that is one of the buckets makes that bucket
  # "missing"; the monotonicity claims are about non-missing points, so base
  # rows use the other buckets (the missing rows of the bound check keep it).
  for j, f in enumerate(desc["features"]):
    if f["type"] == "categorical" and f["default"] is not None and (
        0 <= f["default"] < f["num_buckets"]):
      others = [b for b in range(f["num_buckets"]) if b != f["default"]]
      repl = np.asarray(others, np.float64)[rs.randint(0, len(others), N_BASE)]
      x[:, j] = np.where(x[:, j] == f["default"], repl, x[:, j])
  plans = []
  for j, f in enumerate(desc["features"]):
    if f["type"] == "numeric" and f["mono"] != 0:
      kp = np.asarray(f["keypoints"], np.float64)
      span = kp[-1] - kp[0]
      for inc in (rs.uniform(1e-3, 0.2) * span, span / (len(kp) - 1) * 1.01,
                  3.0 * span + 1.0):
        x2 = x.copy()
        x2[:, j] = (x[:, j] + inc).astype(np.float32)
        if f["default"] is not None:
          x2[:, j] = np.where(x2[:, j] == f["default"], x[:, j], x2[:, j])
        plans.append((j, f["mono"], x2, "numeric"))
    elif f["type"] == "categorical":
      for a, b in f["pairs"]:
        if f["default"] is not None and f["default"] in (a, b):
          continue       # a pair with the "missing" bucket: no claim
        xa, xb = x.copy(), x.copy()
        xa[:, j], xb[:, j] = a, b
        plans.append((j, 1, (xa, xb), "categorical"))
  # rows with missing values for the bound check
  xm = x.copy()
  for j, f in enumerate(desc["features"]):
    if f["default"] is not None:
      mask = rs.rand(N_BASE) < 0.5
      xm[:, j] = np.where(mask, f["default"], xm[:, j])
  return x, plans, xm


class LibraryFitError(Exception):
  """model.fit failed inside tensorflow_lattice code."""


class Sim(object):
  """The real model plus the bookkeeping of one history."""

  def __init__(self, desc):
    import tensorflow as tf
    import tf_keras as keras
    self.tf, self.keras = tf, keras
    self.desc = desc
    self.model, self.cfg = M.build_model(desc)
    self.x, self.plans, self.xm = _probe_plan(desc, desc["seed"])
    self.sgd = {}
    self.adam = None
    self.dead = False
    self.hostile = 0
    self.big_steps = 0
    self.optimizer_steps = 0      # weights are the initial ones while 0
    self.compiled = None          # (optimizer, lr) the model is compiled with
    self.fits = 0

  def f(self, x):
    y = self.model(M.model_inputs(self.desc, x))
    return y.numpy().astype(np.float64).reshape(len(x), -1)[:, 0]

  def finite(self):
    """Weights finite and below 1e6 (DESIGN 2.5 rule 2: beyond that products of
    several factors - Kronecker-factored lattices - overflow float32)."""
    return all(np.all(np.isfinite(v.numpy())) and
               (v.numpy().size == 0 or np.max(np.abs(v.numpy())) <= 1e6)
               for v in self.model.variables)

  # ---- operations
  def _batch(self, seed, n=16):
    xb = M.base_points(self.desc, n, seed)
    rs = np.random.RandomState(seed)
    return xb, rs

  def _loss(self, kind, xb, rs):
    tf = self.tf
    y = self.model(M.model_inputs(self.desc, xb), training=True)
    if kind == "neg_mean":
      return -tf.reduce_mean(y)
    if kind == "pos_mean":
      return tf.reduce_mean(y)
    # mse against targets that push against the constraints.
    t = self._targets(xb, rs)
    return tf.reduce_mean((y - t) ** 2)

  def train_step(self, op):
    tf = self.tf
    xb, rs = self._batch(op["seed"])
    if op["op"] == "adam_step":
      if self.adam is None:
        self.adam = self.keras.optimizers.Adam(learning_rate=op["lr"])
      opt = self.adam
    else:
      mom = op.get("momentum", 0.0)
      key = op["lr"] if not mom else (op["lr"], mom)
      opt = self.sgd.get(key)
      if opt is None:
        opt = self.sgd[key] = self.keras.optimizers.SGD(
            learning_rate=op["lr"], momentum=mom)
      if op["lr"] >= 1.0:
        self.big_steps += 1
    with tf.GradientTape() as tape:
      loss = self._loss(op["loss"], xb, rs)
      if self.model.losses:
        loss = loss + tf.add_n(self.model.losses)
    tv = self.model.trainable_variables
    grads = tape.gradient(loss, tv)
    pairs = [(g, v) for g, v in zip(grads, tv) if g is not None]
    if pairs:
      opt.apply_gradients(pairs)
      self.optimizer_steps += 1

  def _targets(self, xb, rs):
    """Regression targets that decrease in every increasing feature (and
    increase in decreasing ones): training on them pushes against the
    constraints."""
    t = np.zeros(len(xb))
    for j, f in enumerate(self.desc["features"]):
      col = xb[:, j]
      sgn = -1.0 if f["type"] == "categorical" else -float(f.get("mono", 0) or 1)
      t += sgn * (col - col.mean()) / (col.std() + 1e-6)
    return (t * rs.choice([0.1, 1.0, 10.0])).astype(np.float32).reshape(-1, 1)

  def fit_step(self, op):
    """Keras' own training loop: model.compile + model.fit (graph mode, the
    constraints run inside the compiled train function) on a tiny batch.  The
    compiled model is kept for later fit_steps of the same optimizer config."""
    keras = self.keras
    key = (op["opt"], op["lr"])
    if self.compiled != key:
      lr = op["lr"]
      opt = {"sgd": lambda: keras.optimizers.SGD(learning_rate=lr),
             "momentum": lambda: keras.optimizers.SGD(learning_rate=lr,
                                                      momentum=0.9),
             "adagrad": lambda: keras.optimizers.Adagrad(learning_rate=lr),
             "rmsprop": lambda: keras.optimizers.RMSprop(learning_rate=lr),
             "adam": lambda: keras.optimizers.Adam(learning_rate=lr)}[
                 op["opt"]]()
      self.model.compile(optimizer=opt, loss="mse")
      self.compiled = key
    xb, rs = self._batch(op["seed"], n=FIT_ROWS)
    t = self._targets(xb, rs)
    try:
      self.model.fit(M.model_inputs(self.desc, xb), t, epochs=1,
                     batch_size=FIT_BATCH, shuffle=False, verbose=0)
    except Exception as e:  # pylint: disable=broad-except
      # Errors raised while the train function is traced are re-raised by
      # TensorFlow with the library frames only quoted in the message ("in user
      # code: File .../tensorflow_lattice/..."), so the harness would not
      # attribute them to the library.
      import traceback
      text = "%s\n%s" % (e, traceback.format_exc())
      if "/tensorflow_lattice/" in text.replace("\\", "/"):
        raise LibraryFitError(type(e).__name__, str(e))
      raise
    if op["lr"] >= 1.0:
      self.big_steps += 1
    self.optimizer_steps += FIT_ROWS // FIT_BATCH
    self.fits += 1

  def hostile_update(self, op):
    """SGD(lr=1) with gradient = variable - target: the optimizer moves every
    trainable variable onto a generated target and re-applies constraints."""
    tf = self.tf
    opt = self.sgd.get("hostile")
    if opt is None:
      opt = self.sgd["hostile"] = self.keras.optimizers.SGD(learning_rate=1.0)
    rs = np.random.RandomState(op["seed"])
    pairs = []
    for v in self.model.trainable_variables:
      scale = op["scale"]
      if "interpolation_logits" in v.name:
        scale = min(scale, 10.0)      # |logit| stays < 30 (F-C15-2 region)
      # mixture: mostly targets that stay "alive" after the projection (mixed
      # or positive signs), sometimes all-negative / ternary ones that collapse
      # monotone layers onto the boundary of their feasible set.
      kind = rs.choice([0, 0, 0, 1, 2, 3, 3, 4])
      shape = tuple(v.shape)
      if kind == 0:
        target = rs.normal(size=shape) * scale
      elif kind == 1:
        target = -np.abs(rs.normal(size=shape)) * scale * np.linspace(
            1, 2, int(np.prod(shape) or 1)).reshape(shape)
      elif kind == 2:
        target = rs.choice([-1.0, 0.0, 1.0], size=shape) * scale
      elif kind == 3:
        target = np.abs(rs.normal(size=shape)) * scale
      else:
        target = v.numpy() + rs.normal(size=shape) * scale * 0.3
      if "interpolation_logits" in v.name:
        target = np.clip(target, -29.0, 29.0)
      pairs.append((v - tf.constant(target.astype(np.float32)), v))
    opt.apply_gradients(pairs)
    self.hostile += 1
    self.optimizer_steps += 1

  def roundtrip(self):
    self.model.set_weights(self.model.get_weights())

  def clone_restore(self, out):
    before = self.f(self.x)
    w = self.model.get_weights()
    model2, _ = M.build_model(self.desc)
    model2.set_weights(w)
    self.model = model2
    self.sgd, self.adam = {}, None
    self.compiled = None
    after = self.f(self.x)
    out.checks += 1
    sc = max(1.0, float(np.max(np.abs(before))))
    if np.max(np.abs(after - before)) > 1e-6 * sc:
      out.violate("rebuilt model with restored weights computes different "
                  "outputs (max diff %.3g)" % np.max(np.abs(after - before)),
                  kind="restore", model=self.desc["kind"])

  def finalize(self):
    def walk(layer):
      for l in getattr(layer, "layers", []) or []:
        walk(l)
      for l in getattr(layer, "calibration_layers", []) or []:
        walk(l)
      if hasattr(layer, "finalize_constraints") and layer is not self.model:
        layer.finalize_constraints()
    walk(self.model)


def judge(sim, out, after):
  desc = sim.desc
  sig = dict(model=desc["kind"], param=desc["parameterization"],
             outcal=desc["output_calibration"])
  y0 = sim.f(sim.x)
  out.checks += 1
  if not np.all(np.isfinite(y0)):
    out.violate("non-finite model output after %s" % after, kind="finite",
                collapsed_learned_keypoint=_collapsed_learned_keypoint(
                    sim.model), **sig)
    return
  seen = [y0]          # every output computed here is bound-checked below
  for j, direction, mod, typ in sim.plans:
    if typ == "numeric":
      y1 = sim.f(mod)
      base = y0
      seen.append(y1)
    else:
      base, y1 = sim.f(mod[0]), sim.f(mod[1])
      seen.extend([base, y1])
    out.checks += 1
    if not (np.all(np.isfinite(y1)) and np.all(np.isfinite(base))):
      out.violate("non-finite model output on probe rows after %s" % after,
                  kind="finite",
                  collapsed_learned_keypoint=_collapsed_learned_keypoint(
                      sim.model), **sig)
      return
    sc = max(1.0, float(np.max(np.abs(base))), float(np.max(np.abs(y1))))
    drop = float(np.max(-(y1 - base) * direction))
    if drop > TOL_MONO_F * sc:
      f = desc["features"][j]
      out.violate("output moves against the configured direction by %.3g in "
                  "%s feature %s after %s" % (drop, typ, f["name"], after),
                  kind="monotonicity", feature=typ,
                  unprojected_linear_init=bool(
                      sim.optimizer_steps == 0 and _linear_init_wrong_sign(
                          sim.model)), **sig)
      return
  lo, hi = M.bounded(desc)
  if lo is not None or hi is not None:
    ym = sim.f(sim.xm)
    yy = np.concatenate(seen + [ym])
    out.checks += 1
    if not np.all(np.isfinite(ym)):
      out.violate("non-finite model output on missing-value rows after %s" %
                  after, kind="finite",
                  collapsed_learned_keypoint=_collapsed_learned_keypoint(
                      sim.model), **sig)
      return
    tol = 1e-5 * max(1.0, abs(lo or 0.0), abs(hi or 0.0))
    bv = 0.0
    if lo is not None:
      bv = max(bv, float(lo - yy.min()))
    if hi is not None:
      bv = max(bv, float(yy.max() - hi))
    if bv > tol:
      out.violate("output outside [output_min, output_max] by %.3g after %s" %
                  (bv, after), kind="bounds",
                  collapsed_average=_collapsed_average(sim.model), **sig)


def _linear_init_wrong_sign(model):
  """True iff some tfl Linear layer with monotonicities still holds (initial)
  weights of the wrong sign - the region of finding F-C03-3."""
  found = [False]

  def walk(layer):
    for l in getattr(layer, "layers", []) or []:
      walk(l)
    if type(layer).__name__ == "Linear" and any(
        getattr(layer, "monotonicities", None) or []):
      from tensorflow_lattice.python import utils
      m = np.array(utils.canonicalize_monotonicities(layer.monotonicities),
                   np.float64)[:, None]
      if np.any(layer.kernel.numpy() * m < 0):
        found[0] = True
  walk(model)
  return found[0]


def _collapsed_learned_keypoint(model):
  """True iff some learned keypoint gap softmax(logits) underflows in float32.

  That is the region of finding F-C15-2 (0/0 at a collapsed keypoint): the
  spread of the interpolation logits of one unit (last axis) exceeds 85 (e^-87.3 is the
  smallest normal float32).
  """
  for v in model.weights:
    if "interpolation_logits" in v.name:
      a = v.numpy().astype(np.float64)
      if a.size and float(np.max(np.max(a, axis=-1) - np.min(a, axis=-1))) > 85.0:
        return True
  return False


def _collapsed_average(model):
  """True iff a norm-1 (weighted average) Linear layer has all-zero weights."""
  found = [False]

  def walk(layer):
    for l in getattr(layer, "layers", []) or []:
      walk(l)
    if type(layer).__name__ == "Linear" and getattr(
        layer, "normalization_order", None):
      k = layer.kernel.numpy()
      if np.all(np.sum(np.abs(k), axis=0) < 1e-6):
        found[0] = True
  walk(model)
  return found[0]


def play(desc, ops):
  out = Outcome()
  sim = Sim(desc)
  feats = desc["features"]
  out.label("model:" + desc["kind"], "param:" + desc["parameterization"],
            "outcal:%s" % desc["output_calibration"],
            "bounds:%s" % ("none" if desc["omin"] is None and desc["omax"] is None
                           else "one-sided" if None in (desc["omin"],
                                                        desc["omax"])
                           else "both"))
  if any(f["type"] == "categorical" and f["pairs"] for f in feats):
    out.label("categorical-pairs")
  if any(f["type"] == "numeric" and f["mono"] == -1 for f in feats):
    out.label("decreasing-feature")
  if any(f["default"] is not None for f in feats):
    out.label("missing-values")
  if desc.get("trust"):
    out.label("trust:" + desc["trust"]["type"])
  if desc.get("dominance"):
    out.label("dominance", "dominance:" + (
        "linear" if desc["kind"] == "linear" else "lattice"))
    if desc.get("trust"):
      out.label("trust+dominance")
  for f in feats:
    if f["default"] is None:
      continue
    if f["type"] == "categorical":
      if 0 <= f["default"] < f["num_buckets"]:
        out.label("missing:categorical-default-is-a-bucket")
    elif f["default"] != -1000.0:
      kp = f["keypoints"]
      out.label("missing:default-is-a-keypoint" if f["default"] in kp else
                "missing:default-inside-keypoint-range"
                if kp[0] < f["default"] < kp[-1] else
                "missing:default-next-to-keypoint-range")
  lo, hi = M.bounded(desc)
  if lo is not None or hi is not None:
    out.label("bounds-checked-on-plan-rows")
  judge(sim, out, "construction")
  for op in ops:
    name = op["op"]
    out.label("op:" + name)
    if name == "sgd_step" and op.get("momentum"):
      out.label("op:sgd_step(momentum)")
    if name == "fit_step":
      out.label("fit:" + op["opt"])
      try:
        sim.fit_step(op)
      except LibraryFitError as e:
        out.nontrivial = True
        out.violate("model.compile/model.fit(%s) on a valid model raised %s: "
                    "%s" % (op["opt"], e.args[0], e.args[1][:300]),
                    kind="exception", exc=e.args[0], where="model.fit")
        return out
    elif name in ("sgd_step", "adam_step"):
      sim.train_step(op)
    elif name == "hostile_update":
      sim.hostile_update(op)
    elif name == "roundtrip_weights":
      sim.roundtrip()
    elif name == "clone_restore":
      sim.clone_restore(out)
    elif name == "finalize":
      sim.finalize()
    else:
      raise ValueError(name)
    if not sim.finite():
      out.label("ended:weights-non-finite-or-beyond-1e6")
      break
    judge(sim, out, name)
    if any(v["sig"].get("kind") == "finite" for v in out.violations):
      break
  out.nontrivial = bool(sim.hostile > 0 or sim.big_steps > 0)
  out.info["hostile_updates"] = sim.hostile
  out.info["fit_steps"] = sim.fits
  return out


def run_case(case):
  return play(case["desc"], case["ops"])


LRS = [1e-3, 1e-1, 1.0, 10.0, 100.0]
op_sgd = st.fixed_dictionaries({
    "op": st.just("sgd_step"), "lr": st.sampled_from(LRS),
    "loss": st.sampled_from(["mse_against", "neg_mean", "pos_mean"]),
    "momentum": st.sampled_from([0.0, 0.0, 0.9]),
    "seed": st.integers(0, 10**6)})
op_adam = st.fixed_dictionaries({
    "op": st.just("adam_step"), "lr": st.sampled_from([1e-2, 1.0]),
    "loss": st.sampled_from(["mse_against", "neg_mean", "pos_mean"]),
    "seed": st.integers(0, 10**6)})
op_hostile = st.fixed_dictionaries({
    "op": st.just("hostile_update"),
    "scale": st.sampled_from([1e-2, 1.0, 1.0, 10.0, 1e3]),
    "seed": st.integers(0, 10**6)})
# model.compile + model.fit; the learning rates stay <= 10 for the optimizers
# that normalise the gradient (one step is then ~lr per weight).
op_fit = st.one_of(
    st.fixed_dictionaries({
        "op": st.just("fit_step"),
        "opt": st.sampled_from(["sgd", "momentum", "momentum"]),
        "lr": st.sampled_from([1e-1, 1.0, 10.0, 100.0]),
        "seed": st.integers(0, 10**6)}),
    st.fixed_dictionaries({
        "op": st.just("fit_step"),
        "opt": st.sampled_from(["adagrad", "rmsprop", "adam"]),
        "lr": st.sampled_from([1e-2, 1.0, 10.0]),
        "seed": st.integers(0, 10**6)}))


# --------------------------------------------------------------------------
# model descriptions: vlib.models.model_desc plus documented variants it does
# not draw (post-processed here; build_model reads the same fields).
KIND_PAIRS = [["stack_rtl2", "linear"], ["ensemble_random", "stack_linear"],
              ["ensemble_explicit", "stack_lattice"], ["lattice",
                                                       "ensemble_rtl"]]
_SHARD = {"pairs": None}


def begin_shard(tier, shard, nshards, seed):
  """Stratifies the 8 model kinds over the shards: with >= 4 shards a shard
  owns one pair of kinds (a costly one with a cheap one)."""
  del tier, seed
  m = min(nshards, len(KIND_PAIRS))
  _SHARD["pairs"] = [p for j, p in enumerate(KIND_PAIRS) if j % m == shard % m]


@st.composite
def desc_group(draw, tier, pairs=None):
  """One description per kind of a pair: a Hypothesis example plays the same
  drawn history on both models, so every kind gets exactly half of a shard's
  histories (a random choice of the kind per example turned out lumpy: 4 of 22
  histories for one kind)."""
  pairs = pairs or KIND_PAIRS
  pair = pairs[0] if len(pairs) == 1 else draw(st.sampled_from(pairs))
  return [draw(model_desc(tier, kinds=[k])) for k in pair]


@st.composite
def model_desc(draw, tier, kinds=None):
  desc = draw(M.model_desc(tier, kinds=kinds))
  feats = desc["features"]
  kind = desc["kind"]
  mono_feats = [i for i, f in enumerate(feats)
                if f["type"] == "numeric" and f["mono"] != 0]
  # (review item 7) missing-value defaults inside / next to the keypoint
  # range, equal to a keypoint, and a categorical default that is a bucket.
  for f in feats:
    if f["default"] is None or draw(st.integers(0, 2)) == 0:
      continue
    if f["type"] == "categorical":
      f["default"] = draw(st.integers(0, f["num_buckets"] - 1))
    else:
      kp = f["keypoints"]
      where = draw(st.sampled_from(["keypoint", "keypoint", "inside", "below",
                                    "above"]))
      if where == "keypoint":
        f["default"] = float(kp[draw(st.integers(0, len(kp) - 1))])
      elif where == "inside":
        f["default"] = S.f32(kp[0] + 0.37 * (kp[1] - kp[0]))
      elif where == "below":
        f["default"] = S.f32(kp[0] - 1.0)
      else:
        f["default"] = S.f32(kp[-1] + 1.0)
  numeric = [i for i, f in enumerate(feats) if f["type"] == "numeric"]

  def make_monotone(i):
    f = feats[i]
    if f["mono"] == 0:
      f["mono"] = draw(st.sampled_from([1, -1]))
      f["convexity"] = 0          # monotone + convex is finding F-C04-1's region
    if i not in mono_feats:
      mono_feats.append(i)

  # (review item 4) monotonic dominance inside the Linear layer of a
  # calibrated linear model (both features monotonic, as documented).
  if kind == "linear" and len(numeric) >= 2 and draw(st.integers(0, 3)) > 0:
    a, b = draw(st.permutations(numeric))[:2]
    make_monotone(a)
    make_monotone(b)
    desc["dominance"] = {"dominant": a, "weak": b}
  # (review item 4) more trust constraints, and an Edgeworth trust together
  # with a dominance pair.  Edgeworth + trapezoid on one pair stays excluded
  # (F-C01-1); conditional features stay numeric (a categorical conditional
  # feature is not documented).
  if desc["parameterization"] == "all_vertices" and kind in (
      "lattice", "ensemble_explicit", "stack_lattice") and len(numeric) >= 2:
    if desc["trust"] is None and desc["dominance"] is None and draw(
        st.booleans()):
      m, c = draw(st.permutations(numeric))[:2]
      make_monotone(m)
      desc["trust"] = {"main": m, "cond": c,
                       "type": draw(st.sampled_from(["edgeworth", "edgeworth",
                                                     "trapezoid"])),
                       "direction": draw(st.sampled_from([1, -1]))}
      if kind == "ensemble_explicit":
        # keep main and conditional feature together (as the library asks).
        for l in desc["lattices"]:
          if "f%d" % c in l and "f%d" % m not in l:
            l.append("f%d" % m)
    if desc["trust"] is not None and desc["trust"]["type"] == "edgeworth" and (
        desc["dominance"] is None and draw(st.integers(0, 2)) > 0):
      a, b = draw(st.permutations(numeric))[:2]
      make_monotone(a)
      make_monotone(b)
      desc["dominance"] = {"dominant": a, "weak": b}
  return desc


def machine(tier, sink):
  class ModelMachine(RuleBasedStateMachine):

    def __init__(self):
      super(ModelMachine, self).__init__()
      self.descs = None
      self.ops = []

    @initialize(descs=desc_group(tier, _SHARD["pairs"]))
    def build(self, descs):
      self.descs = descs

    @rule(op=op_sgd)
    def sgd_step(self, op):
      self.ops.append(op)

    @rule(op=op_adam)
    def adam_step(self, op):
      self.ops.append(op)

    @rule(op=op_fit)
    def fit_step(self, op):
      self.ops.append(op)

    @rule(op=op_hostile)
    def hostile_update(self, op):
      self.ops.append(op)

    @rule(op=op_hostile)
    def hostile_update_again(self, op):
      self.ops.append(op)

    @rule(a=op_hostile, b=op_hostile)
    def hostile_update_twice(self, a, b):
      self.ops.append(a)
      self.ops.append(b)

    @rule()
    def roundtrip_weights(self):
      self.ops.append({"op": "roundtrip_weights"})

    @rule()
    def clone_restore(self):
      self.ops.append({"op": "clone_restore"})

    @rule()
    def finalize(self):
      self.ops.append({"op": "finalize"})

    def teardown(self):
      if self.descs is None:
        return
      import props.c03 as me
      for desc in self.descs:
        case = {"desc": desc, "ops": list(self.ops)}
        sink(case, safe_run(me, case))

  return ModelMachine
