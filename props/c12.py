"""C12 - assert_constraints accepts exactly the weights meeting the covered constraints."""
import numpy as np
from hypothesis import strategies as st

from props import c01, c04, c06, c07
from vlib import oracles as R
from vlib import strategies as S
from vlib.harness import Outcome, hash32, ulp32

ID = "C12"
TITLE = ("assert_constraints accepts exactly the weights that meet the covered "
         "constraints")
RULE = ("Hypothesis draws a layer kind (Lattice, PWLCalibration, Linear, "
        "CategoricalCalibration, KroneckerFactoredLattice, RTL with Lattice or "
        "KFL sub-layers), a valid constraint configuration (PWL also with "
        "imputed missing values with/without missing_input_value, split "
        "outputs, cyclic, learned_interior keypoints with initial or moved "
        "logits), a spelling of the configuration (ints or 'increasing' / "
        "'valley' / 'convex' / 'positive' strings, one constraint tuple "
        "instead of a one-element list, scalar Linear monotonicities, "
        "lattice_sizes as tuple), 1-3 units, eps "
        "(relative to the weight scale in {1e-6..1e-1}, absolute in {1e-6, "
        "1e-4, 1e-2, 1, 100}, or omitted = the documented default 1e-6 / 1e-4 "
        "for Linear) and weights of one of four classes: feasible (certified "
        "projection / constructive / the layer's own constraints for KFL) with "
        "a drawn interior margin, arbitrary, and feasible with ONE injected "
        "violation of a drawn covered kind at a location and unit drawn from "
        "the full list of (kind, location, unit) targets, of size 2.5, 4, 8 or "
        "64 eps (must raise) or 0.2 eps (an allowed violation: must return). "
        "Lattices have sizes <= 3 per dimension (rank <= 4) or, one in three, "
        "one dimension of size 4-5 (rank <= 2, every violated kind equally "
        "likely, location preferably the last cell). "
        "The weights are assigned to the layer, layer.assert_constraints(eps) "
        "is called in eager mode and 'raised InvalidArgumentError' / 'returned' "
        "is compared with the float64 measure v of the covered constraint "
        "kinds: v >= 2 eps + n must raise, v <= eps/4 - n must return (n = 16 "
        "ulp32 of the magnitudes entering the library's float32 expression); "
        "in between no claim (discarded, counted). Non-trivial: a claim is made "
        "and the layer has at least one covered constraint; distinct by SHA-1.")
NT_FLOOR = 0.5
BUDGET = {"quick": 600, "thorough": 8000}
TECHNIQUE = ("property-based testing (Hypothesis): generated configurations x "
             "feasible / arbitrary / single-violation weights against a float64 "
             "constraint-measure oracle with a two-sided decision band")
LEVEL_TEXT = ("Generated-input exploration of assert_constraints(eps) of six "
              "layer kinds: every covered constraint kind (monotonicity, "
              "bounds, clamps, Edgeworth/trapezoid trust, monotonic/range "
              "dominance, joint monotonicity, ordering pairs, norm, KFL kernel/"
              "scale conditions) is violated at locations and units drawn from "
              "the complete target list, and feasible weights (boundary and "
              "interior) must pass. Catches assertions that reduce over the "
              "wrong direction, skip a unit/vertex/pair, use the wrong "
              "tolerance or crash; cannot show absence.")
LEVEL_NOTE = ("Decision band: raise iff v >= 2 eps + n, return iff v <= eps/4 - "
              "n, n = 16 ulp32(magnitude) (PWL: max(16, 2 K) ulp32 for the float32 "
              "cumulative sum over K keypoints); "
              "exact (eps-free) KFL conditions are judged exactly outside one "
              "ulp of the bound. Unimodality, joint unimodality and PWL "
              "convexity are not covered by the library's assertions and are "
              "not judged. RTL structure (which sub-lattice has which "
              "monotonicities) is read from the built layer. Shapes: lattices "
              "<= 81 vertices quick / 256 thorough. An injected 0.2 eps "
              "violation is drawn with eps >= 1e-3 of the weight scale so that "
              "eps/4 - n stays above it.")
ASSUMPTIONS = [
    "the set of covered constraint kinds is read from each library's "
    "assert_constraints (unimodality, joint unimodality, convexity excluded)",
    "KFL: only the library's own sufficient conditions on kernel/scale are "
    "judged, feasible KFL weights come from the layer's own constraints"]

LAT_COVERED = ("mono", "ew", "tz", "mdom", "rdom", "jmono")
LAYERS = ["lattice", "lattice", "lattice", "pwl", "pwl", "linear", "linear",
          "categorical", "kfl", "kfl", "rtl", "rtl"]
WMODES = ["feasible", "feasible", "raw", "inject", "inject", "inject"]
EPS_REL = [1e-6, 1e-5, 1e-4, 1e-4, 1e-3, 1e-2, 1e-2, 1e-1]
EPS_ABS = [1e-6, 1e-4, 1e-2, 1.0, 100.0]
# eps when the call omits it: the documented defaults of the signatures.
EPS_DEFAULT = {"linear": 1e-4}
EPS_DEFAULT_OTHER = 1e-6
MARGINS = [0.0, 0.0, 1e-3, 0.05, 0.3]
# size of the injected violation in units of eps: clearly above (>= 4), just
# above the raise threshold of the decision band (2.5), and - below 1 - a
# violation that the documented "allowed violation" eps accepts (0.2).
MULTS = [4.0, 4.0, 8.0, 64.0, 2.5, 2.5, 0.2, 0.2]
MONO_STR = {1: "increasing", -1: "decreasing", 0: "none"}
UNIMOD_STR = {1: "valley", -1: "peak", 0: "none"}
CONV_STR = {1: "convex", -1: "concave", 0: "none"}
DIR_STR = {1: "positive", -1: "negative"}
BIG = 2 ** 20


# ---------------------------------------------------------------- strategy
@st.composite
def _categorical_cfg(draw, big):
  n = draw(st.integers(1, 12 if big else 8))
  pairs = draw(S.dag_pairs(n, max_edges=8)) if n >= 2 else []
  bm = draw(st.sampled_from(["none", "min", "max", "both", "both"]))
  lo = S.f32(draw(st.sampled_from([-10.0, -1.0, 0.0, 0.5, 100.0])))
  width = S.f32(draw(st.sampled_from([0.0, 0.5, 1.0, 1000.0])))
  return {"buckets": n, "units": draw(st.integers(1, 3)), "pairs": pairs,
          "omin": lo if bm in ("min", "both") else None,
          "omax": S.f32(lo + width) if bm in ("max", "both") else None}


@st.composite
def _rtl_cfg(draw, big):
  num = draw(st.sampled_from([1, 2, 3, 3, 4, 4] + ([5, 6] if big else [])))
  rank = draw(st.integers(1, 3))
  total = draw(st.integers(1, min(num * rank, 5)))
  n_inc = draw(st.integers(0, total))
  if total >= 2 and draw(st.integers(0, 3)) > 0:
    n_inc = draw(st.integers(1, total - 1))     # mixed -> several sub-layers
  bm = draw(st.sampled_from(["none", "min", "max", "both", "both"]))
  lo = S.f32(draw(st.sampled_from([-10.0, -1.0, 0.0, 0.5, 100.0])))
  width = S.f32(draw(st.sampled_from([0.5, 1.0, 3.0, 1000.0])))
  return {"num": num, "rank": rank, "size": draw(st.integers(2, 3)),
          "n_unc": total - n_inc, "n_inc": n_inc,
          "omin": lo if bm in ("min", "both") else None,
          "omax": S.f32(lo + width) if bm in ("max", "both") else None,
          "param": draw(st.sampled_from(["all_vertices", "all_vertices",
                                         "kronecker_factored"])),
          "terms": draw(st.integers(1, 3)), "seed": draw(st.integers(0, 99)),
          "avoid": draw(st.booleans())}


@st.composite
def _case(draw, tier):
  big = tier == "thorough"
  layer = draw(st.sampled_from(LAYERS))
  case = {"layer": layer}
  shape = None
  if layer == "lattice":
    # the pairwise families are rare in the shared strategy: add one (they
    # need two dimensions).
    boost = draw(st.sampled_from(["none", "mdom", "rdom", "jmono", "ew",
                                  "tz"]))
    min_rank = 1 if boost == "none" else 2
    if draw(st.integers(0, 2)) == 0:
      # three or more cells in one dimension (rank <= 2 keeps the vertex
      # count): one size in 4..5 (thorough 6), the other one anything.
      top = 6 if big else 5
      sizes = [draw(st.integers(4, top))]
      if min_rank == 2 or draw(st.booleans()):
        sizes.insert(draw(st.integers(0, 1)), draw(st.integers(2, top)))
    else:
      sizes = draw(S.lattice_sizes(max_rank=5 if big else 4,
                                   max_size=4 if big else 3,
                                   max_weights=256 if big else 81,
                                   min_rank=min_rank))
    cfg = draw(S.lattice_config(sizes, approx=True))
    mono_dims = [i for i, m in enumerate(cfg["mono"]) if m == 1]
    need = {"mdom": 2, "rdom": 2, "ew": 1, "tz": 1}.get(boost, 0)
    if len(sizes) >= 2 and len(mono_dims) < need:
      # the family needs monotonic dimensions: make some (a monotonic
      # dimension cannot be unimodal as well).
      free = [d for d in draw(st.permutations(range(len(sizes))))
              if d not in mono_dims and not any(d == t[1] for t in
                                                cfg["ew"] + cfg["tz"])]
      for d in free[:need - len(mono_dims)]:
        cfg["mono"][d] = 1
        cfg["unimod"][d] = 0
        cfg["junimod"] = [j for j in cfg["junimod"] if d not in j[0]]
      mono_dims = [i for i, m in enumerate(cfg["mono"]) if m == 1]
    if (boost in ("ew", "tz") and mono_dims and len(sizes) >= 2 and
        not cfg["ew"] and not cfg["tz"]):
      # (no other trust: the main / conditional roles cannot clash.)
      m = draw(st.sampled_from(mono_dims))
      c = draw(st.sampled_from([d for d in range(len(sizes)) if d != m]))
      cfg[boost] = [[m, c, draw(st.sampled_from([-1, 1]))]]
    if boost in ("mdom", "rdom") and len(mono_dims) >= 2 and not cfg[boost]:
      cfg[boost] = [list(draw(st.permutations(mono_dims))[:2])]
    if boost == "jmono" and len(sizes) >= 2 and not cfg["jmono"]:
      cfg["jmono"] = [list(draw(st.permutations(range(len(sizes))))[:2])]
    cfg["units"] = draw(st.sampled_from([1, 1, 2, 3]))
    shape = (int(np.prod(sizes)), cfg["units"])
  elif layer == "pwl":
    cfg = draw(S.pwl_config(max_k=12 if big else 8,
                            spacings=S.SPACINGS_FINE))
    cfg["impute"] = draw(st.sampled_from(
        ["none", "none", "learned", "learned", "learned@keypoint", "constant",
         "tensor"]))
    cfg["split"] = bool(cfg["units"] > 1 and draw(st.integers(0, 5)) == 0)
    cfg["kp_type"] = ("learned_interior" if cfg["conv"] == 0 and
                      draw(st.integers(0, 2)) == 0 else "fixed")
    # learned keypoints either still sit where they were initialised or have
    # moved (interpolation_logits are weights of the layer as well).
    cfg["logits"] = ("moved" if cfg["kp_type"] == "learned_interior" and
                     draw(st.integers(0, 2)) > 0 else "initial")
    shape = (len(cfg["keypoints"]) - (1 if cfg["cyclic"] else 0),
             cfg["units"])
    case["missing"] = draw(S.array_desc(kinds=["normal", "ints", "uniform"],
                                        shape=(1, cfg["units"])))
  elif layer == "linear":
    cfg = draw(S.linear_config(max_dims=12 if big else 8))
    if not cfg["range_dom"] and draw(st.integers(0, 2)) == 0:
      # range dominance is rare in the shared strategy: add one valid pair.
      used = set(i for p in cfg["mono_dom"] for i in p)
      for sign in draw(st.permutations([1, -1])):
        cand = [i for i in range(cfg["dims"])
                if cfg["mono"][i] == sign and i not in used]
        if len(cand) >= 2:
          pair = list(draw(st.permutations(cand))[:2])
          for i in pair:
            if cfg["input_min"][i] is None:
              cfg["input_min"][i] = (0.0 if cfg["input_max"][i] is None else
                                     S.f32(cfg["input_max"][i] - 2.0))
            if cfg["input_max"][i] is None:
              cfg["input_max"][i] = S.f32(cfg["input_min"][i] + draw(
                  st.sampled_from([0.25, 1.0, 10.0])))
          cfg["range_dom"] = [pair]
          break
    shape = (cfg["dims"], cfg["units"])
  elif layer == "categorical":
    cfg = draw(_categorical_cfg(big))
    shape = (cfg["buckets"], cfg["units"])
  elif layer == "kfl":
    cfg = draw(c07.kfl_config(tier))
    case["scale"] = draw(S.array_desc(
        kinds=["normal", "ints", "ties", "uniform", "constant"],
        scales=[1e-3, 0.3, 1.0, 1.0, 10.0, 1e3]))
    case["entry"] = draw(st.sampled_from(["constraints", "finalize"]))
  else:
    cfg = draw(_rtl_cfg(big))
    case["scale"] = draw(S.array_desc(kinds=["normal", "ints", "uniform"],
                                      scales=[0.3, 1.0, 10.0]))
  case["cfg"] = cfg
  case["wmode"] = draw(st.sampled_from(WMODES))
  case["weights"] = draw(S.array_desc(shape=shape))
  case["mult"] = draw(st.sampled_from(MULTS))
  emode = draw(st.sampled_from(["abs", "rel", "rel", "rel", "default"]))
  if case["wmode"] == "inject" and case["mult"] < 1.0:
    # an accepted violation is only decidable when eps/20 exceeds the float32
    # noise of the library's expression: eps relative to the weights, >= 1e-3.
    case["eps"] = {"mode": "rel",
                   "value": draw(st.sampled_from([1e-3, 1e-2, 1e-2, 1e-1]))}
  elif emode == "abs":
    case["eps"] = {"mode": "abs", "value": draw(st.sampled_from(EPS_ABS))}
  elif emode == "default":
    # assert_constraints() without the argument.
    case["eps"] = {"mode": "default", "value": EPS_DEFAULT.get(
        layer, EPS_DEFAULT_OTHER)}
  else:
    case["eps"] = {"mode": "rel", "value": draw(st.sampled_from(EPS_REL))}
  # documented-as-equivalent ways of writing the configuration.
  case["spell"] = {
      "mono": draw(st.sampled_from(["int", "int", "str", "mixed"])),
      "dir": draw(st.sampled_from(["int", "str"])),
      "single": draw(st.booleans()),
      "sizes": draw(st.sampled_from(["list", "list", "tuple"]))}
  case["margin"] = draw(st.sampled_from(MARGINS))
  # the target of the injected violation: indices into the full lists of
  # (covered kinds present) x (locations of that kind) x (units); "where"
  # boosts the first and the last location.
  case["pick"] = {"kind": draw(st.integers(0, BIG)),
                  "loc": draw(st.integers(0, BIG)),
                  "unit": draw(st.integers(0, BIG)),
                  "sub": draw(st.integers(0, BIG)),
                  "where": draw(st.sampled_from(["any", "any", "first",
                                                 "last"]))}
  if layer == "lattice" and max(cfg["sizes"]) >= 4:
    # the far cells are what the larger lattices are for.
    case["pick"]["where"] = draw(st.sampled_from(["any", "last", "last",
                                                  "first"]))
  case["aux"] = draw(S.seeds)
  return case


def strategy(tier):
  return _case(tier)


# ---------------------------------------------------------------- judging
TINY = 1e-36      # float32 denormal range: no claims down there


def ulps(mag):
  """Vectorised ulp32."""
  return np.spacing(np.abs(np.asarray(mag, np.float64)).astype(
      np.float32)).astype(np.float64)


class Measure(object):
  """Violation measures of the covered constraints (float64).

  Every item is (kind, location, lo, hi, noise) with arrays lo, hi, noise:
  the covered inequality is violated by an amount between lo and hi (they
  differ only where the documentation leaves two readings; negative =
  margin), noise is the float32 evaluation noise of the library's own
  expression.  Exact (eps-free) conditions are (kind, location, excess,
  slack): excess > slack is a violation, excess <= 0 is fine, in between
  is undecidable in float32.
  """

  def __init__(self):
    self.items = []
    self.exact = []

  def add(self, kind, loc, viol, mag, hi=None, mult=16.0, extra=0.0):
    viol = np.asarray(viol, np.float64)
    hi = viol if hi is None else np.asarray(hi, np.float64)
    mag = np.broadcast_to(np.asarray(mag, np.float64), viol.shape)
    if viol.size:
      self.items.append((kind, loc, np.minimum(viol, hi).reshape(-1),
                         np.maximum(viol, hi).reshape(-1),
                         (mult * ulps(mag) + extra + TINY).reshape(-1)))

  def add_exact(self, kind, loc, excess, slack=0.0):
    excess = np.asarray(excess, np.float64).reshape(-1)
    if excess.size:
      self.exact.append((kind, loc, excess, slack))

  def kinds(self):
    return sorted(set(k for k, _, _, _, _ in self.items) |
                  set(k for k, _, _, _ in self.exact))

  def decide(self, eps):
    """Returns (claim, decisive kind, decisive location, v)."""
    worst = None
    for kind, loc, lo, hi, n in self.items:
      hit = lo >= 2 * eps + n
      if np.any(hit):
        i = int(np.argmax(np.where(hit, lo, -np.inf)))
        if worst is None or lo[i] > worst[3]:
          worst = ("raise", kind, "%s#%d" % (loc, i), float(lo[i]))
    if worst is None:
      for kind, loc, excess, slack in self.exact:
        if np.any(excess > slack):
          i = int(np.argmax(excess))
          worst = ("raise", kind, "%s#%d" % (loc, i), float(excess[i]))
          break
    if worst is not None:
      return worst
    v, where, ok = -float("inf"), ("none", ""), True
    for kind, loc, lo, hi, n in self.items:
      i = int(np.argmax(hi))
      if hi[i] > v:
        v, where = float(hi[i]), (kind, "%s#%d" % (loc, i))
      if not np.all(hi <= eps / 4 - n):
        ok = False
    for kind, loc, excess, slack in self.exact:
      if np.any(excess > 0):
        ok = False
        where = (kind, "%s#%d" % (loc, int(np.argmax(excess))))
    return ("return" if ok else "none", where[0], where[1], v)


def poly_measure(meas, a, rhs, kinds, w64):
  """Rows a.w >= rhs per unit; w64 (n, units)."""
  if a.shape[0] == 0:
    return
  vals = rhs[:, None] - a @ w64                       # (rows, units)
  mags = np.maximum(np.abs(a) @ np.abs(w64), np.abs(rhs)[:, None])
  for kind in sorted(set(kinds)):
    idx = [i for i, k in enumerate(kinds) if k == kind]
    meas.add(kind, kind, vals[idx], mags[idx])


# ---------------------------------------------------------------- polyhedra
def lattice_system(cfg):
  """Covered Lattice constraints as rows a.w >= rhs (+ kinds, tags)."""
  n = int(np.prod(cfg["sizes"]))
  rows = R.constraint_rows(cfg, LAT_COVERED)
  a = R.rows_matrix(rows, n)
  rhs = np.zeros(len(rows))
  kinds = [r[0] for r in rows]
  if cfg.get("omin") is not None:
    a = np.vstack([a, np.eye(n)])
    rhs = np.concatenate([rhs, np.full(n, float(cfg["omin"]))])
    kinds += ["bound_min"] * n
  if cfg.get("omax") is not None:
    a = np.vstack([a, -np.eye(n)])
    rhs = np.concatenate([rhs, np.full(n, -float(cfg["omax"]))])
    kinds += ["bound_max"] * n
  return a, rhs, kinds


def linear_system(cfg):
  d = cfg["dims"]
  rows, kinds = [], []
  for i, m in enumerate(cfg["mono"]):
    if m != 0:
      r = np.zeros(d)
      r[i] = float(m)
      rows.append(r)
      kinds.append("mono")
  for p, q in cfg["mono_dom"]:
    r = np.zeros(d)
    r[p] += 1.0
    r[q] -= 1.0
    rows.append(r)
    kinds.append("mono_dom")
  for p, q in cfg["range_dom"]:
    # documented for two inputs of the same monotonic direction: the output
    # range over the dominant input is at least the one over the weak input.
    s = float(cfg["mono"][p])
    r = np.zeros(d)
    r[p] += s * (cfg["input_max"][p] - cfg["input_min"][p])
    r[q] -= s * (cfg["input_max"][q] - cfg["input_min"][q])
    rows.append(r)
    kinds.append("range_dom")
  a = np.array(rows).reshape(len(rows), d)
  return a, np.zeros(len(rows)), kinds


def categorical_system(cfg):
  n = cfg["buckets"]
  rows, rhs, kinds = [], [], []
  for i, j in cfg["pairs"]:
    r = np.zeros(n)
    r[j] += 1.0
    r[i] -= 1.0
    rows.append(r)
    rhs.append(0.0)
    kinds.append("order")
  if cfg["omin"] is not None:
    for i in range(n):
      r = np.zeros(n)
      r[i] = 1.0
      rows.append(r)
      rhs.append(float(cfg["omin"]))
      kinds.append("bound_min")
  if cfg["omax"] is not None:
    for i in range(n):
      r = np.zeros(n)
      r[i] = -1.0
      rows.append(r)
      rhs.append(-float(cfg["omax"]))
      kinds.append("bound_max")
  return np.array(rows).reshape(len(rows), n), np.array(rhs), kinds


def with_margin(a, rhs, w32, margin):
  """Certified projection of every unit onto {a.w >= rhs + m}; None if that
  set is empty / not certified (the constraints have no interior)."""
  if margin <= 0 or a.shape[0] == 0:
    return None
  sc = float(np.max(np.abs(w32))) or 1.0
  out = np.zeros(w32.shape)
  for u in range(w32.shape[1]):
    w, info = R.project_polyhedron(a, rhs + margin * sc,
                                   w32[:, u].astype(np.float64))
    if not info["certified"]:
      return None
    out[:, u] = w
  return out.astype(np.float32)


def spread(name, drawn):
  """Hypothesis integers cluster near 0: hash them so that every index of a
  list is (about) equally likely while the case stays a plain integer."""
  return hash32(name, drawn)


COMMON_KINDS = ("mono", "bound_min", "bound_max", "negative_weight",
                "scale_sign", "scale_range")


def pick_target(kinds, pick, flat=False):
  """(row index, kind) of the injected violation drawn from the full list;
  kinds that few configurations have are drawn three times (the pairwise
  Lattice families twelve times) as often, unless `flat`."""
  present = []
  for k in sorted(set(kinds)):
    present += [k] * (1 if k in COMMON_KINDS or flat else 12 if k in (
        "ew", "tz", "mdom", "rdom", "jmono") else 3)
  if not present:
    return None, None
  kind = present[spread("kind", pick["kind"]) % len(present)]
  idx = [i for i, k in enumerate(kinds) if k == kind]
  if pick["where"] == "first":
    return idx[0], kind
  if pick["where"] == "last":
    return idx[-1], kind
  return idx[spread("loc", pick["loc"]) % len(idx)], kind


def inject_row(a, rhs, i, size, w64, kinds=None):
  """Nearest point with row i violated by `size` and every other row kept
  (certified, "single"); if no such point exists the other rows of the same
  kind are released too ("single-kind"); last resort: move one coordinate
  ("crude").  Returns (w, how)."""
  r = a[i]
  same = np.all(a == r[None, :], axis=1) & (rhs == rhs[i])
  stages = [("single", same)]
  if kinds is not None:
    stages.append(("single-kind", same | np.array(
        [k == kinds[i] for k in kinds])))
  for how, drop in stages:
    g = np.vstack([a[~drop], -r[None, :]])
    h = np.concatenate([rhs[~drop], [size - rhs[i]]])
    w, info = R.project_polyhedron(g, h, w64)
    if info["certified"]:
      return w, how
  w = w64.copy()
  j = int(np.argmax(np.abs(r)))
  w[j] -= (float(r @ w) - rhs[i] + size) / r[j]
  return w, "crude"


# ---------------------------------------------------------------- eps
def eps_of(case, scale):
  e = case["eps"]
  # (all-zero weights have no scale: stay far above the float32 denormals,
  # which TensorFlow kernels may flush to zero.)
  return float(e["value"]) if e["mode"] in ("abs", "default") else float(
      e["value"]) * max(scale, 1e-20)


def inject_size(case, eps, noise):
  if case["mult"] < 1.0:
    # a violation that the allowed violation eps accepts: nothing is added.
    return case["mult"] * eps
  return case["mult"] * eps + 6.0 * noise


def mag_of(*xs):
  m = 0.0
  for x in xs:
    if x is None:
      continue
    x = np.asarray(x, np.float64)
    if x.size:
      m = max(m, float(np.max(np.abs(x))))
  return m


# ---------------------------------------------------------------- Lattice
def lattice_weights(cfg, case, raw, out, aux):
  """float32 kernel of the drawn class for one Lattice (also RTL sub-layers).

  Returns (kernel or None, eps-scale)."""
  if case["wmode"] == "raw":
    return raw, mag_of(raw, cfg["omin"], cfg["omax"])
  fk = c01.feasible_kernel(cfg, raw, aux, families=LAT_COVERED)
  if fk is None:
    return None, 0.0
  a, rhs, _ = lattice_system(cfg)
  wm = with_margin(a, rhs, fk, case["margin"])
  out.label("margin:interior" if wm is not None else "margin:boundary")
  if wm is not None:
    fk = wm
  return fk, mag_of(fk, cfg["omin"], cfg["omax"])


def lattice_inject(cfg, k32, case, eps, out, prefix=""):
  a, rhs, kinds = lattice_system(cfg)
  # lattices with >= 4 vertices per dimension: every kind equally likely (the
  # point is the location, see "where" in the strategy).
  i, kind = pick_target(kinds, case["pick"], flat=max(cfg["sizes"]) >= 4)
  if i is None:
    out.label("inject:nothing-to-violate")
    return k32
  if int(np.max(np.unravel_index(np.nonzero(a[i])[0], cfg["sizes"]))) >= 3:
    # a vertex that lattices with <= 3 vertices per dimension do not have.
    out.label("inject:vertex-index>=3", "inject:vertex-index>=3:" + kind)
  u = spread("unit", case["pick"]["unit"]) % k32.shape[1]
  w64 = k32[:, u].astype(np.float64)
  noise = 16 * ulp32(max(float(np.abs(a[i]) @ np.abs(w64)), abs(rhs[i])))
  w, how = inject_row(a, rhs, i, inject_size(case, eps, noise), w64, kinds)
  k = k32.copy()
  k[:, u] = w.astype(np.float32)
  upos = "first" if u == 0 else "last" if u == k32.shape[1] - 1 else "middle"
  out.label("inject:%s%s" % (prefix, kind), "inject-how:" + how,
            "inject-unit:%s" % upos)
  if kind in ("ew", "tz", "mdom", "rdom", "jmono"):
    # sub-classes of the pairwise families: unit position, trust direction,
    # order of the two dimensions, side of the trapezoid.
    tag = R.constraint_rows(cfg, LAT_COVERED)[i][1]
    fam = "inject:%s%s:" % (prefix, kind)
    out.label(fam + "unit=" + upos,
              fam + ("first-dim>second-dim" if tag[0] > tag[1] else
                     "first-dim<second-dim"))
    if kind in ("ew", "tz"):
      out.label(fam + "direction=%+d" % tag[2])
    if kind == "tz":
      same = [q for q, kk in enumerate(kinds) if kk == "tz"]
      out.label(fam + ("side=low" if same.index(i) % 2 == 0 else "side=top"))
  return k


def lattice_measure(meas, cfg, k32, tag=""):
  a, rhs, kinds = lattice_system(cfg)
  poly_measure(meas, a, rhs, [tag + k for k in kinds],
               k32.astype(np.float64))


def _word(spell, i):
  how = (spell or {}).get("mono", "int")
  return how == "str" or (how == "mixed" and i % 2 == 0)


def spelled_lattice_kwargs(cfg, spell):
  """S.lattice_kwargs rewritten in the drawn documented-as-equivalent spelling
  ('increasing' / 'valley' / 'positive' strings, one constraint tuple instead
  of a list with one tuple, lattice_sizes as a tuple) + labels."""
  kw = S.lattice_kwargs(cfg)
  sp = spell or {}
  labels = []
  if sp.get("mono", "int") != "int":
    kw["monotonicities"] = [MONO_STR[m] if _word(sp, i) else m
                            for i, m in enumerate(cfg["mono"])]
    if "unimodalities" in kw:
      kw["unimodalities"] = [UNIMOD_STR[v] if _word(sp, i) else v
                             for i, v in enumerate(cfg["unimod"])]
    labels.append("spelled:monotonicity-strings")
  for name in ("edgeworth_trusts", "trapezoid_trusts"):
    if name in kw and sp.get("dir") == "str":
      kw[name] = [(m, c, DIR_STR[d]) for m, c, d in kw[name]]
      labels.append("spelled:trust-direction-strings")
  if sp.get("single"):
    for name in ("edgeworth_trusts", "trapezoid_trusts",
                 "monotonic_dominances", "range_dominances",
                 "joint_monotonicities"):
      if name in kw and len(kw[name]) == 1:
        kw[name] = kw[name][0]
        labels.append("spelled:single-tuple")
  if sp.get("sizes") == "tuple":
    kw["lattice_sizes"] = tuple(kw["lattice_sizes"])
    labels.append("spelled:sizes-tuple")
  return kw, labels


def build_lattice(cfg, units, spell=None, out=None):
  import tensorflow_lattice as tfl
  kw, labels = spelled_lattice_kwargs(cfg, spell)
  if out is not None:
    out.label(*labels)
  layer = tfl.layers.Lattice(units=units, **kw)
  d = len(cfg["sizes"])
  layer.build((None, d) if units == 1 else (None, units, d))
  return layer


# ---------------------------------------------------------------- PWL
def pwl_outputs(cfg, k64):
  y = np.cumsum(k64, axis=0)
  if cfg["cyclic"]:
    y = np.concatenate([y, y[:1]], axis=0)   # the closing output is the first
  return y


def pwl_kernel_of(cfg, y):
  if cfg["cyclic"]:
    y = y[:-1]
  return np.concatenate([y[:1], np.diff(y, axis=0)], axis=0)


def pwl_add_margin(cfg, y, m):
  """Positive affine map (+ ramp) of one unit's outputs: keeps the covered
  constraints and moves them `m` into the interior where they have one."""
  lo, hi = cfg["omin"], cfg["omax"]
  cmin, cmax = cfg["clamp_min"], cfg["clamp_max"]
  y = y.copy()
  if cfg["mono"] != 0:
    y = y + cfg["mono"] * m * np.arange(y.size)
  mn, mx = float(y.min()), float(y.max())
  lo_t = None if lo is None else (lo if cmin else lo + m)
  hi_t = None if hi is None else (hi if cmax else hi - m)
  if lo_t is not None and hi_t is not None:
    if hi_t < lo_t:
      return None
    if mx > mn:
      s = (hi_t - lo_t) / (mx - mn)
      if not (cmin and cmax):
        s = min(1.0, s)
      y = (y - mn) * s
      mx, mn = (mx - mn) * s, 0.0
      y = y + (lo_t if cmin or not cmax else hi_t - mx)
    elif cmin and cmax and hi_t > lo_t:
      return None
    else:
      y = np.full_like(y, hi_t if cmax else lo_t)
  elif lo_t is not None:
    y = y + (lo_t - mn)
  elif hi_t is not None:
    y = y - (mx - hi_t)
  return y


def pwl_targets(cfg, rows):
  """Full list of (kind, location) targets of a PWL calibrator."""
  t = []
  if cfg["mono"] != 0:
    t += [("mono", i) for i in range(1, rows)]
  if cfg["omin"] is not None:
    if cfg["clamp_min"]:
      t += [("clamp_min", 0), ("clamp_min", 1)]
    else:
      t += [("bound_min", j) for j in range(rows)]
  if cfg["omax"] is not None:
    if cfg["clamp_max"]:
      t += [("clamp_max", 0), ("clamp_max", 1)]
    else:
      t += [("bound_max", j) for j in range(rows)]
  if cfg["impute"] in LEARNED_MISSING:
    if cfg["omin"] is not None:
      t.append(("missing_min", 0))
    if cfg["omax"] is not None:
      t.append(("missing_max", 0))
  return t


def pwl_inject(cfg, k32, miss32, case, eps, noise, out):
  targets = pwl_targets(cfg, k32.shape[0])
  kinds = [k for k, _ in targets]
  i, kind = pick_target(kinds, case["pick"])
  if i is None:
    out.label("inject:nothing-to-violate")
    return k32, miss32
  loc = targets[i][1]
  u = spread("unit", case["pick"]["unit"]) % k32.shape[1]
  size = inject_size(case, eps, noise)
  y = pwl_outputs(cfg, k32.astype(np.float64))[:, u]
  lo, hi, mono = cfg["omin"], cfg["omax"], cfg["mono"]
  npts = y.size
  miss = miss32.copy()
  if kind == "mono":
    # outputs loc-1 -> loc step the wrong way by `size`; move the end that
    # stays inside the bounds if there is one.
    down = y[loc - 1] - mono * size          # new y[loc]
    up = y[loc] + mono * size                # new y[loc-1]
    inside = lambda v: (lo is None or v >= lo) and (hi is None or v <= hi)
    if inside(down) or not inside(up):
      y[loc] = down
    else:
      y[loc - 1] = up
  elif kind in ("bound_min", "bound_max"):
    c = lo - size if kind == "bound_min" else hi + size
    low_side = (kind == "bound_min") == (mono >= 0)
    if mono == 0:
      y[loc] = c
      if cfg["cyclic"] and loc == 0:
        y[-1] = c
    elif low_side:
      y[:loc + 1] = c
    else:
      y[loc:] = c
  elif kind == "clamp_min":
    if loc == 0:                       # output_min is not reached
      y = np.maximum(y, lo + size)
    else:                              # the low end undershoots
      y[0 if mono >= 0 else npts - 1] = lo - size
  elif kind == "clamp_max":
    if loc == 0:
      y = np.minimum(y, hi - size)
    else:
      y[npts - 1 if mono >= 0 else 0] = hi + size
  elif kind == "missing_min":
    miss[0, u] = np.float32(lo - size)
  elif kind == "missing_max":
    miss[0, u] = np.float32(hi + size)
  k = k32.astype(np.float64).copy()
  yy = pwl_outputs(cfg, k)
  yy[:, u] = y
  k = pwl_kernel_of(cfg, yy).astype(np.float32)
  same = [q for q, kk in enumerate(kinds) if kk == kind]
  out.label("inject:" + kind, "inject-loc:%s" % (
      "first" if i == same[0] else "last" if i == same[-1] else "middle"),
            "inject-unit:%s" % ("first" if u == 0 else "last" if
                                u == k32.shape[1] - 1 else "middle"))
  return k, miss


def pwl_noise(cfg, k32, miss32):
  k64 = k32.astype(np.float64)
  y = pwl_outputs(cfg, k64)
  mag = mag_of(k64, y, cfg["omin"], cfg["omax"], miss32)
  kp = np.asarray(cfg["keypoints"], np.float64)
  # a float32 cumulative sum over the K keypoints.
  return max(16.0, 2.0 * kp.size) * ulp32(mag)


def pwl_measure(meas, cfg, k32, miss32, noise):
  y = pwl_outputs(cfg, k32.astype(np.float64))
  lo, hi = cfg["omin"], cfg["omax"]
  zero = 0.0
  if cfg["mono"] != 0 and y.shape[0] > 1:
    meas.add("mono", "mono", -cfg["mono"] * np.diff(y, axis=0), zero,
             extra=noise)
  if lo is not None:
    mn = y.min(axis=0)
    if cfg["clamp_min"]:
      meas.add("clamp_min", "clamp_min", np.abs(mn - lo), zero, extra=noise)
    else:
      meas.add("bound_min", "bound_min", lo - mn, zero, extra=noise)
  if hi is not None:
    mx = y.max(axis=0)
    if cfg["clamp_max"]:
      meas.add("clamp_max", "clamp_max", np.abs(mx - hi), zero, extra=noise)
    else:
      meas.add("bound_max", "bound_max", mx - hi, zero, extra=noise)
  if cfg["impute"] in LEARNED_MISSING:
    mo = miss32.astype(np.float64)
    if lo is not None:
      meas.add("missing_min", "missing_min", lo - mo, zero, extra=noise)
    if hi is not None:
      meas.add("missing_max", "missing_max", mo - hi, zero, extra=noise)


LEARNED_MISSING = ("learned", "learned@keypoint", "tensor")


def pwl_missing_input(cfg):
  """missing_input_value: outside the keypoints, or (the keypoints are regular
  inputs for assert_constraints) equal to the middle keypoint."""
  kp = cfg["keypoints"]
  if cfg["impute"] == "learned@keypoint":
    return float(kp[len(kp) // 2])
  return float(kp[0]) - 7.0


def build_pwl(cfg, spell=None, out=None):
  import tensorflow_lattice as tfl
  kw = S.pwl_layer_kwargs(cfg)
  sp = spell or {}
  if sp.get("mono", "int") != "int":
    kw["monotonicity"] = MONO_STR[cfg["mono"]]
    if out is not None:
      out.label("spelled:monotonicity-strings")
  if sp.get("dir") == "str":
    kw["convexity"] = CONV_STR[cfg["conv"]]
  kw["input_keypoints_type"] = cfg["kp_type"]
  kw["split_outputs"] = cfg["split"]
  if cfg["impute"] != "none":
    kw["impute_missing"] = True
    if cfg["impute"] != "tensor":
      kw["missing_input_value"] = pwl_missing_input(cfg)
    if cfg["impute"] == "constant":
      lo = cfg["omin"] if cfg["omin"] is not None else (
          cfg["omax"] if cfg["omax"] is not None else 0.0)
      kw["missing_output_value"] = lo
  layer = tfl.layers.PWLCalibration(**kw)
  layer.build((None, cfg["units"]))
  return layer


# ---------------------------------------------------------------- Linear
def linear_norms(cfg, w64):
  if cfg["norm"] == 1:
    return np.abs(w64).sum(axis=0)
  return np.sqrt((w64 * w64).sum(axis=0))


def linear_measure(meas, cfg, w32):
  a, rhs, kinds = linear_system(cfg)
  w64 = w32.astype(np.float64)
  if a.shape[0]:
    vals = -(a @ w64)
    mags = np.abs(a) @ np.abs(w64)
    for kind in sorted(set(kinds)):
      idx = [i for i, k in enumerate(kinds) if k == kind]
      hi = None
      if kind == "range_dom":
        # second reading: absolute weights (equal when monotonicity holds).
        hi = _range_dom_abs(cfg, w64)
      meas.add(kind, kind, vals[idx], mags[idx], hi=hi)
  if cfg["norm"]:
    nrm = linear_norms(cfg, w64)
    dev = np.abs(nrm - 1.0)
    # a numerically all-zero unit cannot be normalised and is accepted; the
    # threshold (1e-8) itself is left undecided.
    lo = np.where(nrm <= 2e-8, -np.inf, dev)
    hi = np.where(nrm < 0.5e-8, -np.inf, dev)
    meas.add("norm", "norm", lo, np.maximum(nrm, 1.0), hi=hi,
             mult=16.0 + 2.0 * cfg["dims"])


def _range_dom_abs(cfg, w64):
  rows = []
  for p, q in cfg["range_dom"]:
    rp = cfg["input_max"][p] - cfg["input_min"][p]
    rq = cfg["input_max"][q] - cfg["input_min"][q]
    rows.append(-(rp * np.abs(w64[p]) - rq * np.abs(w64[q])))
  return np.array(rows).reshape(len(rows), w64.shape[1])


def linear_weights(cfg, case, raw, out):
  a, rhs, kinds = linear_system(cfg)
  if case["wmode"] == "raw":
    return raw
  fw = c06.feasible_weights("linear", cfg, raw, case["aux"])
  if fw is None:
    return None
  wm = with_margin(a, rhs, fw, case["margin"])
  out.label("margin:interior" if wm is not None else "margin:boundary")
  if wm is not None:
    fw = wm
  if cfg["norm"]:
    w64 = fw.astype(np.float64)
    nrm = linear_norms(cfg, w64)
    if np.any(nrm < 1e-3):
      return None
    fw = (w64 / nrm).astype(np.float32)
  return fw


def linear_inject(cfg, w32, case, eps, out):
  a, rhs, kinds = linear_system(cfg)
  kinds = list(kinds) + (["norm"] if cfg["norm"] else [])
  i, kind = pick_target(kinds, case["pick"])
  if i is None:
    out.label("inject:nothing-to-violate")
    return w32
  u = spread("unit", case["pick"]["unit"]) % w32.shape[1]
  w = w32.astype(np.float64).copy()
  how = "single"
  if kind == "norm":
    size = inject_size(case, eps, 32 * ulp32(1.0))
    f = 1.0 + size if (spread("dir", case["pick"]["loc"]) % 2 == 0 or
                       size >= 0.5) else (
        1.0 - size)
    w[:, u] *= f
  else:
    noise = 16 * ulp32(float(np.abs(a[i]) @ np.abs(w[:, u])))
    size = inject_size(case, eps, noise)
    if cfg["norm"] and case["mult"] >= 1.0:
      size *= 2.0                       # renormalisation below may shrink it
    col, how = inject_row(a, rhs, i, size, w[:, u], kinds[:a.shape[0]])
    if cfg["norm"]:
      nrm = float(linear_norms(cfg, col[:, None])[0])
      if nrm > 1e-3:
        col = col / nrm
    w[:, u] = col
  out.label("inject:" + kind, "inject-how:" + how,
            "inject-unit:%s" % ("first" if u == 0 else "last" if
                                u == w32.shape[1] - 1 else "middle"))
  return w.astype(np.float32)


def build_linear(cfg, spell=None, out=None):
  import tensorflow_lattice as tfl
  kw = S.linear_kwargs(cfg)
  sp = spell or {}
  labels = []
  if sp.get("mono", "int") != "int":
    kw["monotonicities"] = [MONO_STR[m] if _word(sp, i) else m
                            for i, m in enumerate(cfg["mono"])]
    labels.append("spelled:monotonicity-strings")
  if sp.get("single") and len(set(cfg["mono"])) == 1:
    # "Instead of a list or tuple single value can be specified".
    kw["monotonicities"] = kw["monotonicities"][0]
    labels.append("spelled:scalar-monotonicities")
  if out is not None:
    out.label(*labels)
  layer = tfl.layers.Linear(num_input_dims=cfg["dims"], units=cfg["units"],
                            use_bias=cfg["use_bias"], **kw)
  layer.build((None, cfg["dims"]) if cfg["units"] == 1 else
              (None, cfg["units"], cfg["dims"]))
  return layer


# ---------------------------------------------------------------- categorical
def categorical_weights(cfg, case, raw, out):
  a, rhs, kinds = categorical_system(cfg)
  if case["wmode"] == "raw":
    return raw
  fw = c06.feasible_weights("categorical", cfg, raw, case["aux"])
  if fw is None:
    return None
  wm = with_margin(a, rhs, fw, case["margin"])
  out.label("margin:interior" if wm is not None else "margin:boundary")
  return wm if wm is not None else fw


def build_categorical(cfg):
  import tensorflow_lattice as tfl
  layer = tfl.layers.CategoricalCalibration(
      num_buckets=cfg["buckets"], units=cfg["units"], output_min=cfg["omin"],
      output_max=cfg["omax"],
      monotonicities=[tuple(p) for p in cfg["pairs"]] or None)
  layer.build((None, cfg["units"]))
  return layer


# ---------------------------------------------------------------- KFL
def kfl_view(cfg, kern):
  return np.asarray(kern, np.float64).reshape(
      cfg["size"], cfg["units"], cfg["dims"], cfg["terms"])


def kfl_measure(meas, cfg, kern32, scale32, tag=""):
  """The library's documented sufficient conditions on kernel and scale."""
  w = kfl_view(cfg, kern32)
  s = np.asarray(scale32, np.float64).reshape(cfg["units"], cfg["terms"])
  wmag = mag_of(w)
  if any(cfg["mono"]):
    sgn = np.sign(s)[None, :, :]
    for d, m in enumerate(cfg["mono"]):
      if m:
        # every factor of a monotonic input steps in the direction of the
        # sign of its term's scale.
        meas.add(tag + "mono", "mono-d%d" % d,
                 -sgn * (w[1:, :, d, :] - w[:-1, :, d, :]), wmag)
  lo, hi = cfg["omin"], cfg["omax"]
  if lo is not None and hi is not None:
    prod = np.prod(np.max(np.abs(w), axis=0), axis=1)       # (units, terms)
    meas.add(tag + "term_max", "term_max", prod - 1.0,
             np.maximum(np.maximum(prod, 1.0), wmag),
             mult=16.0 + 4.0 * cfg["dims"])
    b = (float(hi) - float(lo)) / 2.0
    meas.add_exact(tag + "scale_range", "scale", np.abs(s) - b,
                   slack=2 * ulp32(b))
  elif lo is not None or hi is not None:
    meas.add_exact(tag + "negative_weight", "kernel", -w)
    meas.add_exact(tag + "scale_sign", "scale", -s if lo is not None else s)


def kfl_targets(cfg):
  t = []
  u_t = [(u, t_) for u in range(cfg["units"]) for t_ in range(cfg["terms"])]
  if any(cfg["mono"]):
    for d, m in enumerate(cfg["mono"]):
      if m:
        t += [("mono", (j, u, d, q)) for j in range(1, cfg["size"])
              for u, q in u_t]
  lo, hi = cfg["omin"], cfg["omax"]
  if lo is not None and hi is not None:
    t += [("term_max", (0, u, 0, q)) for u, q in u_t]
    t += [("scale_range", (0, u, 0, q)) for u, q in u_t]
  elif lo is not None or hi is not None:
    t += [("negative_weight", (j, u, d, q)) for j in range(cfg["size"])
          for d in range(cfg["dims"]) for u, q in u_t]
    t += [("scale_sign", (0, u, 0, q)) for u, q in u_t]
  return t


def kfl_inject(cfg, kern32, scale32, case, eps, out, prefix=""):
  targets = kfl_targets(cfg)
  # location and unit are drawn separately so every (unit, term) is reachable.
  kinds = [k for k, _ in targets]
  pick = dict(case["pick"])
  pick["loc"] = pick["loc"] + BIG * pick["unit"]
  i, kind = pick_target(kinds, pick)
  if i is None:
    out.label("inject:nothing-to-violate")
    return kern32, scale32
  j, u, d, q = targets[i][1]
  w = kfl_view(cfg, kern32).copy()
  s = np.asarray(scale32, np.float64).reshape(cfg["units"],
                                              cfg["terms"]).copy()
  size = inject_size(case, eps, 32 * ulp32(max(1.0, mag_of(w))))
  lo, hi = cfg["omin"], cfg["omax"]
  if kind == "mono":
    sg = np.sign(s[u, q])
    one_sided = (lo is None) != (hi is None)
    if sg == 0:
      sg = 1.0                     # nothing to violate: a zero term is exempt
    if one_sided:                  # keep the kernel non-negative
      if sg > 0:
        w[j - 1, u, d, q] = w[j, u, d, q] + size
      else:
        w[j, u, d, q] = w[j - 1, u, d, q] + size
    else:
      w[j, u, d, q] = w[j - 1, u, d, q] - sg * size
  elif kind == "term_max":
    mx = np.max(np.abs(w[:, u, :, q]), axis=0)
    dd = spread("dim", case["pick"]["loc"]) % cfg["dims"]
    if np.all(mx > 0):
      w[:, u, dd, q] *= (1.0 + size) / float(np.prod(mx))
    else:
      w[:, u, :, q] = 1.0
      w[:, u, dd, q] = 1.0 + size
  elif kind == "scale_range":
    b = (float(hi) - float(lo)) / 2.0
    sign = 1.0 if spread("dir", case["pick"]["loc"]) % 2 == 0 else -1.0
    s[u, q] = sign * (b + max(size, 8 * ulp32(b)))
  elif kind == "negative_weight":
    w[j, u, d, q] = -max(size, 1e-30)
  elif kind == "scale_sign":
    s[u, q] = (-1.0 if lo is not None else 1.0) * max(size, 1e-30)
  out.label("inject:%s%s" % (prefix, kind),
            "inject-unit:%s" % ("first" if u == 0 else "last" if
                                u == cfg["units"] - 1 else "middle"),
            "inject-term:%s" % ("first" if q == 0 else "last" if
                                q == cfg["terms"] - 1 else "middle"))
  return (w.reshape(np.asarray(kern32).shape).astype(np.float32),
          s.astype(np.float32))


def build_kfl(cfg, spell=None, out=None):
  import tensorflow as tf
  import tensorflow_lattice as tfl
  kw = dict(lattice_sizes=cfg["size"], units=cfg["units"],
            num_terms=cfg["terms"], output_min=cfg["omin"],
            output_max=cfg["omax"], clip_inputs=cfg["clip"])
  if any(cfg["mono"]):
    kw["monotonicities"] = list(cfg["mono"])
    if (spell or {}).get("mono", "int") != "int":
      kw["monotonicities"] = [MONO_STR[m] if _word(spell, i) else m
                              for i, m in enumerate(cfg["mono"])]
      if out is not None:
        out.label("spelled:monotonicity-strings")
  layer = tfl.layers.KroneckerFactoredLattice(**kw)
  d, u = cfg["dims"], cfg["units"]
  layer.build(tf.TensorShape((None, d) if u == 1 else (None, u, d)))
  return layer


def kfl_own_weights(layer, cfg, case, kraw, sraw, entry, out):
  """Weights produced by the layer's own constraints from raw ones."""
  layer.kernel.assign(kraw.reshape(layer.kernel.shape))
  layer.scale.assign(sraw.reshape(layer.scale.shape))
  if entry == "finalize":
    layer.finalize_constraints()
  else:
    if layer.scale.constraint is not None:
      layer.scale.assign(layer.scale.constraint(layer.scale))
    if layer.kernel.constraint is not None:
      layer.kernel.assign(layer.kernel.constraint(layer.kernel))
  k, s = layer.kernel.numpy(), layer.scale.numpy()
  m = case["margin"]
  if m > 0 and cfg["omin"] is not None and cfg["omax"] is not None:
    # both conditions of a two-sided bound scale towards their interior.
    k = (k.astype(np.float64) * (1.0 - m / cfg["dims"])).astype(np.float32)
    s = (s.astype(np.float64) * (1.0 - m)).astype(np.float32)
    out.label("margin:interior")
  else:
    out.label("margin:boundary")
  return k, s


# ---------------------------------------------------------------- RTL
def build_rtl(cfg):
  import tensorflow as tf
  import tensorflow_lattice as tfl
  kf = cfg["param"] == "kronecker_factored"
  layer = tfl.layers.RTL(
      num_lattices=cfg["num"], lattice_rank=cfg["rank"],
      lattice_size=cfg["size"], output_min=cfg["omin"],
      output_max=cfg["omax"], random_seed=cfg["seed"],
      parameterization=cfg["param"], num_terms=cfg["terms"],
      avoid_intragroup_interaction=cfg["avoid"],
      kernel_initializer=("kfl_random_monotonic_initializer" if kf else
                          "random_monotonic_initializer"))
  x = {}
  if cfg["n_unc"]:
    x["unconstrained"] = tf.zeros((1, cfg["n_unc"]))
  if cfg["n_inc"]:
    x["increasing"] = tf.zeros((1, cfg["n_inc"]))
  if not cfg["n_inc"] and cfg["seed"] % 2 == 0:
    x = x["unconstrained"]             # plain tensor input form
  layer(x)
  return layer


def rtl_sublayers(layer, cfg):
  """[(sub-layer, sub-configuration)] in the layer's own order."""
  res = []
  for sub in layer._lattice_layers.values():  # pylint: disable=protected-access
    mono = [int(m) for m in sub.monotonicities]
    if cfg["param"] == "all_vertices":
      scfg = {"sizes": [cfg["size"]] * cfg["rank"], "mono": mono,
              "unimod": [0] * cfg["rank"], "ew": [], "tz": [], "mdom": [],
              "rdom": [], "jmono": [], "junimod": [], "omin": cfg["omin"],
              "omax": cfg["omax"], "units": int(sub.units)}
    else:
      scfg = {"size": cfg["size"], "dims": cfg["rank"],
              "units": int(sub.units), "terms": cfg["terms"], "mono": mono,
              "omin": cfg["omin"], "omax": cfg["omax"]}
    res.append((sub, scfg))
  return res


def reseed(desc, k):
  if desc["kind"] == "explicit":
    return desc
  d = dict(desc)
  d["seed"] = (desc["seed"] + 104729 * k) % (2 ** 31 - 1)
  return d


# ---------------------------------------------------------------- run
def call_assert(layer, eps, case=None):
  """True if the assertion failed (InvalidArgumentError), False if passed."""
  import tensorflow as tf
  try:
    if case is not None and case["eps"]["mode"] == "default":
      layer.assert_constraints()       # judged with the documented default
    else:
      layer.assert_constraints(eps)
  except tf.errors.InvalidArgumentError as e:
    return True, str(e).split("\n")[0][:160]
  return False, ""


def judge(out, case, meas, eps, raised, msg, **sig):
  claim, kind, loc, v = meas.decide(eps)
  out.checks += 1
  out.info.update(v=v, eps=eps, decisive=kind, location=loc, raised=raised,
                  library_message=msg)
  out.label("claim:" + claim, "eps:%s:%g" % (case["eps"]["mode"],
                                           case["eps"]["value"]))
  if case["wmode"] == "inject":
    out.label("inject-size:%geps" % case["mult"],
              "inject-size:%geps/claim:%s" % (case["mult"], claim))
  covered = meas.kinds()
  for k in covered:
    out.label("covered:" + k)
  if claim == "none":
    out.discard = "no-claim-band"
    return
  out.nontrivial = bool(covered)
  if claim == "raise":
    out.label("violated:" + kind)
    if not raised:
      out.violate("%s violated by %.6g at %s (eps %.3g) but assert_constraints "
                  "returned" % (kind, v, loc, eps), kind="missed-violation",
                  fam=kind, **sig)
  elif raised:
    out.violate("every covered constraint holds (largest measure %.6g at %s %s,"
                " eps %.3g) but assert_constraints raised: %s" %
                (v, kind, loc, eps, msg), kind="false-alarm", fam=kind, **sig)


def run_case(case):
  import tensorflow as tf
  out = Outcome()
  layer_kind, cfg, wmode = case["layer"], case["cfg"], case["wmode"]
  tf.random.set_seed(case["aux"] % 1000)
  np.random.seed(case["aux"] % 1000)
  out.label("%s/%s" % (layer_kind, wmode), "layer:" + layer_kind,
            "weights:" + wmode)
  meas = Measure()
  units = cfg.get("units", 1)
  if layer_kind != "rtl":
    out.label("units>1" if units > 1 else "units=1")

  if layer_kind == "lattice":
    n = int(np.prod(cfg["sizes"]))
    if max(cfg["sizes"]) >= 4:
      out.label("lattice:size>=4")
    raw = S.materialize(case["weights"], (n, units))
    k32, scale = lattice_weights(cfg, case, raw, out, case["aux"])
    if k32 is None:
      out.discard = "uncertified-feasible-weights"
      return out
    eps = eps_of(case, scale)
    if wmode == "inject":
      k32 = lattice_inject(cfg, k32, case, eps, out)
    layer = build_lattice(cfg, units, case.get("spell"), out)
    layer.kernel.assign(k32)
    lattice_measure(meas, cfg, layer.kernel.numpy())
    if any(cfg["unimod"]) or cfg["junimod"]:
      out.label("uncovered-families-configured")
    raised, msg = call_assert(layer, eps, case)
    judge(out, case, meas, eps, raised, msg, layer="lattice",
          units_gt1=units > 1)
    return out

  if layer_kind == "pwl":
    rows = len(cfg["keypoints"]) - (1 if cfg["cyclic"] else 0)
    raw = S.materialize(case["weights"], (rows, units))
    mraw = S.materialize(case["missing"], (1, units))
    out.label("impute:" + cfg["impute"], "keypoints:" + cfg["kp_type"])
    if cfg["cyclic"]:
      out.label("cyclic")
    if cfg["split"]:
      out.label("split-outputs")
    if wmode == "raw":
      k32, miss = raw, mraw
    else:
      k32 = c04.feasible_kernel(cfg, rows, case["aux"])
      if k32 is None:
        out.discard = "no-feasible-weights"
        return out
      m = case["margin"] * max(1.0, mag_of(k32))
      interior = False
      if m > 0:
        y = pwl_outputs(cfg, k32.astype(np.float64))
        cols = [pwl_add_margin(cfg, (y[:-1] if cfg["cyclic"] else y)[:, u], m)
                for u in range(units)]
        if all(c is not None for c in cols):
          yy = np.stack(cols, axis=1)
          if cfg["cyclic"]:
            yy = np.concatenate([yy, yy[:1]], axis=0)
          k32 = pwl_kernel_of(cfg, yy).astype(np.float32)
          interior = True
      out.label("margin:interior" if interior else "margin:boundary")
      lo, hi = cfg["omin"], cfg["omax"]
      mid = 0.0 if lo is None and hi is None else (
          lo + 1.0 if hi is None else hi - 1.0 if lo is None else
          (lo + hi) / 2.0)
      miss = np.full((1, units), mid, np.float32)
    scale = mag_of(k32, pwl_outputs(cfg, k32.astype(np.float64)),
                   cfg["omin"], cfg["omax"])
    eps = eps_of(case, scale)
    if wmode == "inject":
      k32, miss = pwl_inject(cfg, k32, miss, case, eps,
                             pwl_noise(cfg, k32, miss), out)
    layer = build_pwl(cfg, case.get("spell"), out)
    layer.kernel.assign(k32)
    moved = cfg["logits"] == "moved"
    if moved:
      kp = np.asarray(cfg["keypoints"], np.float64)
      rs = np.random.RandomState(case["aux"])
      logits = np.log(np.diff(kp) / (kp[-1] - kp[0]))[None, :] + rs.normal(
          size=(units, kp.size - 1)) * rs.choice([0.3, 1.0, 2.0])
      layer.interpolation_logits.assign(logits.astype(np.float32))
      out.label("keypoints:moved")
    if cfg["impute"] in LEARNED_MISSING:
      layer.missing_output.assign(miss)
      miss = layer.missing_output.numpy()
    k32 = layer.kernel.numpy()
    pwl_measure(meas, cfg, k32, miss, pwl_noise(cfg, k32, miss))
    crash = None
    try:
      raised, msg = call_assert(layer, eps, case)
    except (ValueError, AttributeError, TypeError) as e:
      crash = e
    if crash is not None:
      cause = ("impute-without-missing-input-value" if cfg["impute"] == "tensor"
               else "split-outputs" if cfg["split"] else "other")
      if cause == "other":
        raise crash
      out.checks += 1
      out.nontrivial = True
      out.label("crash:" + cause)
      out.violate("PWLCalibration.assert_constraints crashed with %s: %s" % (
          type(crash).__name__, str(crash)[:200]), kind="assert-crash",
                  layer="pwl", exc=type(crash).__name__, cause=cause)
      return out
    judge(out, case, meas, eps, raised, msg, layer="pwl", units_gt1=units > 1,
          moved_keypoints=moved)
    return out

  if layer_kind in ("linear", "categorical"):
    n = cfg["dims"] if layer_kind == "linear" else cfg["buckets"]
    raw = S.materialize(case["weights"], (n, units))
    if layer_kind == "linear":
      w32 = linear_weights(cfg, case, raw, out)
    else:
      w32 = categorical_weights(cfg, case, raw, out)
    if w32 is None:
      out.discard = "uncertified-feasible-weights"
      return out
    if layer_kind == "linear":
      a, rhs, kinds = linear_system(cfg)
      scale = max(mag_of(w32), float(np.max(
          np.abs(a) @ np.abs(w32.astype(np.float64)))) if a.shape[0] else 0.0)
      if cfg["norm"]:
        scale = max(scale, 1.0)
        out.label("norm:%d" % cfg["norm"])
    else:
      a, rhs, kinds = categorical_system(cfg)
      scale = mag_of(w32, cfg["omin"], cfg["omax"])
    eps = eps_of(case, scale)
    if wmode == "inject":
      if layer_kind == "linear":
        w32 = linear_inject(cfg, w32, case, eps, out)
      else:
        i, kind = pick_target(kinds, case["pick"])
        if i is None:
          out.label("inject:nothing-to-violate")
        else:
          u = spread("unit", case["pick"]["unit"]) % units
          col = w32[:, u].astype(np.float64)
          noise = 16 * ulp32(max(float(np.abs(a[i]) @ np.abs(col)),
                                 abs(rhs[i])))
          col, how = inject_row(a, rhs, i, inject_size(case, eps, noise),
                                col, kinds)
          w32 = w32.copy()
          w32[:, u] = col.astype(np.float32)
          out.label("inject:" + kind, "inject-how:" + how,
                    "inject-unit:%s" % ("first" if u == 0 else "last" if
                                        u == units - 1 else "middle"))
    layer = build_linear(cfg, case.get("spell"), out) if (
        layer_kind == "linear") else build_categorical(cfg)
    layer.kernel.assign(w32)
    w32 = layer.kernel.numpy()
    if layer_kind == "linear":
      linear_measure(meas, cfg, w32)
    else:
      poly_measure(meas, a, rhs, kinds, w32.astype(np.float64))
    raised, msg = call_assert(layer, eps, case)
    judge(out, case, meas, eps, raised, msg, layer=layer_kind,
          units_gt1=units > 1)
    return out

  if layer_kind == "kfl":
    layer = build_kfl(cfg, case.get("spell"), out)
    kshape = tuple(layer.kernel.shape)
    kraw = S.materialize(case["weights"], (int(np.prod(kshape)), 1)).reshape(
        kshape)
    sraw = S.materialize(case["scale"], (cfg["units"], cfg["terms"]))
    out.label("terms:%d" % cfg["terms"])
    if wmode == "raw":
      k32, s32 = kraw, sraw
    else:
      k32, s32 = kfl_own_weights(layer, cfg, case, kraw, sraw, case["entry"],
                                 out)
      out.label("own:" + case["entry"])
    eps = eps_of(case, max(1.0, mag_of(k32)) if (
        cfg["omin"] is not None and cfg["omax"] is not None) else mag_of(k32))
    if wmode == "inject":
      k32, s32 = kfl_inject(cfg, k32, s32, case, eps, out)
    layer.kernel.assign(k32)
    layer.scale.assign(s32)
    kfl_measure(meas, cfg, layer.kernel.numpy(), layer.scale.numpy())
    raised, msg = call_assert(layer, eps, case)
    judge(out, case, meas, eps, raised, msg, layer="kfl",
          units_gt1=cfg["units"] > 1)
    return out

  # ---- RTL: delegates to its sub-lattices
  layer = build_rtl(cfg)
  subs = rtl_sublayers(layer, cfg)
  out.label("rtl:" + cfg["param"], "rtl-sublayers:%d" % len(subs))
  target = spread("sub", case["pick"]["sub"]) % len(subs)
  weights = []
  scale = 0.0
  for k, (sub, scfg) in enumerate(subs):
    desc = reseed(case["weights"], k)
    if cfg["param"] == "all_vertices":
      n = int(np.prod(scfg["sizes"]))
      raw = S.materialize(desc, (n, scfg["units"]))
      k32, sc = lattice_weights(scfg, case, raw, out, case["aux"] + k)
      if k32 is None:
        out.discard = "uncertified-feasible-weights"
        return out
      weights.append([k32, None])
    else:
      kshape = tuple(sub.kernel.shape)
      kraw = S.materialize(desc, (int(np.prod(kshape)), 1)).reshape(kshape)
      sraw = S.materialize(reseed(case["scale"], k),
                           (scfg["units"], scfg["terms"]))
      if wmode == "raw":
        k32, s32 = kraw, sraw
      else:
        k32, s32 = kfl_own_weights(sub, scfg, case, kraw, sraw, "constraints",
                                   out)
      sc = max(1.0, mag_of(k32)) if (cfg["omin"] is not None and
                                     cfg["omax"] is not None) else mag_of(k32)
      weights.append([k32, s32])
    scale = max(scale, sc)
  eps = eps_of(case, scale)
  if wmode == "inject":
    sub, scfg = subs[target]
    out.label("inject-sublayer:%s" % ("first" if target == 0 else "last" if
                                      target == len(subs) - 1 else "middle"))
    if cfg["param"] == "all_vertices":
      weights[target][0] = lattice_inject(scfg, weights[target][0], case, eps,
                                          out, prefix="rtl-")
    else:
      weights[target] = list(kfl_inject(scfg, weights[target][0],
                                        weights[target][1], case, eps, out,
                                        prefix="rtl-"))
  for k, (sub, scfg) in enumerate(subs):
    sub.kernel.assign(weights[k][0])
    if cfg["param"] == "all_vertices":
      lattice_measure(meas, scfg, sub.kernel.numpy(), tag="")
    else:
      sub.scale.assign(weights[k][1])
      kfl_measure(meas, scfg, sub.kernel.numpy(), sub.scale.numpy())
  raised, msg = call_assert(layer, eps, case)
  judge(out, case, meas, eps, raised, msg, layer="rtl",
        units_gt1=len(subs) > 1 or subs[0][1]["units"] > 1)
  return out
