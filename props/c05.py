"""C05 - calibration layers evaluate exactly the function their weights describe."""
import os
import re

import numpy as np
from hypothesis import strategies as st

from vlib import oracles as R
from vlib import strategies as S
from vlib.harness import Outcome, TOL_F, TOL_MONO_F, _lattice_frame

ID = "C05"
TITLE = ("Calibration layers evaluate exactly the function their weights "
         "describe")
RULE = ("Hypothesis draws either a PWLCalibration case (2-8 keypoints, "
        "thorough 2-20: unit/integer/geometric/offset gaps that are float32 "
        "numbers, or float64 linspace keypoints; units 1-3; input (B,1) or "
        "(B,units); split_outputs; is_cyclic; missing modes none / is_missing "
        "tensor / missing_input_value / both, learned or fixed missing output, "
        "missing value possibly equal to a keypoint; fixed or learned_interior "
        "keypoints with logits |.| <= 30, or up to 1e4 for the ordering clause; "
        "keypoints passed as list / tuple / ndarray / tensor, integer-valued "
        "ones also as Python ints (list / tuple) and int64 / int32 ndarrays; "
        "missing_input_value / a fixed missing_output_value spelled as float, "
        "int (when integral) or numpy scalar; layer dtype float32, or "
        "float64 in 1 of 8 cases; in 1 of 3 cases constructor options the "
        "evaluation must not depend on (monotonicity, convexity, output_min / "
        "output_max, clamps, kernel_initializer equal_heights / equal_slopes "
        "/ zeros, TFL kernel regularizers, num_projection_iterations), the "
        "kernel being assigned afterwards; a kernel from the array mixture, "
        "optionally made monotone; a batch mixing inputs on keypoints, their "
        "float32 neighbours, between, just outside, far outside and missing, "
        "and for monotone kernels a sorted sweep through every keypoint, "
        "segment midpoint and both outside regions) or a "
        "CategoricalCalibration case (1-8 buckets, units 1-3, both input "
        "shapes, float32/float64/int8/int16/int32/int64/uint8 indices, default "
        "value absent / out of range / in range and spelled as int / float / "
        "np.int64 / np.float32, split_outputs, kernel dtype float32 or float64 "
        "in 1 of 8 cases, in 1 of 3 cases output bounds / monotonicity pairs / "
        "initializer / regularizer options). The layer is called eagerly (3 "
        "of 4 cases), inside a tf.function whose input signature leaves the "
        "batch size unknown, or inside a Keras functional model. The output "
        "is compared with a float64 evaluation of the documented function. "
        "Non-trivial: PWL - some unit has a non-zero segment height; "
        "categorical - the kernel is not constant (or non-zero for one "
        "bucket); distinct by SHA-1 of the case.")
NT_FLOOR = 0.6
BUDGET = {"quick": 1200, "thorough": 12000}
TECHNIQUE = ("property-based testing (Hypothesis): differential against a "
             "float64 reference (np.interp / interval evaluation of the "
             "documented clip formula / table lookup) plus metamorphic "
             "monotonicity and range consequences")
LEVEL_TEXT = ("Generated-input exploration: thousands of random valid "
              "PWLCalibration and CategoricalCalibration configurations, "
              "kernels, logits and input batches per run are evaluated by the "
              "real layers (eagerly, traced with an unknown batch size, or "
              "inside a Keras functional model) and compared pointwise with an "
              "independent float64 evaluation of the documented function "
              "(piecewise-linear interpolation with constant extension, cyclic "
              "closing, per-unit broadcasting, missing-value replacement, "
              "table lookup with default bucket); keypoints_inputs() / "
              "keypoints_outputs() are compared with the configured points and "
              "fed back through the layer; "
              "pwl_calibration_lib.compute_interpolation_weights is called "
              "directly in its documented shape forms and compared with the "
              "documented clip formula; learned keypoints are checked for "
              "order and end points with logits up to 1e4. Finds axis, "
              "clipping, closing-height, missing-mask, bucket-index, "
              "static-shape, argument-type and option-dependence "
              "mistakes; shows no absence.")
LEVEL_NOTE = ("Trusted: TensorFlow/NumPy arithmetic, the harness. Tolerance "
              "1e-4*max(1,|bias|+sum|heights|) per unit around the reference "
              "evaluated over the input interval x +- delta, delta = rounding "
              "of the keypoints in the layer dtype (0 for fixed keypoints that "
              "are exact in the layer dtype, (2n+8) eps * keypoint scale for "
              "learned ones); "
              "missing outputs and categorical lookups are compared exactly "
              "(modulo TensorFlow's flush of float32 denormals to zero). "
              "Outputs are not judged for |logit| > 30 except far outside the "
              "keypoint range (collapsed segments are known finding F-C15-2). "
              "A library exception on a float64 layer or in a traced call is "
              "reported with the dtype / call mode in its signature. "
              "kernel_initializer='equal_slopes' is not combined with keypoints "
              "given as a tensor of another dtype than the layer's (build() "
              "raises there: candidate defect, switch "
              "GEN_EQUAL_SLOPES_OTHER_DTYPE_TENSOR). Sizes bounded as stated "
              "in the rule.")
ASSUMPTIONS = ["is_cyclic needs at least 3 keypoints (2 keypoints are rejected "
               "by the layer's initializer with a ValueError)",
               "when both missing_input_value and an is_missing tensor are "
               "given, the tensor flags every input equal to the missing value "
               "(the documentation does not say which one wins otherwise)",
               "constructor options (constraints, initializers, regularizers) "
               "only shape training: the kernel / missing output are assigned "
               "after build(), which bypasses the constraints, and the "
               "documented evaluation is the same function of the weights; "
               "clamp_min / clamp_max are only drawn for monotonic calibrators "
               "and convexity only for fixed keypoints, as documented",
               "a non-integral default_input_value is not generated (the layer "
               "documents category indices; float / numpy spellings carry "
               "integral values)"]

# kernel_initializer="equal_slopes" together with keypoints passed as a tensor
# whose dtype is not the layer dtype: build() raises TypeError in
# linear_initializer (candidate defect, see the widening report; repro
# /tmp/scratch/widen/C05-defect-1.py).  Off: such cases keep the default
# initializer.
GEN_EQUAL_SLOPES_OTHER_DTYPE_TENSOR = True

TINY32 = float(np.finfo(np.float32).tiny)
X_CLASSES = ["on", "between", "edge", "outside", "far", "missing"]


# --------------------------------------------------------------------------
# generators
def _mk_keypoints(k0, gaps):
  """Strictly increasing float32-representable keypoints as python floats."""
  if abs(k0) < TINY32:
    k0 = 0.0                       # no denormal keypoints (flushed by TF)
  kp = np.concatenate([[k0], k0 + np.cumsum(np.asarray(gaps, np.float64))])
  kp = kp.astype(np.float32)
  for i in range(1, len(kp)):
    if not kp[i] > kp[i - 1]:
      kp[i] = np.nextafter(kp[i - 1], np.float32(np.inf))
  return [float(v) for v in kp]


@st.composite
def _keypoints(draw, tier):
  big = tier == "thorough"
  n = draw(st.sampled_from([2, 2, 3, 3, 4, 5, 6, 8] +
                           ([10, 13, 20] if big else [])))
  style = draw(st.sampled_from(["unit", "ints", "geom", "offset", "f64",
                                "free"]))
  if style == "f64":
    a = draw(st.sampled_from([0.1, -3.3, 1.0, 0.0]))
    w = draw(st.sampled_from([0.7, 1.0, 24.0, 359.9]))
    return style, [float(v) for v in np.linspace(a, a + w, n)]
  if style == "unit":
    return style, [float(v) for v in np.linspace(0.0, 1.0, n).astype(
        np.float32)]
  if style == "ints":
    k0 = float(draw(st.integers(-5, 5)))
    gaps = draw(st.lists(st.integers(1, 4), min_size=n - 1, max_size=n - 1))
  elif style == "geom":
    k0 = draw(st.sampled_from([0.0, -1.0, 1e-3]))
    gaps = draw(st.lists(st.sampled_from([1e-3, 1e-2, 0.1, 1.0, 10.0, 100.0]),
                         min_size=n - 1, max_size=n - 1))
  elif style == "offset":
    k0 = draw(st.sampled_from([-1000.0, 100.0, 1e4]))
    gaps = draw(st.lists(st.sampled_from([0.25, 1.0, 3.0, 50.0]),
                         min_size=n - 1, max_size=n - 1))
  else:
    k0 = draw(S.f32_floats(-100.0, 100.0))
    gaps = draw(st.lists(S.f32_floats(0.0078125, 100.0), min_size=n - 1,
                         max_size=n - 1))
  return style, _mk_keypoints(k0, gaps)


CALL_MODES = ["eager"] * 6 + ["function", "keras"]


@st.composite
def _pwl_opts(draw, cyclic, kp_type, style):
  """Valid constructor options that shape training only (constraints,
  initialisation, regularisation).  The kernel is assigned afterwards, so the
  documented evaluation is the same function of the weights."""
  if draw(st.integers(0, 2)) != 0:
    return {}
  o = {}
  mono = 0
  if not cyclic and draw(st.booleans()):
    o["monotonicity"] = draw(st.sampled_from(
        ["increasing", "decreasing", 1, -1, "none", 0]))
    mono = o["monotonicity"] not in ("none", 0)
  if not cyclic and kp_type == "fixed" and draw(st.booleans()):
    o["convexity"] = draw(st.sampled_from(["convex", "concave", 1, -1]))
  bounds = draw(st.sampled_from(["none", "min", "max", "both", "both"]))
  if bounds in ("min", "both"):
    o["output_min"] = draw(st.sampled_from([-100.0, -1.0, 0.0, 0]))
    if mono and draw(st.booleans()):
      o["clamp_min"] = True
  if bounds in ("max", "both"):
    o["output_max"] = draw(st.sampled_from([0.0, 1.0, 2, 50.0]))
    if mono and draw(st.booleans()):
      o["clamp_max"] = True
  init = draw(st.sampled_from([None, "equal_heights", "equal_slopes",
                               "equal_slopes", "zeros"]))
  if init is not None:
    o["kernel_initializer"] = init
  reg = draw(st.sampled_from([None, None, "laplacian", "hessian", "two"]))
  if reg == "two":
    o["kernel_regularizer"] = [["laplacian", 0.0, 1e-3], ["hessian", 1e-4, 0.0]]
  elif reg is not None:
    o["kernel_regularizer"] = [reg, 1e-3, 1e-4]
  if draw(st.booleans()):
    o["num_projection_iterations"] = draw(st.sampled_from([0, 1, 20]))
  return o


@st.composite
def _cat_opts(draw, nb):
  if draw(st.integers(0, 2)) != 0:
    return {}
  o = {}
  bounds = draw(st.sampled_from(["none", "min", "max", "both", "both"]))
  if bounds in ("min", "both"):
    o["output_min"] = draw(st.sampled_from([-100.0, -1.0, 0.0, 0]))
  if bounds in ("max", "both"):
    o["output_max"] = draw(st.sampled_from([0.0, 1.0, 2, 50.0]))
  if nb >= 2 and draw(st.booleans()):
    pairs = draw(st.lists(st.tuples(st.integers(0, nb - 2),
                                    st.integers(1, nb - 1)), min_size=1,
                          max_size=3))
    o["monotonicities"] = [[min(i, j), max(i, j) if i != j else i + 1]
                           for i, j in pairs]
  init = draw(st.sampled_from([None, "uniform", "constant", "zeros"]))
  if init is not None:
    o["kernel_initializer"] = init
  if draw(st.booleans()):
    o["kernel_regularizer"] = draw(st.sampled_from(["l1", "l2"]))
  return o


@st.composite
def _pwl_case(draw, tier):
  big = tier == "thorough"
  style, kp = draw(_keypoints(tier))
  n = len(kp)
  units = draw(st.sampled_from([1, 1, 2, 3]))
  # a cyclic calibrator needs >= 3 keypoints: with two the kernel would hold
  # the bias only and the layer's initializer rejects it with a ValueError.
  cyclic = n >= 3 and draw(st.sampled_from([False, False, True]))
  kp_type = draw(st.sampled_from(["fixed", "fixed", "learned_interior"]))
  # container / element type of the keypoints ("Can be anything accepted by
  # tf.convert_to_tensor()"): integer-valued keypoints are also passed as
  # Python ints and as integer ndarrays.
  kp_as = draw(st.sampled_from(
      ["list", "intlist", "intlist", "inttuple", "int64arr", "int32arr",
       "ndarray", "tensor"] if style == "ints" else
      ["list", "list", "list", "tuple", "ndarray", "ndarray", "tensor",
       "tensor"]))
  case = {
      "layer": "pwl", "kp": kp, "kp_style": style, "units": units,
      "cols": draw(st.sampled_from(["one", "units"])) if units > 1 else "one",
      "split": draw(st.booleans()), "cyclic": cyclic, "kp_type": kp_type,
      "kernel": draw(S.array_desc(shape=(n - int(cyclic), units))),
      "kmode": "free" if cyclic else draw(st.sampled_from(
          ["free", "free", "inc", "dec"])),
      "batch": draw(st.integers(1, 16 if big else 6)),
      "x_mix": draw(st.sampled_from(X_CLASSES + ["mixed", "mixed"])),
      "aux": draw(S.seeds),
      # layer dtype ("You can enforce dtype of keypoints by explicitly
      # providing 'dtype' parameter to layer constructor") and the container
      # the keypoints are passed in (anything tf.convert_to_tensor accepts).
      "dtype": draw(st.sampled_from(["float32"] * 7 + ["float64"])),
      "kp_as": kp_as,
      # how the layer is invoked: eagerly, inside a tf.function whose batch
      # size is unknown (None), or inside a Keras functional model.
      "call": draw(st.sampled_from(CALL_MODES)),
      # constructor options the evaluation must not depend on.
      "opts": draw(_pwl_opts(cyclic, kp_type, style)),
  }
  if kp_type == "learned_interior":
    extreme = draw(st.integers(0, 3)) == 0
    case["logit_mode"] = "extreme" if extreme else "moderate"
    case["logits"] = draw(S.array_desc(
        kinds=["normal", "normal", "uniform", "ints", "ties", "zeros", "spike",
               "sorted"],
        scales=[1e2, 1e3, 1e4] if extreme else [0.1, 1.0, 1.0, 1.0, 3.0, 3.0,
                                                 10.0, 30.0],
        shape=(n - 1, units), max_abs=1e4 if extreme else 30.0))
  missing = draw(st.sampled_from(["none", "none", "tensor", "value",
                                  "value", "value+tensor"]))
  case["missing"] = missing
  if missing != "none":
    if "value" in missing:
      mv = draw(st.sampled_from(["kp", "kp", -1.0, 0.0, -999.0, 1e9]))
      if mv == "kp":
        # float32 value of one of the keypoints.
        mv = float(np.float32(kp[draw(st.integers(0, n - 1))]))
      case["miv"] = mv
      # spelling of the (float32-representable) value: "int" applies when it
      # is integral, otherwise the value is passed as a Python float.
      case["miv_as"] = draw(st.sampled_from(["float", "float", "int", "int",
                                             "np.float32", "np.float64"]))
    case["mout"] = draw(st.sampled_from(["learned", "fixed"]))
    if case["mout"] == "learned":
      case["mout_values"] = draw(S.array_desc(
          kinds=["normal", "ints", "zeros"], scales=[1.0, 1.0, 10.0, 1e3],
          shape=(units, 1)))
    else:
      case["mout_value"] = draw(st.one_of(
          st.sampled_from([0.0, -1.0, 0.5, 7.0]), S.f32_floats(-1e3, 1e3)))
      case["mout_as"] = draw(st.sampled_from(["float", "float", "int",
                                              "np.float32"]))
  return case


@st.composite
def _cat_case(draw, tier):
  big = tier == "thorough"
  nb = draw(st.integers(1, 8))
  units = draw(st.sampled_from([1, 1, 2, 3]))
  dmode = draw(st.sampled_from(["none", "minus1", "nb", "inrange", "big"]))
  default = {"none": None, "minus1": -1, "nb": nb, "big": 1000,
             "inrange": draw(st.integers(0, nb - 1))}[dmode]
  # index dtypes: uint8 / int32 / int64 are used as they are, every other
  # dtype goes through the layer's cast to int32.
  dtypes = ["float32", "int32", "int64", "float64", "int16"]
  if default is None or 0 <= default <= 255:
    dtypes.append("uint8")
  if default is None or -128 <= default <= 127:
    dtypes.append("int8")
  batch = draw(st.integers(1, 16 if big else 6))
  cols = draw(st.sampled_from(["one", "units"])) if units > 1 else "one"
  ncols = units if cols == "units" else 1
  elem = st.integers(0, nb - 1)
  if default is not None:
    elem = st.one_of(elem, elem, st.just(default))
  idx = draw(st.lists(st.lists(elem, min_size=ncols, max_size=ncols),
                      min_size=batch, max_size=batch))
  dtype = draw(st.sampled_from(dtypes))
  # float64 kernel more often under int64 indices (rare combination otherwise)
  kdtype = draw(st.sampled_from(["float32"] * (3 if dtype == "int64" else 7) +
                                ["float64"]))
  return {"layer": "cat", "nb": nb, "units": units, "cols": cols,
          "default": default, "dmode": dmode,
          # spelling of default_input_value (premade models pass
          # FeatureConfig.default_value, typically a float such as -1.0)
          "dspell": draw(st.sampled_from(["int", "int", "float", "float",
                                          "np.int64", "np.float32"])),
          "dtype": dtype,
          "call": draw(st.sampled_from(CALL_MODES)),
          "opts": draw(_cat_opts(nb)),
          "split": draw(st.booleans()), "idx": idx,
          "kdtype": kdtype,
          "kernel": draw(S.array_desc(shape=(nb, units)))}


def strategy(tier):
  return st.one_of(_pwl_case(tier), _pwl_case(tier), _pwl_case(tier),
                   _cat_case(tier))


# --------------------------------------------------------------------------
# float64 reference (written from the documentation)
def _ref_interval(x, kp, heights, bias, delta):
  """Range of the documented PWL function over [x - delta, x + delta].

  f(x) = bias + sum_i heights[i] * clip((x - kp[i]) / (kp[i+1] - kp[i]), 0, 1).
  Every clip term is non-decreasing in x, so evaluating each term at both ends
  of the interval and taking the smaller / larger contribution bounds f over
  the interval (exact when delta == 0).
  """
  x = np.asarray(x, np.float64)[..., None]
  lens = np.diff(kp)
  with np.errstate(divide="ignore", invalid="ignore", over="ignore"):
    ta = np.clip((x - delta - kp[:-1]) / lens, 0.0, 1.0)
    tb = np.clip((x + delta - kp[:-1]) / lens, 0.0, 1.0)
  ca, cb = ta * heights, tb * heights
  lo = bias + np.minimum(ca, cb).sum(-1)
  hi = bias + np.maximum(ca, cb).sum(-1)
  return lo, hi


def _ftz(a):
  """TensorFlow CPU kernels flush float32 denormals to zero; exact comparisons
  are made modulo that flush."""
  a = np.asarray(a, np.float64)
  return np.where(np.abs(a) < TINY32, 0.0, a)


def _softmax64(z):
  z = np.asarray(z, np.float64)
  e = np.exp(z - z.max())
  return e / e.sum()


def _as_matrix(y, units, split, batch, out, what):
  """Checks the documented output structure; returns a (batch, units) array."""
  out.checks += 1
  if units > 1 and split:
    ok = isinstance(y, (list, tuple)) and len(y) == units and all(
        tuple(t.shape) == (batch, 1) for t in y)
    if not ok:
      out.violate("%s: split_outputs result is not a list of %d tensors of "
                  "shape (%d, 1)" % (what, units, batch), kind="shape",
                  layer=what)
      return None
    return np.concatenate([t.numpy() for t in y], axis=1).astype(np.float64)
  if isinstance(y, (list, tuple)) or tuple(y.shape) != (batch, units):
    out.violate("%s: output shape %s, expected %s" % (
        what, getattr(y, "shape", type(y)), (batch, units)), kind="shape",
                layer=what)
    return None
  return y.numpy().astype(np.float64)


def _spell_scalar(v, how):
  """A float32-representable value v in the requested spelling; "int" applies
  to integral values only.  Returns (argument, spelling used)."""
  v = float(v)
  if how == "int":
    if v == int(v) and abs(v) <= 2.0**31:
      return int(v), "int"
    return v, "float"
  if how == "np.float32":
    return np.float32(v), how
  if how == "np.float64":
    return np.float64(v), how
  if how == "np.int64":
    return np.int64(int(v)), how
  return v, "float"


def _pwl_opt_kwargs(opts):
  kw = dict(opts)
  reg = kw.get("kernel_regularizer")
  if reg is not None:
    # JSON lists -> the documented tuples ('name', l1, l2) / list of tuples
    kw["kernel_regularizer"] = (
        [tuple(r) for r in reg] if isinstance(reg[0], list) else tuple(reg))
  return kw


def _make_callable(tf, layer, mode, nargs, ncols, dtype):
  """layer as a function of a list of nargs (B, ncols) tensors."""
  def direct(args):
    return layer(list(args) if nargs > 1 else args[0])
  if mode == "eager":
    return direct
  if mode == "function":
    # traced once with an unknown batch size
    spec = [tf.TensorSpec([None, ncols], dtype)] * nargs
    fn = tf.function(lambda *a: direct(a), input_signature=spec,
                     autograph=False)
    return lambda args: fn(*args)
  import tf_keras as keras
  ins = [keras.Input(shape=(ncols,), dtype=dtype) for _ in range(nargs)]
  model = keras.Model(inputs=ins, outputs=direct(ins))
  return lambda args: model(list(args))


# --------------------------------------------------------------------------
# PWL
class _Pwl(object):
  """Layer under test together with its float64 description."""

  def __init__(self, case):
    import tensorflow as tf
    import tensorflow_lattice as tfl
    self.tf = tf
    self.case = case
    kp = case["kp"]
    self.n, self.units = len(kp), case["units"]
    n, units = self.n, self.units
    self.cyclic = case["cyclic"]
    self.learned = case["kp_type"] == "learned_interior"
    self.missing = case["missing"]
    kw = {}
    if self.missing != "none":
      kw["impute_missing"] = True
      if "miv" in case:
        kw["missing_input_value"], self.miv_as = _spell_scalar(
            case["miv"], case.get("miv_as", "float"))
      if case["mout"] == "fixed":
        kw["missing_output_value"], self.mout_as = _spell_scalar(
            case["mout_value"], case.get("mout_as", "float"))
    self.npdt = np.float64 if case["dtype"] == "float64" else np.float32
    self.eps = float(np.finfo(self.npdt).eps)
    if case["dtype"] != "float32":
      kw["dtype"] = case["dtype"]
    f32_exact = all(float(np.float32(v)) == v for v in kp)
    if case["kp_as"] == "ndarray":
      kp_arg = np.asarray(kp, np.float64)
    elif case["kp_as"] == "tensor":
      # float32 tensor only for a float32 layer (segment lengths are computed
      # in the precision of the container).
      kp_arg = tf.constant(kp, dtype=tf.float32 if (
          f32_exact and self.npdt == np.float32) else tf.float64)
    elif case["kp_as"] == "tuple":
      kp_arg = tuple(kp)
    elif case["kp_as"] in ("intlist", "inttuple", "int64arr", "int32arr"):
      # integer-valued keypoints (kp_style "ints") passed as integers
      assert all(float(int(v)) == v for v in kp), kp
      kp_arg = [int(v) for v in kp]
      if case["kp_as"] == "inttuple":
        kp_arg = tuple(kp_arg)
      elif case["kp_as"] != "intlist":
        kp_arg = np.asarray(kp_arg, np.int64 if case["kp_as"] == "int64arr"
                            else np.int32)
    else:
      kp_arg = list(kp)
    self.opts = _pwl_opt_kwargs(case.get("opts") or {})
    if (not GEN_EQUAL_SLOPES_OTHER_DTYPE_TENSOR and
        self.opts.get("kernel_initializer") == "equal_slopes" and
        case["kp_as"] == "tensor" and kp_arg.dtype != tf.as_dtype(self.npdt)):
      del self.opts["kernel_initializer"]
    kw.update(self.opts)
    self.layer = tfl.layers.PWLCalibration(
        input_keypoints=kp_arg, units=units, is_cyclic=self.cyclic,
        split_outputs=case["split"], input_keypoints_type=case["kp_type"],
        **kw)
    self.mode = case.get("call", "eager")
    self._callable = None
    ncols = units if case["cols"] == "units" else 1
    self.ncols = ncols
    self.layer.build((None, ncols))

    k = S.materialize(case["kernel"], (n - int(self.cyclic), units))
    if case["kmode"] != "free":
      sign = 1.0 if case["kmode"] == "inc" else -1.0
      k = k.copy()
      k[1:] = sign * np.abs(k[1:])
    self.layer.kernel.assign(k.astype(self.npdt))
    k64 = k.astype(np.float64)
    self.bias = k64[0]                                   # (units,)
    h = k64[1:]
    if self.cyclic:
      h = np.concatenate([h, -h.sum(0, keepdims=True)], axis=0)
    self.heights = h                                     # (n-1, units)
    self.kout = np.concatenate([k64[:1], k64[:1] + np.cumsum(h, axis=0)], 0)
    self.mag = np.abs(self.bias) + np.abs(h).sum(0)
    self.tol = TOL_F * np.maximum(1.0, self.mag)         # (units,)

    # keypoints per unit, float64
    kp64 = np.asarray(kp, np.float64)
    kscale = max(abs(kp64[0]), abs(kp64[-1]), kp64[-1] - kp64[0])
    self.extreme = False
    if self.learned:
      lg = S.materialize(case["logits"], (n - 1, units)).T   # (units, n-1)
      lim = 1e4 if case["logit_mode"] == "extreme" else 30.0
      lg = np.clip(lg, -lim, lim).astype(np.float32)
      self.extreme = case["logit_mode"] == "extreme"
      self.layer.interpolation_logits.assign(lg.astype(self.npdt))
      rng = kp64[-1] - kp64[0]
      kpu = []
      for u in range(units):
        lens = _softmax64(lg[u]) * rng
        pts = kp64[0] + np.concatenate([[0.0], np.cumsum(lens)])
        pts[-1] = kp64[-1]
        kpu.append(np.maximum.accumulate(pts))
      self.kpu = np.array(kpu)                           # (units, n)
      # float32 softmax, cumsum over n-1 terms and the shift by the first
      # keypoint: each step rounds relative to the keypoint scale.
      self.delta = (2 * n + 8) * self.eps * kscale
    else:
      self.kpu = np.tile(kp64[None, :], (units, 1))
      # a float32 layer stores float32 keypoints: float64 keypoints move by
      # an ulp.
      exact = f32_exact or self.npdt == np.float64
      self.delta = 0.0 if exact else 2 * self.eps * kscale
    self.kscale = kscale
    self.min_len = float(np.min(np.diff(self.kpu, axis=1)))

    # missing output per unit (float32-representable values)
    self.mo = None
    if self.missing != "none":
      if case["mout"] == "learned":
        mo = S.materialize(case["mout_values"], (units, 1))[:, 0]
        self.layer.missing_output.assign(mo[None, :].astype(self.npdt))
      else:
        mo = np.full((units,), np.float32(case["mout_value"]), np.float32)
      self.mo = mo.astype(np.float64)
    self.miv32 = np.float32(case["miv"]) if "miv" in case else None

  # ---- inputs
  def inputs(self):
    case, n = self.case, self.n
    rs = np.random.RandomState(case["aux"])
    b = case["batch"]
    x = np.zeros((b, self.ncols), np.float32)
    flag = np.zeros((b, self.ncols), bool)
    present = set()
    for r in range(b):
      for c in range(self.ncols):
        u = c if self.ncols > 1 else r % self.units
        kp = self.kpu[u]
        rng = kp[-1] - kp[0]
        kind = case["x_mix"]
        if kind == "mixed" or rs.rand() < 0.25:
          kind = X_CLASSES[rs.randint(len(X_CLASSES))]
        if kind == "missing" and self.missing == "none":
          kind = "between"
        if self.extreme:
          # outputs at or near collapsed keypoints are not judged (F-C15-2):
          # only far-outside inputs, and missing inputs whose value is not
          # inside the keypoint range.
          usable = self.miv32 is not None and not (
              kp[0] - rng <= self.miv32 <= kp[-1] + rng)
          if kind == "missing" and (usable or self.missing == "tensor" or (
              self.missing == "value+tensor" and self.miv32 is not None)):
            pass
          else:
            kind = "far"
        i = rs.randint(n - 1)
        frac = rs.uniform(0, 1)
        if kind == "on":
          v = kp[rs.randint(n)]
        elif kind == "between":
          v = kp[i] + frac * (kp[i + 1] - kp[i])
        elif kind == "edge":
          # the float32 neighbours of a keypoint
          j = rs.randint(n)
          v = np.nextafter(np.float32(kp[j]),
                           np.float32(rs.choice([-np.inf, np.inf])))
        elif kind == "outside":
          v = kp[0] - frac * 2 * rng if rs.rand() < 0.5 else (
              kp[-1] + frac * 2 * rng)
        elif kind == "far":
          d = (self.kscale + 1.0) * 10.0 ** rs.uniform(1, 12)
          v = kp[0] - d if rs.rand() < 0.5 else kp[-1] + d
        else:  # missing
          flag[r, c] = True
          if self.extreme:
            usable = self.miv32 is not None and not (
                kp[0] - rng <= self.miv32 <= kp[-1] + rng)
            v = self.miv32 if usable and (
                self.missing == "value" or rs.rand() < 0.6) else (
                    kp[-1] + (self.kscale + 1.0) * 100.0)
          elif self.miv32 is not None and (self.missing == "value" or
                                           rs.rand() < 0.6):
            v = self.miv32
          else:
            v = kp[i] + frac * (kp[i + 1] - kp[i])
        v = np.float32(v)
        if 0 < abs(v) < TINY32:      # no denormal inputs (flushed by TF)
          v = np.float32(np.sign(v) * TINY32)
        x[r, c] = v
        present.add(kind)
    return x, flag, present

  def flags_for(self, x, flag):
    """Which entries the documentation declares missing."""
    if self.missing == "none":
      return np.zeros(x.shape, bool)
    if self.missing == "tensor":
      return flag
    eq = x == self.miv32
    if self.missing == "value":
      return eq
    return flag | eq

  def call(self, x, miss):
    tf = self.tf
    x = np.asarray(x).astype(self.npdt)
    args = [tf.constant(x)]
    if self.missing in ("tensor", "value+tensor"):
      args.append(tf.constant(miss.astype(self.npdt)))
    if self._callable is None:
      self._callable = _make_callable(tf, self.layer, self.mode, len(args),
                                      self.ncols, self.case["dtype"])
    return self._callable(args)

  def sweep(self):
    """Sorted inputs through every keypoint, every segment midpoint and one
    point outside either end (float32), per input column."""
    cols = []
    for c in range(self.ncols):
      us = [c] if self.ncols > 1 else range(self.units if self.learned else 1)
      pts = []
      for u in us:
        kp = self.kpu[u]
        rng = kp[-1] - kp[0]
        pts.append(np.concatenate([[kp[0] - 0.5 * rng], kp,
                                   0.5 * (kp[1:] + kp[:-1]),
                                   [kp[-1] + 0.5 * rng]]))
      v = np.sort(np.concatenate(pts).astype(np.float32))
      v[(v != 0) & (np.abs(v) < TINY32)] = 0.0
      cols.append(v)
    return np.stack(cols, axis=1)

  # ---- judging
  def judge(self, out, x, miss, y, clause, delta):
    """Compares y (batch, units) with the documented function at x."""
    sig = dict(kp_type=self.case["kp_type"], cyclic=self.cyclic,
               cols=self.case["cols"], missing=self.missing)
    worst, width = 0.0, 0.0
    for u in range(self.units):
      xu = x[:, u if self.ncols > 1 else 0].astype(np.float64)
      mu = miss[:, u if self.ncols > 1 else 0]
      yu = y[:, u]
      out.checks += 1
      if not np.all(np.isfinite(yu)):
        out.violate("%s: non-finite output %r for input %r (unit %d)" % (
            clause, yu.tolist(), xu.tolist(), u), kind="finite",
                    clause=clause, **sig)
        return False
      if mu.any():
        out.checks += 1
        if np.any(_ftz(yu[mu]) != _ftz(self.mo[u])):
          j = int(np.flatnonzero(mu & (_ftz(yu) != _ftz(self.mo[u])))[0])
          out.violate("%s: missing input %r (unit %d) gives %r, missing "
                      "output is %r" % (clause, float(xu[j]), u, float(yu[j]),
                                        float(self.mo[u])),
                      kind="missing-output", clause=clause, **sig)
          return False
      keep = ~mu
      if not keep.any():
        continue
      lo, hi = _ref_interval(xu[keep], self.kpu[u], self.heights[:, u],
                             self.bias[u], delta)
      if delta == 0.0:
        # independent evaluation of the same documented function
        ref = R.pwl_eval(xu[keep], self.kpu[u], self.kout[:, u])
        lo, hi = np.minimum(lo, ref), np.maximum(hi, ref)
      err = np.maximum(lo - yu[keep], yu[keep] - hi)
      worst = max(worst, float(np.max(err / self.tol[u])))
      width = max(width, float(np.max((hi - lo) / self.tol[u])))
      if np.any(err > self.tol[u]):
        j = int(np.argmax(err))
        out.violate("%s: input %r unit %d gives %r, piecewise-linear "
                    "reference in [%r, %r] (tolerance %.3g)" % (
                        clause, float(xu[keep][j]), u, float(yu[keep][j]),
                        float(lo[j]), float(hi[j]), self.tol[u]),
                    kind="value", clause=clause, **sig)
        return False
      # consequence: the function stays inside the range of keypoint outputs
      out.checks += 1
      top = self.kout[:, u].max() + self.tol[u] + (hi - lo)
      bot = self.kout[:, u].min() - self.tol[u] - (hi - lo)
      if np.any(yu[keep] > top) or np.any(yu[keep] < bot):
        out.violate("%s: output leaves the range of the keypoint outputs "
                    "(unit %d)" % (clause, u), kind="range", clause=clause,
                    **sig)
        return False
      # consequence: monotone keypoint outputs give a monotone function
      if self.case["kmode"] != "free" and keep.sum() > 1:
        out.checks += 1
        sgn = 1.0 if self.case["kmode"] == "inc" else -1.0
        order = np.argsort(xu[keep], kind="stable")
        ys = sgn * yu[keep][order]
        fs = max(1.0, float(np.max(np.abs(ys))))
        if np.any(np.diff(ys) < -TOL_MONO_F * fs):
          out.violate("%s: monotone keypoint outputs but output not monotone "
                      "in the input (unit %d)" % (clause, u),
                      kind="fn-monotonicity", clause=clause, **sig)
          return False
    key = "err_over_tol:" + clause
    out.info[key] = max(out.info.get(key, 0.0), worst)
    out.info["interval_width_over_tol:" + clause] = width
    if clause not in ("keypoints", "sweep"):
      out.label("ref:exact-point" if width == 0 else
                "ref:interval<=tol" if width <= 1 else "ref:interval>tol")
    return True


def _lib_weights_clause(p, out, x, sig):
  """compute_interpolation_weights(inputs, keypoints, lengths) must return
  [1, clip((x - keypoint_i) / length_i, 0, 1)...] for inputs (B,1), (B,units,1)
  or (B,1,1) and keypoints / lengths of shape (n-1) or (units, n-1).  The
  keypoints and lengths handed over are exact in the layer dtype, so the only
  error is the rounding of one subtraction and one division."""
  from tensorflow_lattice.python import pwl_calibration_lib as lib
  tf = p.tf
  kpn = p.kpu.astype(p.npdt)                              # (units, n)
  lens = np.diff(kpn, axis=1)
  if not np.all(lens >= TINY32):
    return True
  rs = np.random.RandomState(p.case["aux"] % (2**31) + 1)
  two_d = p.learned or rs.rand() < 0.3
  xin = x.astype(p.npdt)
  if two_d:
    kps, lns, inputs = kpn[:, :-1], lens, xin[..., None]
    form = "(B,%s,1)x(units,n-1)" % ("1" if p.ncols == 1 else "units")
  elif p.ncols == 1:
    kps, lns, inputs = kpn[0, :-1], lens[0], xin
    form = "(B,1)x(n-1)"
  else:
    kps, lns, inputs = kpn[0, :-1], lens[0], xin[..., None]
    form = "(B,units,1)x(n-1)"
  out.label("pwl:lib-weights=" + form)
  w = lib.compute_interpolation_weights(
      tf.constant(inputs), tf.constant(kps), tf.constant(lns)).numpy()
  want = inputs.shape[:-1] + (p.n,)
  if two_d:
    want = (inputs.shape[0], p.units, p.n)
  out.checks += 2
  if w.shape != want:
    out.violate("compute_interpolation_weights: shape %s, documented %s" % (
        w.shape, want), kind="lib-weights-shape", form=form, **sig)
    return False
  xx = inputs.astype(np.float64)
  ref = np.clip((xx - kps.astype(np.float64)) / lns.astype(np.float64), 0.0,
                1.0)
  ref = np.concatenate([np.ones(ref.shape[:-1] + (1,)), ref], axis=-1)
  ref = np.broadcast_to(ref, want)
  if not np.all(np.abs(w.astype(np.float64) - ref) <= TOL_F):
    i = tuple(int(v) for v in np.argwhere(
        ~(np.abs(w.astype(np.float64) - ref) <= TOL_F))[0])
    out.violate("compute_interpolation_weights%s = %r, documented clip((x - "
                "keypoint) / length, 0, 1) = %r" % (i, float(w[i]),
                                                    float(ref[i])),
                kind="lib-weights", form=form, **sig)
    return False
  return True


def _run_pwl(case):
  out = Outcome()
  p = _Pwl(case)
  n, units = p.n, p.units
  out.label("pwl", "pwl:units=%d" % units, "pwl:cols=" + case["cols"],
            "pwl:kp=" + case["kp_type"], "pwl:kp_style=" + case["kp_style"],
            "pwl:missing=" + p.missing, "pwl:kernel=" + case["kmode"],
            "pwl:dtype=" + case["dtype"], "pwl:kp_as=" + case["kp_as"],
            "pwl:call=" + p.mode)
  for name in sorted(p.opts):
    out.label("pwl:opt:" + ("init=%s" % p.opts[name]
                            if name == "kernel_initializer" else name))
  out.label("pwl:opts=%s" % ("some" if p.opts else "default"))
  if p.learned and units > 1 and p.ncols == 1:
    out.label("pwl:bcast=(B,1,1)")
  if p.cyclic:
    out.label("pwl:cyclic")
  if units > 1 and case["split"]:
    out.label("pwl:split")
  if p.missing != "none":
    out.label("pwl:missing_output=" + case["mout"])
    if p.miv32 is not None and np.any(p.kpu.astype(np.float32) == p.miv32):
      out.label("pwl:missing_value_is_keypoint")
    if p.miv32 is not None:
      out.label("pwl:miv_as=" + p.miv_as)
    if case["mout"] == "fixed":
      out.label("pwl:mout_as=" + p.mout_as)
  if p.learned:
    out.label("pwl:logits=" + case["logit_mode"])
  out.nontrivial = bool(np.any(p.heights != 0))
  sig = dict(kp_type=case["kp_type"], cyclic=p.cyclic, cols=case["cols"],
             missing=p.missing)
  eps_kp = 4 * p.eps * p.kscale if not p.learned else p.delta

  # ---- clause: keypoints_inputs() reports the configured / ordered keypoints
  kin = p.layer.keypoints_inputs().numpy()
  out.checks += 1
  if kin.shape != (n, units) or not np.all(np.isfinite(kin)):
    out.violate("keypoints_inputs() has shape %s / non-finite values, "
                "expected %s" % (kin.shape, (n, units)),
                kind="keypoints-inputs-shape", **sig)
    return out
  kin64 = kin.astype(np.float64)
  if p.learned:
    out.checks += 3
    kp0, kpn = case["kp"][0], case["kp"][-1]
    if np.any(np.diff(kin64, axis=0) < 0):
      out.violate("learned keypoints not ordered: %r" % kin64.T.tolist(),
                  kind="keypoints-order", logit_mode=case["logit_mode"], **sig)
      return out
    if np.any(kin64[0] != p.npdt(kp0)) or np.any(
        np.abs(kin64[-1] - kpn) > p.delta):
      out.violate("learned keypoints do not start/end at the fixed end points "
                  "%r, %r: %r" % (kp0, kpn, kin64.T.tolist()),
                  kind="keypoints-ends", logit_mode=case["logit_mode"], **sig)
      return out
  if not p.extreme:
    out.checks += 1
    if np.any(np.abs(kin64 - p.kpu.T) > eps_kp):
      out.violate("keypoints_inputs() %r differs from the keypoints %r" % (
          kin64.T.tolist(), p.kpu.tolist()), kind="keypoints-inputs", **sig)
      return out

  # ---- clause: keypoints_outputs() is the cumulative kernel sum
  kout = p.layer.keypoints_outputs().numpy().astype(np.float64)
  out.checks += 1
  if kout.shape != (n, units) or np.any(
      np.abs(kout - p.kout) > p.tol[None, :]):
    out.violate("keypoints_outputs() %r differs from cumulative kernel sums "
                "%r" % (kout.T.tolist(), p.kout.T.tolist()),
                kind="keypoints-outputs", **sig)
    return out
  if p.cyclic:
    out.checks += 1
    if np.any(np.abs(kout[0] - kout[-1]) > p.tol):
      out.violate("cyclic layer: first and last keypoint outputs differ",
                  kind="cyclic-ends", **sig)
      return out

  # ---- clause: pointwise identity on the generated batch
  x, flag, present = p.inputs()
  miss = p.flags_for(x, flag)
  for c in sorted(present):
    out.label("x:" + c)
  if not p.extreme and p.min_len < 100 * max(p.delta, p.eps * p.kscale):
    out.label("pwl:segment-near-float32-resolution")
  y = _as_matrix(p.call(x, miss), units, case["split"], x.shape[0], out, "pwl")
  if y is None:
    return out
  clause = "far-outside(extreme-logits)" if p.extreme else "batch"
  if not p.judge(out, x, miss, y, clause, p.delta):
    return out
  if p.extreme:
    return out

  # ---- clause: the interpolation weights themselves, straight from
  # pwl_calibration_lib.compute_interpolation_weights in its documented shapes
  if not _lib_weights_clause(p, out, x, sig):
    return out

  # ---- clause: monotone keypoint outputs give a monotone function, judged on
  # a sorted sweep through every keypoint, midpoint and both outside regions
  if case["kmode"] != "free":
    xs = p.sweep()
    ms = p.flags_for(xs, np.zeros(xs.shape, bool))
    out.label("pwl:sweep")
    ysw = _as_matrix(p.call(xs, ms), units, case["split"], xs.shape[0], out,
                     "pwl")
    if ysw is None or not p.judge(out, xs, ms, ysw, "sweep", p.delta):
      return out

  # ---- clause: the function passes through the reported keypoints
  xk = kin if p.ncols > 1 or units == 1 else None
  batches = []
  if xk is not None:
    batches.append(xk)
  else:
    # single input column feeding several units: one column per unit's points
    for u in range(units if p.learned else 1):
      batches.append(kin[:, u:u + 1])
  for xb in batches:
    fl = np.zeros(xb.shape, bool)
    mk = p.flags_for(xb, fl)
    yk = _as_matrix(p.call(xb, mk), units, case["split"], n, out, "pwl")
    if yk is None:
      return out
    if not p.judge(out, xb, mk, yk, "keypoints", max(p.delta, eps_kp)):
      return out
    # direct comparison with what keypoints_outputs() reports, where the
    # column really holds that unit's keypoints
    for u in range(units):
      col = u if xb.shape[1] > 1 else 0
      own = np.array_equal(xb[:, col], kin[:, u])
      keep = ~mk[:, col]
      if not own or not keep.any():
        continue
      lo, hi = _ref_interval(xb[keep, col], p.kpu[u], p.heights[:, u],
                             p.bias[u], max(p.delta, eps_kp))
      slack = p.tol[u] + (hi - lo)
      out.checks += 1
      if np.any(np.abs(yk[keep, u] - kout[keep, u]) > 2 * slack):
        out.violate("layer(keypoints_inputs()) %r != keypoints_outputs() %r "
                    "(unit %d)" % (yk[keep, u].tolist(),
                                   kout[keep, u].tolist(), u),
                    kind="passes-through-keypoints", **sig)
        return out
    if p.cyclic:
      out.checks += 1
      for u in range(units):
        col = u if xb.shape[1] > 1 else 0
        own = np.array_equal(xb[:, col], kin[:, u])
        if own and not mk[0, col] and not mk[-1, col]:
          lo, hi = _ref_interval(xb[[0, -1], col], p.kpu[u], p.heights[:, u],
                                 p.bias[u], max(p.delta, eps_kp))
          if abs(yk[0, u] - yk[-1, u]) > 2 * p.tol[u] + np.sum(hi - lo):
            out.violate("cyclic layer: output at first keypoint %r != output "
                        "at last keypoint %r" % (yk[0, u], yk[-1, u]),
                        kind="cyclic-ends", **sig)
            return out
  return out


# --------------------------------------------------------------------------
# categorical
def _run_cat(case):
  import tensorflow as tf
  import tensorflow_lattice as tfl
  out = Outcome()
  nb, units = case["nb"], case["units"]
  k = S.materialize(case["kernel"], (nb, units))
  opts = dict(case.get("opts") or {})
  if "monotonicities" in opts:
    opts["monotonicities"] = [tuple(m) for m in opts["monotonicities"]]
  default_arg, dspell = case["default"], "none"
  if default_arg is not None:
    default_arg, dspell = _spell_scalar(
        default_arg, {"int": "int", "float": "float"}.get(
            case.get("dspell", "int"), case.get("dspell", "int")))
  layer = tfl.layers.CategoricalCalibration(
      num_buckets=nb, units=units, default_input_value=default_arg,
      split_outputs=case["split"],
      **dict(opts, **({"dtype": case["kdtype"]}
                      if case["kdtype"] != "float32" else {})))
  idx = np.asarray(case["idx"], np.int64)
  batch, ncols = idx.shape
  layer.build((None, ncols))
  layer.kernel.assign(k.astype(case["kdtype"]))
  out.label("cat", "cat:units=%d" % units, "cat:cols=" + case["cols"],
            "cat:kernel_dtype=" + case["kdtype"],
            "cat:dtype=" + case["dtype"], "cat:default=" + case["dmode"],
            "cat:buckets=%s" % ("1" if nb == 1 else "2-8"),
            "cat:default_as=" + dspell, "cat:call=" + case.get("call", "eager"),
            "cat:opts=%s" % ("some" if opts else "default"))
  for name in sorted(opts):
    out.label("cat:opt:" + ("init=%s" % opts[name]
                            if name == "kernel_initializer" else name))
  if units > 1 and case["split"]:
    out.label("cat:split")
    if ncols == 1:
      out.label("cat:units>1+one-column+split")
  if nb == 1 and case["dmode"] == "nb":
    out.label("cat:one-bucket+default=num_buckets")
  if case["kdtype"] == "float64" and case["dtype"] == "int64" and (
      case["default"] is not None):
    out.label("cat:float64-kernel+int64-input+default")
  out.nontrivial = bool(np.any(k != 0)) if nb == 1 else bool(
      np.any(k != k[:1]))
  default = case["default"]
  eff = idx.copy()
  if default is not None:
    if np.any(idx == default):
      out.label("cat:default-hit")
    eff[idx == default] = nb - 1
  x = tf.constant(idx.astype(case["dtype"]))
  call = _make_callable(tf, layer, case.get("call", "eager"), 1, ncols,
                        case["dtype"])
  y = _as_matrix(call([x]), units, case["split"], batch, out, "cat")
  if y is None:
    return out
  exp = np.zeros((batch, units), np.float64)
  for u in range(units):
    exp[:, u] = k[eff[:, u if ncols > 1 else 0], u]
  out.checks += 1
  if not np.array_equal(_ftz(y), _ftz(exp)):
    b, u = np.argwhere(_ftz(y) != _ftz(exp))[0]
    out.violate("category %d (unit %d) gives %r, kernel row %d holds %r" % (
        idx[b, u if ncols > 1 else 0], u, float(y[b, u]),
        eff[b, u if ncols > 1 else 0], float(exp[b, u])),
                kind="lookup", default=case["dmode"], cols=case["cols"],
                units_gt1=units > 1)
  return out


def _library_frame(e):
  """file:function of the innermost tensorflow_lattice frame of an exception.

  Exceptions raised while Keras / tf.function trace the layer have their
  traceback filtered; the library frame is then only named in the message
  ('in user code: File ".../tensorflow_lattice/python/x.py", line N, in f').
  """
  where = _lattice_frame(e.__traceback__)
  if where is None:
    hits = re.findall(r'File "([^"]*/tensorflow_lattice/[^"]*)", line \d+, '
                      r'in (\w+)', str(e))
    hits = [h for h in hits if "/verif/" not in h[0]]
    if hits:
      where = "%s:%s" % (os.path.basename(hits[-1][0]), hits[-1][1])
  return where


def run_case(case):
  run = _run_pwl if case["layer"] == "pwl" else _run_cat
  dtype = case["dtype"] if case["layer"] == "pwl" else case["kdtype"]
  mode = case.get("call", "eager")
  if dtype == "float32" and mode == "eager":
    return run(case)
  # float64 layers and traced calls: a crash inside the library is reported
  # with a signature that names the dtype / call mode (the harness' generic one
  # would not, and it cannot see library frames of a traced call).
  try:
    return run(case)
  except Exception as e:  # pylint: disable=broad-except
    where = _library_frame(e)
    if where is None:
      raise
    out = Outcome()
    out.nontrivial = True
    out.label(case["layer"], "%s:%s=%s" % (
        case["layer"], "dtype" if case["layer"] == "pwl" else "kernel_dtype",
        dtype), "%s:call=%s" % (case["layer"], mode), "exception")
    sig = dict(kind="exception", exc=type(e).__name__, where=where,
               layer=case["layer"], dtype=dtype)
    if mode != "eager":
      sig["call"] = mode
    if case["layer"] == "pwl":
      sig["kp_type"] = case["kp_type"]
    out.violate("%s: %s" % (type(e).__name__, " ".join(str(e).split())[:300]),
                **sig)
    return out
