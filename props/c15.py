"""C15 - conditional calibration and CDF functions are bounded and monotone."""
import os
import re

import numpy as np
from hypothesis import strategies as st

from vlib import strategies as S
from vlib.harness import Outcome, TOL_F, TOL_MONO_F, _lattice_frame, scale_of

ID = "C15"
TITLE = ("Conditional calibration and CDF functions are bounded, monotone by "
         "construction")
RULE = ("Hypothesis draws one of three case kinds. pwl: a call of "
        "tfl.conditional_pwl_calibration.pwl_calibration_fn with 2-8 keypoints "
        "(thorough up to 12; 2 keypoints = keypoint_input_parameters=None), "
        "units 1-4, batch 1-4, every documented shape form of the two "
        "parameter tensors ((1,p) (B,p) (1,1,p) (B,1,p) (1,units,p) "
        "(B,units,p)), inputs (B,1) or (B,units), monotonicity none / "
        "increasing, clamp_min / clamp_max, is_cyclic, missing_input_value "
        "(also equal to a reference keypoint) with a given or a derived "
        "missing output, input ranges of width 1e-5 to 1e5 and output "
        "ranges (negative, wide, zero width), integral range bounds / missing "
        "input values as Python ints in 1 of 3 cases, and free-form parameters "
        "from 1e-3 to 1e6 in magnitude; parameters are constants, "
        "tf.Variables, or (exec graph_nb, half of the quick cases) arguments "
        "of an enclosing tf.function whose signature leaves the batch size "
        "of the inputs and of every per-example parameter tensor unknown; the "
        "function is evaluated on input pairs "
        "x <= x' (inside, far outside, on the end keypoints, on the float64 "
        "reference keypoints, equal to the missing value), on both end "
        "keypoints and just outside them; in 1 of 3 cases it is also called "
        "with return_derived_parameters=True. cdf_fn: "
        "tfl.conditional_cdf.cdf_fn with free-form "
        "location parameters, no / non-negative / exp-transformed scaling in "
        "the four documented broadcast shapes and in five more broadcastable "
        "shapes ((1,D,1,1), (1,1,1,1), scalar, (n,1), (u',)), activation, "
        "reduction and sparsity factor, the same three execution forms. "
        "cdf_layer: tfl.layers.CDF with an assigned free-form "
        "(or initial) kernel, the three input scaling types (learned weights "
        "are free-form values passed through the layer's own constraint) and "
        "the same options. Judged: output shape, finiteness, bounds, "
        "monotonicity over the pairs, clamp / cyclic values at the end "
        "keypoints, missing output; for the derived parameters: non-negative "
        "gaps summing to the input range, cumulative outputs inside the "
        "bounds, non-negative increments when increasing, clamped / cyclic "
        "end values. Non-trivial: pwl with a non-degenerate "
        "output range and a judged input inside the keypoint range; cdf with "
        "a pair that differs and an output that is not saturated at the same "
        "value; distinct by SHA-1 of the case.")
NT_FLOOR = 0.5
BUDGET = {"quick": 600, "thorough": 6000}
ASSUMPTIONS = [
    "the end-keypoint clauses (clamp_max, cyclic) are judged 4*K float32 "
    "spacings of max(|input_min|,|input_max|) outside keypoint_input_max "
    "with the plain tolerance, and exactly at keypoint_input_max with the "
    "tolerance plus the conditioning allowance of that input: the derived "
    "keypoints are float32 running sums, so the position of the last kink "
    "is only defined to (K+2) float32 spacings; the allowance is "
    "min(1, 2*(K+2) spacings / segment length) * |segment output increment| "
    "summed over the segments within that distance of the input, computed "
    "from float64 reference keypoints and increments (never from values "
    "returned by the function under test)",
    "four call forms are not generated because the unmodified library "
    "raises on them (candidate defects, switches GEN_NB_GIVEN_MOV_BATCH_KOP, "
    "GEN_INT_MOV, GEN_NB_CDF_SCALING, GEN_NUMPY_SCALAR_ARGS): a given "
    "missing_output_value together "
    "with per-example output parameters of unknown batch size (those "
    "parameters then keep a static batch size), an integer "
    "missing_output_value (passed as float), cdf_fn scaling parameters "
    "together with location parameters of unknown batch size (locations and "
    "scalings then keep a static batch size, the inputs do not), and numpy "
    "scalars as range bounds (numeric arguments are Python floats or ints)",
    "2-D keypoint_output_parameters ((1,p), (B,p)) are generated only for "
    "units == 1: for units > 1 the library deliberately raises ValueError "
    "('should be 3 dimensional when units > 1', expected by its own "
    "test_suite_raises) although the docstring lists those forms without "
    "that condition (switch GEN_OUT_2D_UNITS); the 3-D forms (1,1,p), "
    "(B,1,p), (1,units,p), (B,units,p) are generated for every units",
    "keypoint_input_min < keypoint_input_max strictly; all parameters, "
    "scalings and inputs are finite float32 with magnitude <= ~1e7, inputs "
    "are never subnormal (TensorFlow kernels flush them to zero); the "
    "argument of the exp scaling transform stays within +-60 so that the "
    "derived scale is finite",
    "CDF monotonicity is claimed for non-negative input scaling only: learned "
    "scaling weights are passed through the layer's own NonNeg constraint, "
    "unconstrained (input_scaling_monotonicity='none') layers get |weights|",
    "a NaN at an input equal to a derived keypoint whose derived float32 gap "
    "is exactly 0.0 is reported under the signature "
    "kind='nan-collapsed-keypoint' (known finding F-C15-2)"]

# Lead-decidable switches (see ASSUMPTIONS).
GEN_OUT_2D_UNITS = False
# Candidate defects found while widening (see the widening report; repro
# scripts /tmp/scratch/widen/C15-defect-<n>.py).  Off: the combination is
# replaced by its nearest accepted neighbour, so the check stays quiet.
# 1: missing_output_value given + per-example keypoint_output_parameters whose
#    batch size is unknown at trace time -> tf.fill(shape with None) raises.
GEN_NB_GIVEN_MOV_BATCH_KOP = True
# 2: missing_output_value passed as a Python int -> tf.where dtype mismatch.
GEN_INT_MOV = True
# 3: cdf_fn with scaling_parameters and location_parameters whose batch size is
#    unknown at trace time -> "likely are not broadcastable" ValueError.
GEN_NB_CDF_SCALING = True
# 4 (lower confidence): range bounds passed as numpy scalars (np.float64 is a
#    float subclass, e.g. np.min(data)) -> tf.function turns them into tensors
#    and the traced `if min > max: raise` raises for ordered bounds.
GEN_NUMPY_SCALAR_ARGS = False

GEOM_EPS = {"cdf_fn": 1e-8, "cdf_layer": 1e-3}
PARAM_SCALES = [1e-3, 1.0, 1.0, 3.0, 10.0, 30.0, 100.0, 1e3, 1e6]
FORMS = ["1p", "Bp", "11p", "B1p", "1up", "Bup"]
# scaling_parameters shapes: the four documented (B, D, ., .) forms plus other
# shapes that are "broadcast friendly with location_parameters": batch size 1,
# all-ones, a scalar, and right-aligned shapes of rank 2 and 1.
SCAL_FORMS = ["none", "D11", "Dn1", "D1u", "Dnu", "1D11", "1111", "scalar",
              "n1", "u"]
EXEC_QUICK = ["graph", "eager", "graph_nb", "graph_nb"]
EXEC_BIG = ["graph", "graph_nb", "graph_nb"] + ["eager"] * 7


def _scal_shape(form, b, d, n, up):
  return {"D11": (b, d, 1, 1), "Dn1": (b, d, n, 1), "D1u": (b, d, 1, up),
          "Dnu": (b, d, n, up), "1D11": (1, d, 1, 1), "1111": (1, 1, 1, 1),
          "scalar": (), "n1": (n, 1), "u": (up,)}[form]


def _spell(v, how):
  """Python int for an integral value when how == 'int', else the float."""
  if how == "int" and v is not None and float(v) == int(v) and abs(v) < 2**31:
    return int(v)
  if how == "np" and v is not None:
    return np.float64(v)
  return v


def _flush(x):
  """float32 array without subnormal values (TensorFlow kernels may flush them
  to zero, e.g. in the comparison with missing_input_value)."""
  x = np.asarray(x, np.float32)
  return np.where(np.abs(x) < np.finfo(np.float32).tiny, np.float32(0), x)


def _first(mask):
  return tuple(int(v) for v in np.argwhere(mask)[0])


def _lead(form, b, u):
  return {"1p": (1,), "Bp": (b,), "11p": (1, 1), "B1p": (b, 1),
          "1up": (1, u), "Bup": (b, u)}[form]


def _rows(form, b, u):
  return int(np.prod(_lead(form, b, u)))


# --------------------------------------------------------------------------
# strategies
@st.composite
def _pwl_case(draw, tier):
  big = tier == "thorough"
  units = draw(st.sampled_from([1, 1, 1, 2, 2, 3, 3, 4]))
  b = draw(st.integers(1, 6 if big else 4))
  k = draw(st.sampled_from([2, 2, 3, 3, 4, 5, 6, 8] + ([12] if big else [])))
  mono = draw(st.sampled_from(["none", "increasing", "increasing"]))
  clamp_min = clamp_max = cyclic = False
  if mono == "increasing":
    clamp_min = draw(st.booleans())
    clamp_max = draw(st.booleans())
  else:
    cyclic = draw(st.sampled_from([False, False, True]))
  missing = draw(st.sampled_from(["none", "none", "given", "derived"]))
  p_out = k - clamp_min - clamp_max - cyclic + (missing == "derived")
  if p_out < 1:          # a constant function has no parameters: invalid
    k += 1 - p_out
    p_out = 1
  p_in = k - 2
  width = draw(st.sampled_from([1e-5, 1e-4, 0.01, 0.5, 1.0, 1.0, 3.0, 100.0,
                                1e4, 1e5]))
  if width < 1e-3:
    # tiny ranges sit at / around zero (elsewhere they would be a few float32
    # spacings wide)
    in_min = S.f32(draw(st.sampled_from([0.0, 0.0, -0.5 * width])))
  else:
    in_min = S.f32(draw(st.sampled_from([-100.0, -1.0, 0.0, 0.0, 0.5, 10.0,
                                         1000.0])))
  in_max = S.f32(in_min + width)
  out_min = S.f32(draw(st.sampled_from([-1000.0, -10.0, -1.0, 0.0, 0.0, 0.5,
                                        100.0])))
  out_max = S.f32(out_min + draw(st.sampled_from(
      [0.0, 0.25, 0.5, 1.0, 1.0, 1.0, 2.0, 3.0, 10.0, 1000.0])))
  kip_form = draw(st.sampled_from(FORMS)) if p_in > 0 else None
  if units == 1 or GEN_OUT_2D_UNITS:
    kop_form = draw(st.sampled_from(FORMS))
  else:
    kop_form = draw(st.sampled_from(["11p", "B1p", "1up", "Bup"]))
  case = {
      "kind": "pwl", "units": units, "batch": b, "k": k, "mono": mono,
      "clamp_min": bool(clamp_min), "clamp_max": bool(clamp_max),
      "cyclic": bool(cyclic), "missing": missing,
      "miv": draw(st.sampled_from(["lo-1", "hi+5", "in_min", "mid", "zero",
                                   "-1", "kp"])),
      "mov": draw(st.sampled_from(["out_min", "out_max", "below", "zero",
                                   "mid", "-7.5"])),
      "in_min": in_min, "in_max": in_max, "out_min": out_min,
      "out_max": out_max, "kip_form": kip_form, "kop_form": kop_form,
      "x_form": draw(st.sampled_from(["B1", "Bu"])),
      "kip": None if p_in == 0 else draw(S.array_desc(
          scales=PARAM_SCALES, shape=(_rows(kip_form, b, units), p_in))),
      "kop": draw(S.array_desc(scales=PARAM_SCALES,
                               shape=(_rows(kop_form, b, units), p_out))),
      "x_mode": draw(st.sampled_from(["inside", "wide", "ends", "keypoints",
                                      "mixed", "mixed"])),
      "omit_defaults": draw(st.booleans()),
      # graph_nb: called from inside a tf.function whose input signature leaves
      # the batch size unknown (None), as for outputs of other TF modules in
      # a Keras model; graph / eager: concrete tensors.
      "exec": draw(st.sampled_from(EXEC_BIG if big else EXEC_QUICK)),
      # parameters as constants or as tf.Variable (graph / eager only)
      "param_as": draw(st.sampled_from(["constant", "constant", "variable"])),
      # integral range bounds / missing values as Python ints
      "num_as": draw(st.sampled_from(["float", "float", "int"] + (
          ["np"] if GEN_NUMPY_SCALAR_ARGS else []))),
      # also call with return_derived_parameters=True and judge what it returns
      "derived": draw(st.sampled_from([False, False, True])),
      "aux": draw(S.seeds),
  }
  return case


def _cdf_common(draw, tier):
  big = tier == "thorough"
  sf = draw(st.sampled_from([1, 1, 1, 2, 3]))
  units = sf * draw(st.integers(1, 3 if sf == 1 else (2 if sf == 2 else 1)))
  dim = sf * draw(st.integers(1, 4 if big else 3))
  return {
      "batch": draw(st.integers(1, 6 if big else 4)), "dim": dim,
      "units": units, "sf": sf,
      "nk": draw(st.sampled_from([1, 2, 3, 5, 10] + ([20] if big else []))),
      "activation": draw(st.sampled_from(["relu6", "sigmoid"])),
      "reduction": draw(st.sampled_from(["mean", "geometric_mean", "none"])),
      "x": draw(S.array_desc(kinds=["normal", "uniform", "ints", "ties"],
                             scales=[1e-3, 1.0, 1.0, 10.0, 1e3, 1e6])),
      "x_mode": draw(st.sampled_from(["free", "near", "near"])),
      "step_mode": draw(st.sampled_from(["all", "single"])),
      "aux": draw(S.seeds),
  }


@st.composite
def _cdf_fn_case(draw, tier):
  case = _cdf_common(draw, tier)
  b, d, n, up = (case["batch"], case["dim"], case["nk"],
                 case["units"] // case["sf"])
  form = draw(st.sampled_from(SCAL_FORMS))
  size = 0 if form == "none" else int(np.prod(_scal_shape(form, b, d, n, up)))
  case.update({
      "kind": "cdf_fn",
      "loc": draw(S.array_desc(shape=(b * d * n, up))),
      "scal_form": form,
      "scal": None if form == "none" else draw(S.array_desc(
          scales=[1e-3, 1.0, 1.0, 10.0, 1e3, 1e6], shape=(size, 1))),
      "scal_mode": draw(st.sampled_from(["nonneg", "nonneg", "exp"])),
      "mult": draw(st.sampled_from([0.1, 1.0, -0.5, 2.0])),
      "omit_defaults": draw(st.booleans()),
      "exec": draw(st.sampled_from(EXEC_BIG if tier == "thorough"
                                   else EXEC_QUICK)),
      "param_as": draw(st.sampled_from(["constant", "constant", "variable"])),
  })
  return case


@st.composite
def _cdf_layer_case(draw, tier):
  case = _cdf_common(draw, tier)
  d, n, up = case["dim"], case["nk"], case["units"] // case["sf"]
  case.update({
      "kind": "cdf_layer",
      "kernel_src": draw(st.sampled_from(["assigned", "assigned", "assigned",
                                          "init"])),
      "kernel": draw(S.array_desc(shape=(d * n, up))),
      "scal_type": draw(st.sampled_from(["fixed", "learned_shared",
                                         "learned_per_input"])),
      "scal_mono": draw(st.sampled_from(["increasing", "increasing", 1, "none",
                                         0])),
      "scal_init": draw(st.sampled_from([None, None, 0.0, 0.5, 1.0, 10.0,
                                         1000.0])),
      "scal_src": draw(st.sampled_from(["assigned", "assigned", "init"])),
      "scal": draw(S.array_desc(scales=[1e-3, 1.0, 1.0, 10.0, 1e3, 1e6],
                                shape=(d, 1))),
      "omit_defaults": draw(st.booleans()),
  })
  return case


def strategy(tier):
  return st.one_of(_pwl_case(tier), _pwl_case(tier), _pwl_case(tier),
                   _cdf_fn_case(tier), _cdf_layer_case(tier))


# --------------------------------------------------------------------------
# pwl_calibration_fn
def _shape_param(desc, form, b, u, p):
  a = S.materialize(desc, (_rows(form, b, u), p))
  return a.reshape(_lead(form, b, u) + (p,))


def _is_missing(x, miv):
  """x equals missing_input_value as TensorFlow compares them.

  TensorFlow flushes float32 subnormals to zero, so a subnormal missing value
  (an interior reference keypoint whose gap underflowed) equals an input of 0.0
  - and vice versa - for the library although NumPy tells them apart.
  """
  tiny = 1.1754944e-38
  x = np.asarray(x, np.float32)
  return (x == np.float32(miv)) | (
      (np.abs(x) < tiny) & (abs(float(miv)) < tiny))


def _full(a, b, u):
  """Documented broadcast of a parameter tensor to (B, units, p), float64."""
  a = np.asarray(a, np.float64)
  if a.ndim == 2:
    a = a[:, None, :]
  return np.broadcast_to(a, (b, u, a.shape[-1]))


def _softmax64(z):
  z = z - z.max(-1, keepdims=True)
  e = np.exp(z)
  return e / e.sum(-1, keepdims=True)


def _magclass(a):
  m = float(np.max(np.abs(a))) if a is not None and a.size else 0.0
  return "small(<=10)" if m <= 10 else ("mid(10..104)" if m < 104
                                        else "huge(>=104)")


def _pwl_inputs(case, rs, kp_ref, miv):
  """Probe inputs, all float32 of shape (B, xcols)."""
  b, u = case["batch"], case["units"]
  lo, hi = np.float32(case["in_min"]), np.float32(case["in_max"])
  width = float(hi) - float(lo)
  xc = 1 if case["x_form"] == "B1" else u
  shape = (b, xc)

  def draw(mode):
    if mode == "inside":
      return float(lo) + rs.uniform(0, 1, size=shape) * width
    if mode == "wide":
      return float(lo) + width * rs.normal(size=shape) * rs.choice(
          [1.0, 10.0, 1e4], size=shape)
    if mode == "ends":
      return np.where(rs.randint(0, 2, size=shape) == 0, float(lo), float(hi))
    j = rs.randint(0, kp_ref.shape[-1], size=shape)
    bb, uu = np.meshgrid(np.arange(b), np.arange(xc), indexing="ij")
    return kp_ref[bb, uu, j]

  if case["x_mode"] == "mixed":
    parts = [draw(m) for m in ("inside", "wide", "ends", "keypoints")]
    pick = rs.randint(0, 4, size=shape)
    x1 = np.choose(pick, parts)
  else:
    x1 = draw(case["x_mode"])
  x1 = _flush(x1)
  ulp = np.spacing(np.abs(x1)).astype(np.float64)
  steps = np.stack([np.zeros(shape), ulp, np.full(shape, 1e-3 * width),
                    np.full(shape, 0.3 * width), np.full(shape, width),
                    np.full(shape, 10 * width), np.full(shape, 1e6)])
  x2 = (x1.astype(np.float64) + np.choose(rs.randint(0, 7, size=shape),
                                          steps)).astype(np.float32)
  x2 = np.maximum(_flush(x2), x1)
  if miv is not None:
    x1 = np.where(rs.rand(*shape) < 0.3, np.float32(miv), x1)
    x2 = np.where(rs.rand(*shape) < 0.15, np.float32(miv), x2)
  s = np.float32(max(abs(float(lo)), abs(float(hi))))
  margin = np.float32(4 * case["k"]) * np.spacing(s)
  probes = [
      ("a", x1), ("b", x2),
      ("lo", np.full(shape, lo, np.float32)),
      ("hi", np.full(shape, hi, np.float32)),
      ("lo_out", np.full(shape, lo - margin, np.float32)),
      ("hi_out", np.full(shape, hi + margin, np.float32)),
  ]
  return probes


def _ref_increments(case, kop, b, u, k, out_min, out_max):
  """Float64 reference |output increment| of every segment, (B, units, K-1).

  Written from the module description: without monotonicity the keypoint
  outputs are the sigmoid-squashed parameters rescaled to the output range
  (cyclic: the first one repeated at the end); with monotonicity='increasing'
  the increments are the softmax of the front-zero-padded parameters times
  the width of the output range, the first one being the offset of the first
  keypoint output above keypoint_output_min unless clamp_min, the last one
  being used only with clamp_max.
  """
  po = _full(kop, b, u)
  if case["missing"] == "derived":
    po = po[..., :-1]
  rng = float(out_max) - float(out_min)
  if case["mono"] == "none":
    with np.errstate(over="ignore"):
      y = float(out_min) + rng / (1.0 + np.exp(-po))
    if case["cyclic"]:
      y = np.concatenate([y, y[..., :1]], -1)
    dy = np.abs(np.diff(y, axis=-1))
  else:
    inc = _softmax64(np.concatenate([np.zeros((b, u, 1)), po], -1)) * rng
    dy = inc[..., :k - 1] if case["clamp_min"] else inc[..., 1:k]
  assert dy.shape == (b, u, k - 1), (dy.shape, (b, u, k - 1))
  return dy


def _cond_allowance(kp_ref, dy_ref, xf, k, in_min, in_max, dy_bound):
  """Float32 conditioning allowance per (example, unit).

  The function places its keypoints by a float32 running sum of the derived
  gaps, so a keypoint position is only known up to err = (k+2) * ulp32(scale of
  the input range).  For a segment of length len next to x the interpolation
  weight is therefore uncertain by min(1, 2*err/len), i.e. the output by that
  times the segment's output increment.  Segments farther than err from x have
  exact weights 0 or 1 and contribute nothing.  Keypoints and segment lengths
  are the float64 REFERENCE ones (kp_ref), never values returned by the
  function under test.  The output increment of a segment is bounded by the
  larger of the reference increment (dy_ref, which assumes the documented
  sigmoid squashing) and |dy_bound| - an increment the caller can guarantee
  for ANY parametrisation of the outputs (the width of the output range) scaled
  so that it never exceeds the reference by more than a factor 4: a library
  that squashes the free parameters differently (audit control M-C15-11,
  sigmoid(2z)) still has equal cyclic ends and must not be flagged.
  """
  dy_ref = np.maximum(np.abs(dy_ref), np.minimum(4.0 * np.abs(dy_ref) + 1e-30,
                                                 abs(dy_bound)))
  kp = kp_ref[..., :-1]
  dx = np.diff(kp_ref, axis=-1)
  scale = max(abs(in_min), abs(in_max), float(np.max(np.abs(xf))), 1e-30)
  err = (k + 2) * float(np.spacing(np.float32(scale)))
  xx = xf[..., None].astype(np.float64)
  near = (xx >= kp - err) & (xx <= kp + dx + err)
  w = np.minimum(1.0, 2.0 * err / np.maximum(dx, 1e-45))
  return np.sum(np.where(near, dy_ref * w, 0.0), axis=-1)


def _none_batch_spec(tf, a, per_example):
  shape = list(a.shape)
  if per_example:
    shape[0] = None
  return tf.TensorSpec(shape, tf.float32)


def _pwl_caller(case, tf, fn, kip, kop, kw, xc, derived=False):
  """Returns call(x) -> what fn returns, in the case's execution form."""
  kw = dict(kw)
  if derived:
    kw["return_derived_parameters"] = True
  if case["exec"] != "graph_nb":
    mk = tf.Variable if case.get("param_as") == "variable" else tf.constant
    t_kip = None if kip is None else mk(kip)
    t_kop = mk(kop)
    return lambda x: fn(tf.constant(x), t_kip, t_kop, **kw)
  # unknown batch size: the inputs and every per-example parameter tensor
  kop_nb = case["kop_form"][0] == "B" and (
      GEN_NB_GIVEN_MOV_BATCH_KOP or case["missing"] != "given")
  specs = [tf.TensorSpec([None, xc], tf.float32)]
  args = []
  if kip is not None:
    specs.append(_none_batch_spec(tf, kip, case["kip_form"][0] == "B"))
    args.append(tf.constant(kip))
  specs.append(_none_batch_spec(tf, kop, kop_nb))
  args.append(tf.constant(kop))

  def outer(x, *params):
    if kip is None:
      return fn(x, None, params[0], **kw)
    return fn(x, params[0], params[1], **kw)
  traced = tf.function(outer, input_signature=specs, autograph=False)
  return lambda x: traced(tf.constant(x), *args)


def _run_pwl(case, out, tf, tfl):
  b, u, k = case["batch"], case["units"], case["k"]
  in_min, in_max = case["in_min"], case["in_max"]
  out_min, out_max = case["out_min"], case["out_max"]
  width = in_max - in_min
  miv = mov = None
  if case["missing"] != "none":
    miv = S.f32({"lo-1": in_min - 1, "hi+5": in_max + 5, "in_min": in_min,
                 "mid": in_min + width / 2, "zero": 0.0, "-1": -1.0,
                 "kp": 0.0}[case["miv"]])   # "kp": placeholder, set below
    if case["missing"] == "given":
      mov = S.f32({"out_min": out_min, "out_max": out_max,
                   "below": out_min - 1, "zero": 0.0,
                   "mid": (out_min + out_max) / 2, "-7.5": -7.5}[case["mov"]])
  p_in = k - 2
  p_out = (k - case["clamp_min"] - case["clamp_max"] - case["cyclic"] +
           (case["missing"] == "derived"))
  kip = None if p_in == 0 else _shape_param(case["kip"], case["kip_form"], b,
                                            u, p_in)
  kop = _shape_param(case["kop"], case["kop_form"], b, u, p_out)

  # float64 reference keypoints (documented: gaps are the softmax of the
  # front-zero-padded parameters times the input range) - probe positions only.
  if kip is None:
    kp_ref = np.broadcast_to(np.array([in_min, in_max], np.float64), (b, u, 2))
  else:
    z = np.concatenate([np.zeros((b, u, 1)), _full(kip, b, u)], -1)
    gaps = _softmax64(z) * width
    kp_ref = in_min + np.concatenate([np.zeros((b, u, 1)),
                                      np.cumsum(gaps, -1)], -1)
  dy_ref = _ref_increments(case, kop, b, u, k, out_min, out_max)
  if miv is not None and case["miv"] == "kp":
    # the float32 value of a reference keypoint (interior when there is one)
    miv = S.f32(kp_ref[0, 0, (k - 1) // 2 if k > 2 else 1])
  rs = np.random.RandomState(case["aux"])
  probes = _pwl_inputs(case, rs, kp_ref, miv)

  how = case.get("num_as", "float")
  kw = dict(units=u, monotonicity=case["mono"], clamp_min=case["clamp_min"],
            clamp_max=case["clamp_max"], is_cyclic=case["cyclic"],
            keypoint_input_min=_spell(in_min, how),
            keypoint_input_max=_spell(in_max, how),
            keypoint_output_min=_spell(out_min, how),
            keypoint_output_max=_spell(out_max, how),
            missing_input_value=_spell(miv, how),
            missing_output_value=_spell(mov, how if GEN_INT_MOV else "float"))
  n_int = sum(type(v) is int for name, v in kw.items() if name != "units")
  if how == "np":
    out.label("pwl:numpy-scalar-args")
  if case["omit_defaults"]:
    for name, default in (("units", 1), ("monotonicity", "none"),
                          ("clamp_min", False), ("clamp_max", False),
                          ("is_cyclic", False), ("missing_input_value", None),
                          ("missing_output_value", None)):
      if kw[name] == default and type(kw[name]) is type(default):
        del kw[name]
    if in_min == 0.0 and in_max == 1.0:
      del kw["keypoint_input_min"], kw["keypoint_input_max"]
    if out_min == 0.0 and out_max == 1.0:
      del kw["keypoint_output_min"], kw["keypoint_output_max"]
  fn = tfl.conditional_pwl_calibration.pwl_calibration_fn
  xc = 1 if case["x_form"] == "B1" else u
  call = _pwl_caller(case, tf, fn, kip, kop, kw, xc)

  out.label("pwl", "pwl:kip=%s" % (case["kip_form"] or "None"),
            "pwl:kop=%s" % case["kop_form"],
            "pwl:x=%s" % ("(B,1)" if case["x_form"] == "B1" or u == 1
                          else "(B,units)"),
            "pwl:units=%d" % u, "pwl:mono=%s" % case["mono"],
            "pwl:missing=%s" % case["missing"], "pwl:K=%d" % k,
            "pwl:kip-mag=%s" % _magclass(kip),
            "pwl:kop-mag=%s" % _magclass(kop), "exec:" + case["exec"],
            "pwl:exec=" + case["exec"],
            "pwl:width=%s" % ("tiny(<=1e-4)" if width <= 1e-3 else
                              "huge(>=1e4)" if width >= 1e4 else "mid"))
  if case["exec"] != "graph_nb":
    out.label("pwl:params=" + case.get("param_as", "constant"))
  if n_int:
    out.label("pwl:int-spelled-args")
  if miv is not None and case["miv"] == "kp":
    out.label("pwl:missing-value-is-keypoint")
  if case["clamp_min"]:
    out.label("pwl:clamp_min")
  if case["clamp_max"]:
    out.label("pwl:clamp_max")
  if case["cyclic"]:
    out.label("pwl:cyclic")
  if out_max < 0:
    out.label("pwl:negative-output-range")
  if out_max == out_min:
    out.label("pwl:zero-width-output-range")

  osc = scale_of(out_min, out_max)
  tol = TOL_F * osc
  sig = dict(fn="pwl")
  ys, xs, miss, cond = {}, {}, {}, {}
  derived_cache = {}
  for name, x in probes:
    y = call(x).numpy()
    out.checks += 1
    if y.shape != (b, u):
      out.violate("output shape %s != (batch, units) = %s" % (y.shape, (b, u)),
                  kind="shape", **sig)
      return
    xf = np.broadcast_to(x, (b, u))
    m = _is_missing(xf, miv) if miv is not None else np.zeros((b, u), bool)
    y = y.astype(np.float64)
    ys[name], xs[name], miss[name] = y, xf, m
    live = ~m
    bad = live & ~np.isfinite(y)
    if np.any(bad):
      # known finding F-C15-2: 0/0 at a keypoint whose derived gap is 0.0
      _, dx, _ = fn(tf.constant(x), None if kip is None else tf.constant(kip),
                    tf.constant(kop), return_derived_parameters=True, **kw)
      dx = np.broadcast_to(dx.numpy(), (b, u, k - 1)).astype(np.float32)
      c = np.cumsum(dx, axis=-1, dtype=np.float32)
      kp32 = (np.concatenate([np.zeros((b, u, 1), np.float32), c[..., :-1]],
                             -1) + np.float32(in_min)).astype(np.float32)
      # (a subnormal difference x - keypoint is flushed to zero by TF as well)
      at = (np.abs(xf[..., None].astype(np.float64) - kp32) <= np.maximum(
          2 * np.spacing(np.abs(kp32)).astype(np.float64), 1.1754944e-38)) & (
                dx < 1.1754944e-38)     # 0 or subnormal (flushed to 0 by TF)
      collapsed = bad & at.any(-1)
      other = bad & ~collapsed
      if np.any(collapsed):
        i = _first(collapsed)
        out.label("pwl:nan-collapsed-keypoint")
        out.violate("NaN output at input %r = derived keypoint whose derived "
                    "gap is exactly 0.0 (gaps %s)" % (
                        float(xf[i]), dx[i].tolist()),
                    kind="nan-collapsed-keypoint", **sig)
      if np.any(other):
        i = _first(other)
        out.violate("non-finite output %r at input %r (probe %s)" % (
            float(y[i]), float(xf[i]), name), kind="nan", **sig)
        return
      live = live & ~bad
      miss[name] = m | bad       # not judged further
    # bounds (plus the float32 conditioning allowance near short segments)
    cond[name] = _cond_allowance(kp_ref, dy_ref, xf, k, in_min, in_max,
                                 out_max - out_min)
    btol = tol + cond[name]
    if np.any(live & ((y < out_min - btol) | (y > out_max + btol))):
      i = _first(live & ((y < out_min - btol) |
                                    (y > out_max + btol)))
      out.violate("output %r outside [%r, %r] at input %r" % (
          float(y[i]), out_min, out_max, float(xf[i])), kind="bounds",
                  mono=case["mono"], **sig)
      return
    # missing input -> missing output
    if np.any(m):
      out.checks += 1
      out.label("pwl:missing-input-seen")
      if mov is not None:
        if np.any(y[m] != float(np.float32(mov))):
          out.violate("missing input mapped to %r, missing_output_value=%r" % (
              float(y[m][0]), mov), kind="missing", given=True, **sig)
          return
      else:
        last = _full(kop, b, u)[..., -1]
        with np.errstate(over="ignore"):
          ref = out_min + (out_max - out_min) / (1.0 + np.exp(-last))
        if not np.all(np.isfinite(y[m])) or np.any(
            np.abs(y[m] - ref[m]) > tol) or np.any(
                (y[m] < out_min - tol) | (y[m] > out_max + tol)):
          out.violate("missing input mapped to %r, expected the squashed last "
                      "output parameter %r" % (float(y[m][0]),
                                               float(ref[m][0])),
                      kind="missing", given=False, **sig)
          return

  # ---- return_derived_parameters=True: "the deltas between the keypoints x's"
  # and "the initial value and the deltas between the keypoints y's" (cumsum
  # reconstructs the y values) must describe bounded / monotone / clamped /
  # cyclic keypoint outputs themselves.
  if case.get("derived"):
    out.label("pwl:derived-parameters-judged")
    res = _pwl_caller(case, tf, fn, kip, kop, kw, xc, derived=True)(
        probes[0][1])
    out.checks += 1
    good = isinstance(res, (tuple, list)) and len(res) == 3
    if good:
      yd, dxd, kern = [np.asarray(r.numpy(), np.float64) for r in res]
      try:
        dxd = np.broadcast_to(dxd, (b, u, k - 1))
        kern = np.broadcast_to(kern, (b, u, k))
      except ValueError:
        good = False
      good = good and yd.shape == (b, u)
    if not good:
      out.violate("return_derived_parameters=True does not return (output "
                  "(B,units), x deltas (.,.,K-1), y kernel (.,.,K))",
                  kind="derived-shape", **sig)
      return
    live = ~miss["a"]
    out.checks += 5
    if np.any(live & ~((yd >= out_min - tol - cond["a"]) &
                       (yd <= out_max + tol + cond["a"]))):
      out.violate("output returned with the derived parameters outside the "
                  "bounds", kind="bounds", mono=case["mono"], **sig)
      return
    flat = dxd.sum(-1) == 0      # every gap underflowed: nothing to say
    if not np.all(np.isfinite(dxd)) or np.any(dxd < 0) or np.any(
        ~flat & (np.abs(dxd.sum(-1) - width) > TOL_F * width)):
      i = _first(~(np.isfinite(dxd) & (dxd >= 0)).all(-1) | (
          np.abs(dxd.sum(-1) - width) > TOL_F * width))
      out.violate("derived keypoint gaps %s are not non-negative numbers "
                  "summing to the input range %r" % (dxd[i].tolist(), width),
                  kind="derived-gaps", **sig)
      return
    yk = np.cumsum(kern, -1)
    if not np.all(np.isfinite(kern)) or np.any(yk < out_min - tol) or np.any(
        yk > out_max + tol):
      i = _first(~(np.isfinite(yk) & (yk >= out_min - tol) &
                   (yk <= out_max + tol)).all(-1))
      out.violate("derived keypoint outputs %s leave [%r, %r]" % (
          yk[i].tolist(), out_min, out_max), kind="derived-bounds",
                  mono=case["mono"], **sig)
      return
    if case["mono"] == "increasing" and np.any(kern[..., 1:] < 0):
      out.violate("negative derived output increment with monotonicity="
                  "'increasing'", kind="derived-monotonicity", **sig)
      return
    if (case["clamp_min"] and np.any(np.abs(yk[..., 0] - out_min) > tol)) or (
        case["clamp_max"] and np.any(np.abs(yk[..., -1] - out_max) > tol)):
      out.violate("derived end keypoint outputs %s / %s are not the clamped "
                  "bounds" % (yk[..., 0].ravel()[:3].tolist(),
                              yk[..., -1].ravel()[:3].tolist()),
                  kind="derived-clamp", **sig)
      return
    if case["cyclic"] and np.any(np.abs(yk[..., 0] - yk[..., -1]) > tol):
      out.violate("is_cyclic: derived first / last keypoint outputs differ",
                  kind="derived-cyclic", **sig)
      return

  def judged(*names):
    ok = np.ones((b, u), bool)
    for n in names:
      ok &= ~miss[n]
    return ok

  # monotonicity over pairs
  if case["mono"] == "increasing":
    ok = judged("a", "b")
    out.checks += 1
    d = ys["b"] - ys["a"]
    mtol = TOL_MONO_F * osc + cond["a"] + cond["b"]
    if np.any(ok & (d < -mtol)):
      i = _first(ok & (d < -mtol))
      out.violate("f(%r)=%r > f(%r)=%r with monotonicity='increasing'" % (
          float(xs["a"][i]), float(ys["a"][i]), float(xs["b"][i]),
          float(ys["b"][i])), kind="monotonicity", **sig)
      return
    # the end probes are ordered too
    for lo_n, hi_n in (("lo_out", "lo"), ("lo", "hi"), ("hi", "hi_out")):
      ok = judged(lo_n, hi_n)
      if np.any(ok & (ys[hi_n] - ys[lo_n] < -(TOL_MONO_F * osc + cond[lo_n] +
                                              cond[hi_n]))):
        out.violate("f not non-decreasing between probes %s and %s" % (
            lo_n, hi_n), kind="monotonicity", **sig)
        return
  # clamps
  if case["clamp_min"]:
    for n in ("lo", "lo_out"):
      ok = judged(n)
      out.checks += 1
      if np.any(ok & (np.abs(ys[n] - out_min) > tol)):
        i = _first(ok & (np.abs(ys[n] - out_min) > tol))
        out.violate("clamp_min: f(%r)=%r != keypoint_output_min=%r" % (
            float(xs[n][i]), float(ys[n][i]), out_min), kind="clamp",
                    end="min", **sig)
        return
  if case["clamp_max"]:
    # exactly at keypoint_input_max the last kink is only placed to float32
    # resolution: the conditioning allowance of that probe is added there
    for n in ("hi_out", "hi"):
      ok = judged(n)
      out.checks += 1
      etol = tol + (cond[n] if n == "hi" else 0.0)
      if np.any(ok & (np.abs(ys[n] - out_max) > etol)):
        i = _first(ok & (np.abs(ys[n] - out_max) > etol))
        out.violate("clamp_max: f(%r)=%r != keypoint_output_max=%r" % (
            float(xs[n][i]), float(ys[n][i]), out_max), kind="clamp",
                    end="max", exact_end=(n == "hi"), **sig)
        return
  if case["cyclic"]:
    for lo_n, hi_n in (("lo", "hi_out"), ("lo_out", "hi_out"), ("lo", "hi")):
      ok = judged(lo_n, hi_n)
      out.checks += 1
      etol = tol + (cond[hi_n] if hi_n == "hi" else 0.0)
      if np.any(ok & (np.abs(ys[lo_n] - ys[hi_n]) > etol)):
        i = _first(ok & (np.abs(ys[lo_n] - ys[hi_n]) > etol))
        out.violate("is_cyclic: f(%r)=%r != f(%r)=%r" % (
            float(xs[lo_n][i]), float(ys[lo_n][i]), float(xs[hi_n][i]),
            float(ys[hi_n][i])), kind="cyclic", exact_end=(hi_n == "hi"),
                    **sig)
        return
  inside = False
  for n in ("a", "b"):
    inside |= bool(np.any(~miss[n] & (xs[n] >= np.float32(in_min)) &
                          (xs[n] <= np.float32(in_max))))
  out.nontrivial = bool(out_max > out_min and inside)


# --------------------------------------------------------------------------
# CDF
def _cdf_inputs(case, rs, loc):
  """x1 <= x2, float32 (B, D); loc (1 or B, D, n, u') float64."""
  b, d = case["batch"], case["dim"]
  x1 = S.materialize(case["x"], (b * d, 1)).reshape(b, d).astype(np.float64)
  if case["x_mode"] == "near":
    locb = np.broadcast_to(loc, (b,) + loc.shape[1:])
    j = rs.randint(0, loc.shape[2], size=(b, d))
    q = rs.randint(0, loc.shape[3], size=(b, d))
    bb, dd = np.meshgrid(np.arange(b), np.arange(d), indexing="ij")
    x1 = locb[bb, dd, j, q] + rs.normal(size=(b, d)) * rs.choice(
        [0.0, 0.01, 1.0, 100.0], size=(b, d))
  x1 = _flush(x1)
  mag = np.maximum(1.0, np.abs(x1.astype(np.float64)))
  step = rs.choice([0.0, 1e-3, 0.1, 1.0, 10.0, 1e3], size=(b, d)) * \
      rs.choice([1.0, 1.0, 0.0], size=(b, d)) * np.where(
          rs.rand(b, d) < 0.5, 1.0, mag)
  if case["step_mode"] == "single":
    keep = np.zeros((b, d))
    keep[np.arange(b), rs.randint(0, d, size=b)] = 1.0
    step = np.where(keep > 0, np.maximum(step, 1e-3), 0.0)
  x2 = np.maximum(_flush(x1.astype(np.float64) + step), x1)
  return x1, x2


def _judge_cdf(case, out, y1, y2, x1, x2, which):
  b, d, u, sf = case["batch"], case["dim"], case["units"], case["sf"]
  want = (b, d // sf, u) if case["reduction"] == "none" else (b, u)
  sig = dict(fn=which, activation=case["activation"],
             reduction=case["reduction"])
  out.checks += 1
  for y in (y1, y2):
    if y.shape != want:
      out.violate("output shape %s != documented %s" % (y.shape, want),
                  kind="shape", **sig)
      return
  y1, y2 = y1.astype(np.float64), y2.astype(np.float64)
  eps = GEOM_EPS[which] if case["reduction"] == "geometric_mean" else 0.0
  for y, x in ((y1, x1), (y2, x2)):
    out.checks += 1
    if not np.all(np.isfinite(y)):
      out.violate("non-finite output %r" % float(y[~np.isfinite(y)][0]),
                  kind="nan", **sig)
      return
    if np.any(y < -TOL_F) or np.any(y > 1.0 + eps + TOL_F):
      worst = float(y.max() if y.max() > 1.0 + eps + TOL_F else y.min())
      out.violate("output %r outside [0, 1] (geometric-mean epsilon %g)" % (
          worst, eps), kind="bounds", **sig)
      return
  out.checks += 1
  diff = y2 - y1
  if np.any(diff < -TOL_MONO_F):
    i = _first(diff < -TOL_MONO_F)
    out.violate("output %s decreases from %r to %r when the inputs of "
                "example %d move from %s up to %s" % (
                    i, float(y1[i]), float(y2[i]), i[0], x1[i[0]].tolist(),
                    x2[i[0]].tolist()), kind="monotonicity", **sig)
    return
  moved = bool(np.any(x2 > x1))
  changed = bool(np.any(diff > 0))
  out.label("%s:%s" % (which, "responsive" if changed else "saturated"))
  out.nontrivial = moved and changed


def _cdf_labels(case, out, which):
  out.label(which, "%s:act=%s" % (which, case["activation"]),
            "%s:red=%s" % (which, case["reduction"]),
            "%s:sparsity=%d" % (which, case["sf"]),
            "%s:units=%d" % (which, case["units"]),
            "%s:dim=%d" % (which, case["dim"]),
            "%s:nk=%d" % (which, case["nk"]),
            "%s:step=%s" % (which, case["step_mode"]))


def _run_cdf_fn(case, out, tf, tfl):
  b, d, n, u, sf = (case["batch"], case["dim"], case["nk"], case["units"],
                    case["sf"])
  up = u // sf
  loc = S.materialize(case["loc"], (b * d * n, up)).reshape(b, d, n, up)
  form = case["scal_form"]
  kw = dict(units=u, activation=case["activation"],
            reduction=case["reduction"], sparsity_factor=sf)
  scal = None
  mode = "none"
  if form != "none":
    shp = _scal_shape(form, b, d, n, up)
    raw = S.materialize(case["scal"], (int(np.prod(shp)), 1)).reshape(shp)
    mode = case["scal_mode"]
    if mode == "nonneg":
      scal = np.abs(raw)
    else:
      lim = np.float32(60.0 / abs(case["mult"]))
      scal = np.clip(raw, -lim, lim)
      kw["scaling_exp_transform_multiplier"] = case["mult"]
  if case["omit_defaults"]:
    for name, default in (("units", 1), ("activation", "relu6"),
                          ("reduction", "mean"), ("sparsity_factor", 1)):
      if kw[name] == default:
        del kw[name]
  _cdf_labels(case, out, "cdf_fn")
  out.label("cdf_fn:scaling=%s/%s" % (form, mode), "exec:" + case["exec"],
            "cdf_fn:exec=" + case["exec"], "cdf_fn:scaling-form=" + form)
  if scal is not None and mode == "nonneg" and np.any(scal == 0):
    out.label("cdf_fn:zero-scaling")
  rs = np.random.RandomState(case["aux"])
  x1, x2 = _cdf_inputs(case, rs, loc.astype(np.float64))
  fn = tfl.conditional_cdf.cdf_fn
  scal32 = None if scal is None else np.asarray(scal, np.float32)
  if case["exec"] == "graph_nb":
    # unknown batch size for the inputs and the per-example parameter tensors
    loc_nb = GEN_NB_CDF_SCALING or scal32 is None
    specs = [tf.TensorSpec([None, d], tf.float32),
             _none_batch_spec(tf, loc, loc_nb)]
    args = [tf.constant(loc)]
    if scal32 is not None:
      specs.append(_none_batch_spec(tf, scal32, loc_nb and form[0] == "D"))
      args.append(tf.constant(scal32))
    traced = tf.function(lambda x, *params: fn(x, *params, **kw),
                         input_signature=specs, autograph=False)
    call = lambda x: traced(tf.constant(x), *args)
  else:
    mk = tf.Variable if case.get("param_as") == "variable" else tf.constant
    out.label("cdf_fn:params=" + case.get("param_as", "constant"))
    t_loc = mk(loc)
    t_scal = None if scal32 is None else mk(scal32)
    if t_scal is None and case["omit_defaults"]:
      call = lambda x: fn(tf.constant(x), t_loc, **kw)
    else:
      call = lambda x: fn(tf.constant(x), t_loc, t_scal, **kw)
  y1 = call(x1).numpy()
  y2 = call(x2).numpy()
  _judge_cdf(case, out, y1, y2, x1, x2, "cdf_fn")


def _run_cdf_layer(case, out, tf, tfl):
  d, n, u, sf = case["dim"], case["nk"], case["units"], case["sf"]
  up = u // sf
  kw = dict(num_keypoints=n, units=u, activation=case["activation"],
            reduction=case["reduction"], input_scaling_init=case["scal_init"],
            input_scaling_type=case["scal_type"],
            input_scaling_monotonicity=case["scal_mono"], sparsity_factor=sf)
  if case["omit_defaults"]:
    for name, default in (("units", 1), ("activation", "relu6"),
                          ("reduction", "mean"), ("input_scaling_init", None),
                          ("input_scaling_type", "fixed"),
                          ("input_scaling_monotonicity", "increasing"),
                          ("sparsity_factor", 1)):
      if kw[name] == default and type(kw[name]) is type(default):
        del kw[name]
  layer = tfl.layers.CDF(**kw)
  # Built by a first call: CDF.build() does not mark the layer as built, so a
  # direct layer.build() would be repeated (fresh weights) on the first call.
  layer(tf.zeros((1, d), tf.float32))
  if case["kernel_src"] == "assigned":
    layer.kernel.assign(S.materialize(case["kernel"], (d * n, up)).reshape(
        1, d, n, up))
  learned = case["scal_type"] != "fixed"
  src = "fixed"
  if learned:
    src = case["scal_src"]
    if src == "assigned":
      raw = S.materialize(case["scal"], (d, 1))
      raw = raw[:1, 0] if case["scal_type"] == "learned_shared" else \
          raw.reshape(1, d, 1, 1)
      if case["scal_mono"] in ("increasing", 1):
        # documented: constrained to be non-negative by the layer's constraint
        cons = layer.input_scaling.constraint
        w = raw if cons is None else cons(tf.constant(raw)).numpy()
        src = "assigned+constraint"
      else:
        w = np.abs(raw)
        src = "assigned+abs"
      layer.input_scaling.assign(w)
  _cdf_labels(case, out, "cdf_layer")
  out.label("cdf_layer:scaling=%s" % case["scal_type"],
            "cdf_layer:scaling-src=%s" % src,
            "cdf_layer:kernel=%s" % case["kernel_src"],
            "cdf_layer:scal-mono=%r" % (case["scal_mono"],))
  rs = np.random.RandomState(case["aux"])
  x1, x2 = _cdf_inputs(case, rs, layer.kernel.numpy().astype(np.float64))
  y1 = layer(tf.constant(x1)).numpy()
  y2 = layer(tf.constant(x2)).numpy()
  _judge_cdf(case, out, y1, y2, x1, x2, "cdf_layer")


def run_case(case):
  import tensorflow as tf
  import tensorflow_lattice as tfl
  out = Outcome()
  tf.random.set_seed(case["aux"])
  np.random.seed(case["aux"] % (2**32))
  tf.config.run_functions_eagerly(case.get("exec") == "eager")
  try:
    if case["kind"] == "pwl":
      _run_pwl(case, out, tf, tfl)
    elif case["kind"] == "cdf_fn":
      _run_cdf_fn(case, out, tf, tfl)
    else:
      _run_cdf_layer(case, out, tf, tfl)
  except Exception as e:  # pylint: disable=broad-except
    # An exception raised while a tf.function is traced has no library frame
    # in its traceback (only in its message), so the harness' generic handler
    # would call it a harness error: report it here, naming the execution form.
    where = _library_frame(e)
    if where is None or _lattice_frame(e.__traceback__) is not None:
      raise
    out.nontrivial = True
    out.label("exception")
    out.violate("%s: %s" % (type(e).__name__, " ".join(str(e).split())[-300:]),
                kind="exception", exc=type(e).__name__, where=where,
                fn=case["kind"], exec=case.get("exec", "eager"))
  return out


def _library_frame(e):
  """file:function of the innermost tensorflow_lattice frame of an exception,
  from the traceback or, for errors raised during tracing, from the 'in user
  code: File ".../tensorflow_lattice/python/x.py", line N, in f' message."""
  where = _lattice_frame(e.__traceback__)
  if where is None:
    hits = [h for h in re.findall(
        r'File "([^"]*/tensorflow_lattice/[^"]*)", line \d+, in (\w+)', str(e))
            if "/verif/" not in h[0]]
    if hits:
      where = "%s:%s" % (os.path.basename(hits[-1][0]), hits[-1][1])
  return where


TECHNIQUE = ("property-based testing (Hypothesis): range / metamorphic "
             "input-pair oracles on randomly generated valid calls")
LEVEL_TEXT = ("Generated-input exploration: thousands of random valid calls of "
              "pwl_calibration_fn (all documented parameter shape forms, clamp, "
              "cyclic and missing modes, parameters up to 1e6 in magnitude, "
              "input ranges from 1e-5 to 1e5 wide, constants / variables / "
              "tensors of unknown batch size inside an enclosing tf.function), "
              "cdf_fn (nine scaling shapes) and the CDF layer per run; outputs "
              "are checked against "
              "the documented bounds, on ordered input pairs, at and just "
              "outside the end keypoints and at the missing value, and the "
              "derived parameters returned on request are checked for the same "
              "bounds / monotonicity / clamp / cyclic facts. Finds squashing, "
              "padding, axis, sign, static-shape and argument-type mistakes; "
              "shows no absence.")
LEVEL_NOTE = ("Trusted: TensorFlow/NumPy arithmetic, the harness. Sizes bounded "
              "(<= 8 keypoints quick / 12 thorough, <= 4 units, batch <= 6, "
              "<= 10 CDF keypoints quick / 20 thorough); "
              "end-keypoint clauses judged 4*K float32 spacings outside "
              "keypoint_input_max and, with the float32 conditioning allowance "
              "of the last segment added, exactly at it; tolerance 1e-4 "
              "(bounds/values) and 1e-5 "
              "(monotonicity) relative to max(1, |output bounds|), plus the "
              "conditioning allowance computed from float64 reference "
              "keypoints. Library exceptions raised while a tf.function is "
              "traced are reported with the execution form in the signature.")
